(* The serde-derive representation of the protocol types:
   worterbuch-common/src/client.rs (ClientMessage), server.rs (ServerMessage),
   worterbuch/src/leader_follower/mod.rs (LeaderSyncMessage, ClientWriteCommand, StateSync).
   enc_* is what Serialize writes (fields in declaration order); dec_* is what the derived
   Deserialize accepts: externally tagged enums as single-entry maps, structs as maps (unknown
   fields ignored, a missing Option is None) or as sequences in declaration order,
   #[serde(flatten)] picking the first entry that names a variant. *)
From WB Require Import Base.Str Base.Json Model.Key Model.Store Model.Entry Model.Consts Model.CodecConsts.

Definition u32_max : N := 4294967295.

(* ---- field access ---- *)
Definition jnum (n : N) : json := JNum (dec_of_N n).
Definition get_u64 (fs : list (str * json)) (k : str) : option N :=
  match assoc k fs with Some (JNum l) => u64_of_lit l | _ => None end.
Definition get_u32 (fs : list (str * json)) (k : str) : option N :=
  match get_u64 fs k with Some n => if N.leb n u32_max then Some n else None | None => None end.
Definition get_str (fs : list (str * json)) (k : str) : option str :=
  match assoc k fs with Some (JStr s) => Some s | _ => None end.
Definition get_bool (fs : list (str * json)) (k : str) : option bool :=
  match assoc k fs with Some (JBool b) => Some b | _ => None end.
Definition get_val (fs : list (str * json)) (k : str) : option json := assoc k fs.
(* Option<T>: absent or null is None; Some None = present but ill-typed *)
Definition get_opt {A} (conv : json -> option A) (fs : list (str * json)) (k : str) : option (option A) :=
  match assoc k fs with
  | None | Some JNull => Some None
  | Some j => match conv j with Some a => Some (Some a) | None => None end
  end.
Definition as_str (j : json) : option str := match j with JStr s => Some s | _ => None end.
Definition as_bool (j : json) : option bool := match j with JBool b => Some b | _ => None end.
Definition as_u64 (j : json) : option N := match j with JNum l => u64_of_lit l | _ => None end.

(* a struct given as a map, or as a sequence of all its fields in declaration order *)
(* serde's derived visit_map: a known field that appears twice is an error ("duplicate field");
   unknown fields are skipped, however often they appear *)
Fixpoint count_key (k : str) (fs : list (str * json)) : nat :=
  match fs with [] => 0 | (k', _) :: fs' => (if str_eqb k k' then 1 else 0) + count_key k fs' end.
Definition no_dup_known (names : list str) (fs : list (str * json)) : bool :=
  forallb (fun n => Nat.leb (count_key n fs) 1) names.
Definition as_fields (names : list str) (j : json) : option (list (str * json)) :=
  match j with
  | JObj fs => if no_dup_known names fs then Some fs else None
  | JArr items => if Nat.eqb (length items) (length names) then Some (combine names items) else None
  | _ => None
  end.

Definition opt_field {A} (k : str) (enc : A -> json) (o : option A) : list (str * json) :=
  match o with Some a => [(k, enc a)] | None => [] end.
Definition null_field {A} (k : str) (enc : A -> json) (o : option A) : list (str * json) :=
  [(k, match o with Some a => enc a | None => JNull end)].

(* ---- client messages ---- *)
Inductive cmsg :=
| MProtocolSwitchRequest (version : N)
| MAuthorizationRequest (token : str)
| MGet (tid : N) (key : str)
| MCGet (tid : N) (key : str)
| MPGet (tid : N) (pat : str)
| MSet (tid : N) (key : str) (v : json)
| MCSet (tid : N) (key : str) (v : json) (ver : N)
| MSPubInit (tid : N) (key : str)
| MSPub (tid : N) (v : json)
| MPublish (tid : N) (key : str) (v : json)
| MSubscribe (tid : N) (key : str) (unique : bool) (live : option bool)
| MPSubscribe (tid : N) (pat : str) (unique : bool) (agg : option N) (live : option bool)
| MUnsubscribe (tid : N)
| MDelete (tid : N) (key : str)
| MPDelete (tid : N) (pat : str) (quiet : option bool)
| MLs (tid : N) (parent : option str)
| MPLs (tid : N) (pp : option str)
| MSubscribeLs (tid : N) (parent : option str)
| MUnsubscribeLs (tid : N)
| MLock (tid : N) (key : str)
| MAcquireLock (tid : N) (key : str)
| MReleaseLock (tid : N) (key : str)
| MTransform (tid : N) (key : str) (template : json).

Definition tagged (name : str) (fields : list (str * json)) : json := JObj [(name, JObj fields)].
Definition f_tid (t : N) := (n_transactionId, jnum t).

Definition enc_cmsg (m : cmsg) : json :=
  match m with
  | MProtocolSwitchRequest v => tagged n_protocolSwitchRequest [(n_version, jnum v)]
  | MAuthorizationRequest t => tagged n_authorizationRequest [(n_authToken, JStr t)]
  | MGet t k => tagged n_get [f_tid t; (n_key, JStr k)]
  | MCGet t k => tagged n_cGet [f_tid t; (n_key, JStr k)]
  | MPGet t p => tagged n_pGet [f_tid t; (n_requestPattern, JStr p)]
  | MSet t k v => tagged n_set [f_tid t; (n_key, JStr k); (n_value, v)]
  | MCSet t k v ver => tagged n_cSet [f_tid t; (n_key, JStr k); (n_value, v); (n_version, jnum ver)]
  | MSPubInit t k => tagged n_sPubInit [f_tid t; (n_key, JStr k)]
  | MSPub t v => tagged n_sPub [f_tid t; (n_value, v)]
  | MPublish t k v => tagged n_publish [f_tid t; (n_key, JStr k); (n_value, v)]
  | MSubscribe t k u l =>
      tagged n_subscribe ([f_tid t; (n_key, JStr k); (n_unique, JBool u)] ++ opt_field n_liveOnly JBool l)
  | MPSubscribe t p u a l =>
      tagged n_pSubscribe ([f_tid t; (n_requestPattern, JStr p); (n_unique, JBool u)]
                           ++ opt_field n_aggregateEvents jnum a ++ opt_field n_liveOnly JBool l)
  | MUnsubscribe t => tagged n_unsubscribe [f_tid t]
  | MDelete t k => tagged n_delete [f_tid t; (n_key, JStr k)]
  | MPDelete t p q => tagged n_pDelete ([f_tid t; (n_requestPattern, JStr p)] ++ null_field n_quiet JBool q)
  | MLs t p => tagged n_ls (f_tid t :: null_field n_parent JStr p)
  | MPLs t p => tagged n_pLs (f_tid t :: null_field n_parentPattern JStr p)
  | MSubscribeLs t p => tagged n_subscribeLs (f_tid t :: null_field n_parent JStr p)
  | MUnsubscribeLs t => tagged n_unsubscribeLs [f_tid t]
  | MLock t k => tagged n_lock [f_tid t; (n_key, JStr k)]
  | MAcquireLock t k => tagged n_acquireLock [f_tid t; (n_key, JStr k)]
  | MReleaseLock t k => tagged n_releaseLock [f_tid t; (n_key, JStr k)]
  | MTransform t k tpl => tagged n_transform [f_tid t; (n_key, JStr k); (n_template, tpl)]
  end.

Definition bind {A B} (o : option A) (f : A -> option B) : option B :=
  match o with Some a => f a | None => None end.
Notation "x <- o ;; k" := (bind o (fun x => k)) (at level 60, o at level 50, right associativity).

Definition tid_key (mk : N -> str -> cmsg) (kname : str) (p : json) : option cmsg :=
  fs <- as_fields [n_transactionId; kname] p ;;
  t <- get_u64 fs n_transactionId ;; k <- get_str fs kname ;; Some (mk t k).

Definition dec_cmsg (j : json) : option cmsg :=
  match j with
  | JObj [(name, p)] =>
      if str_eqb name n_protocolSwitchRequest then
        fs <- as_fields [n_version] p ;; v <- get_u32 fs n_version ;; Some (MProtocolSwitchRequest v)
      else if str_eqb name n_authorizationRequest then
        fs <- as_fields [n_authToken] p ;; t <- get_str fs n_authToken ;; Some (MAuthorizationRequest t)
      else if str_eqb name n_get then tid_key MGet n_key p
      else if str_eqb name n_cGet then tid_key MCGet n_key p
      else if str_eqb name n_pGet then tid_key MPGet n_requestPattern p
      else if str_eqb name n_set then
        fs <- as_fields [n_transactionId; n_key; n_value] p ;;
        t <- get_u64 fs n_transactionId ;; k <- get_str fs n_key ;; v <- get_val fs n_value ;; Some (MSet t k v)
      else if str_eqb name n_cSet then
        fs <- as_fields [n_transactionId; n_key; n_value; n_version] p ;;
        t <- get_u64 fs n_transactionId ;; k <- get_str fs n_key ;; v <- get_val fs n_value ;;
        ver <- get_u64 fs n_version ;; Some (MCSet t k v ver)
      else if str_eqb name n_sPubInit then tid_key MSPubInit n_key p
      else if str_eqb name n_sPub then
        fs <- as_fields [n_transactionId; n_value] p ;;
        t <- get_u64 fs n_transactionId ;; v <- get_val fs n_value ;; Some (MSPub t v)
      else if str_eqb name n_publish then
        fs <- as_fields [n_transactionId; n_key; n_value] p ;;
        t <- get_u64 fs n_transactionId ;; k <- get_str fs n_key ;; v <- get_val fs n_value ;; Some (MPublish t k v)
      else if str_eqb name n_subscribe then
        fs <- as_fields [n_transactionId; n_key; n_unique; n_liveOnly] p ;;
        t <- get_u64 fs n_transactionId ;; k <- get_str fs n_key ;; u <- get_bool fs n_unique ;;
        l <- get_opt as_bool fs n_liveOnly ;; Some (MSubscribe t k u l)
      else if str_eqb name n_pSubscribe then
        fs <- as_fields [n_transactionId; n_requestPattern; n_unique; n_aggregateEvents; n_liveOnly] p ;;
        t <- get_u64 fs n_transactionId ;; k <- get_str fs n_requestPattern ;; u <- get_bool fs n_unique ;;
        a <- get_opt as_u64 fs n_aggregateEvents ;; l <- get_opt as_bool fs n_liveOnly ;; Some (MPSubscribe t k u a l)
      else if str_eqb name n_unsubscribe then
        fs <- as_fields [n_transactionId] p ;; t <- get_u64 fs n_transactionId ;; Some (MUnsubscribe t)
      else if str_eqb name n_delete then tid_key MDelete n_key p
      else if str_eqb name n_pDelete then
        fs <- as_fields [n_transactionId; n_requestPattern; n_quiet] p ;;
        t <- get_u64 fs n_transactionId ;; k <- get_str fs n_requestPattern ;;
        q <- get_opt as_bool fs n_quiet ;; Some (MPDelete t k q)
      else if str_eqb name n_ls then
        fs <- as_fields [n_transactionId; n_parent] p ;;
        t <- get_u64 fs n_transactionId ;; q <- get_opt as_str fs n_parent ;; Some (MLs t q)
      else if str_eqb name n_pLs then
        fs <- as_fields [n_transactionId; n_parentPattern] p ;;
        t <- get_u64 fs n_transactionId ;; q <- get_opt as_str fs n_parentPattern ;; Some (MPLs t q)
      else if str_eqb name n_subscribeLs then
        fs <- as_fields [n_transactionId; n_parent] p ;;
        t <- get_u64 fs n_transactionId ;; q <- get_opt as_str fs n_parent ;; Some (MSubscribeLs t q)
      else if str_eqb name n_unsubscribeLs then
        fs <- as_fields [n_transactionId] p ;; t <- get_u64 fs n_transactionId ;; Some (MUnsubscribeLs t)
      else if str_eqb name n_lock then tid_key MLock n_key p
      else if str_eqb name n_acquireLock then tid_key MAcquireLock n_key p
      else if str_eqb name n_releaseLock then tid_key MReleaseLock n_key p
      else if str_eqb name n_transform then
        fs <- as_fields [n_transactionId; n_key; n_template] p ;;
        t <- get_u64 fs n_transactionId ;; k <- get_str fs n_key ;; v <- get_val fs n_template ;; Some (MTransform t k v)
      else None
  | _ => None
  end.

(* ---- server messages ---- *)
Inductive pevent := PKvs (l : list (str * json)) | PDel (l : list (str * json)).
Inductive sevent := SValue (v : json) | SDeleted (v : json).
Inductive smsg :=
| SWelcome (version : str) (protos : list (N * N)) (proto_str : str) (auth_required : bool) (client_id : str)
| SPState (tid : N) (pat : str) (ev : pevent)
| SAck (tid : N)
| SState (tid : N) (ev : sevent)
| SCState (tid : N) (v : json) (ver : N)
| SErr (tid : N) (code : N) (meta : str)
| SAuthorized (tid : N)
| SLsState (tid : N) (children : list str).

Definition enc_kvp (kv : str * json) : json := JObj [(n_key, JStr (fst kv)); (n_value, snd kv)].
Definition dec_kvp' (j : json) : option (str * json) :=
  fs <- as_fields [n_key; n_value] j ;; k <- get_str fs n_key ;; v <- get_val fs n_value ;; Some (k, v).
Fixpoint map_opt {A B} (f : A -> option B) (l : list A) : option (list B) :=
  match l with
  | [] => Some []
  | x :: l' => y <- f x ;; r <- map_opt f l' ;; Some (y :: r)
  end.
Definition as_list {A} (f : json -> option A) (j : json) : option (list A) :=
  match j with JArr l => map_opt f l | _ => None end.
Definition enc_proto (p : N * N) : json := JArr [jnum (fst p); jnum (snd p)].
Definition as_u32 (j : json) : option N :=
  match as_u64 j with Some n => if N.leb n u32_max then Some n else None | None => None end.
Definition dec_proto (j : json) : option (N * N) :=
  match j with JArr [a; b] => x <- as_u32 a ;; y <- as_u32 b ;; Some (x, y) | _ => None end.

Definition valid_code (c : N) : bool := N.leb c 25 || N.eqb c 255.

Definition enc_smsg (m : smsg) : json :=
  match m with
  | SWelcome v ps pstr ar cid =>
      tagged n_welcome [(n_info, JObj [(n_version, JStr v); (n_supportedProtocolVersions, JArr (map enc_proto ps));
                                        (n_protocolVersion, JStr pstr); (n_authorizationRequired, JBool ar)]);
                        (n_clientId, JStr cid)]
  | SPState t p ev =>
      tagged n_pState [f_tid t; (n_requestPattern, JStr p);
                       match ev with
                       | PKvs l => (n_keyValuePairs, JArr (map enc_kvp l))
                       | PDel l => (n_deleted, JArr (map enc_kvp l))
                       end]
  | SAck t => tagged n_ack [f_tid t]
  | SState t ev => tagged n_state [f_tid t; match ev with SValue v => (n_value, v) | SDeleted v => (n_deleted, v) end]
  | SCState t v ver => tagged n_cState [f_tid t; (n_value, v); (n_version, jnum ver)]
  | SErr t c meta => tagged n_err [f_tid t; (n_errorCode, jnum c); (n_metadata, JStr meta)]
  | SAuthorized t => tagged n_authorized [f_tid t]
  | SLsState t ch => tagged n_lsState [f_tid t; (n_children, JArr (map JStr ch))]
  end.

(* #[serde(flatten)] on an externally tagged enum: the first remaining entry naming a variant *)
Fixpoint first_variant (skip : list str) (variants : list str) (fs : list (str * json)) : option (str * json) :=
  match fs with
  | [] => None
  | (k, v) :: fs' =>
      if existsb (str_eqb k) skip then first_variant skip variants fs'
      else if existsb (str_eqb k) variants then Some (k, v)
      else first_variant skip variants fs'
  end.

Definition obj_fields (j : json) : option (list (str * json)) :=
  match j with JObj fs => Some fs | _ => None end.

Definition dec_smsg (j : json) : option smsg :=
  match j with
  | JObj [(name, p)] =>
      if str_eqb name n_welcome then
        fs <- as_fields [n_info; n_clientId] p ;;
        info <- get_val fs n_info ;; cid <- get_str fs n_clientId ;;
        ifs <- as_fields [n_version; n_supportedProtocolVersions; n_protocolVersion; n_authorizationRequired] info ;;
        v <- get_str ifs n_version ;; psj <- get_val ifs n_supportedProtocolVersions ;; ps <- as_list dec_proto psj ;;
        pstr <- get_str ifs n_protocolVersion ;; ar <- get_bool ifs n_authorizationRequired ;;
        Some (SWelcome v ps pstr ar cid)
      else if str_eqb name n_pState then
        fs <- obj_fields p ;;
        t <- get_u64 fs n_transactionId ;; pat <- get_str fs n_requestPattern ;;
        ev <- first_variant [n_transactionId; n_requestPattern] [n_keyValuePairs; n_deleted] fs ;;
        l <- as_list dec_kvp' (snd ev) ;;
        Some (SPState t pat (if str_eqb (fst ev) n_keyValuePairs then PKvs l else PDel l))
      else if str_eqb name n_ack then
        fs <- as_fields [n_transactionId] p ;; t <- get_u64 fs n_transactionId ;; Some (SAck t)
      else if str_eqb name n_state then
        fs <- obj_fields p ;;
        t <- get_u64 fs n_transactionId ;;
        ev <- first_variant [n_transactionId] [n_value; n_deleted] fs ;;
        Some (SState t (if str_eqb (fst ev) n_value then SValue (snd ev) else SDeleted (snd ev)))
      else if str_eqb name n_cState then
        fs <- obj_fields p ;;
        t <- get_u64 fs n_transactionId ;; v <- get_val fs n_value ;; ver <- get_u64 fs n_version ;;
        Some (SCState t v ver)
      else if str_eqb name n_err then
        fs <- as_fields [n_transactionId; n_errorCode; n_metadata] p ;;
        t <- get_u64 fs n_transactionId ;; c <- get_u64 fs n_errorCode ;; meta <- get_str fs n_metadata ;;
        if valid_code c then Some (SErr t c meta) else None
      else if str_eqb name n_authorized then
        fs <- as_fields [n_transactionId] p ;; t <- get_u64 fs n_transactionId ;; Some (SAuthorized t)
      else if str_eqb name n_lsState then
        fs <- as_fields [n_transactionId; n_children] p ;;
        t <- get_u64 fs n_transactionId ;; cj <- get_val fs n_children ;; ch <- as_list as_str cj ;;
        Some (SLsState t ch)
      else None
  | _ => None
  end.

(* ---- cluster sync messages ---- *)
Inductive wcmd :=
| WSet (k : str) (v : json) (f : bool)
| WCSet (k : str) (v : json) (ver : N) (f : bool)
| WDelete (k : str)
| WPDelete (p : str).
Inductive syncmsg :=
| YInit (n : node entry) (gg : list str) (lw : list (str * json))
| YMut (c : wcmd).

Definition enc_wcmd (c : wcmd) : json :=
  match c with
  | WSet k v f => JObj [(n_set, JArr [JStr k; v; JBool f])]
  | WCSet k v ver f => JObj [(n_cSet, JArr [JStr k; v; jnum ver; JBool f])]
  | WDelete k => JObj [(n_delete, JStr k)]
  | WPDelete p => JObj [(n_pDelete, JStr p)]
  end.
Definition dec_wcmd (j : json) : option wcmd :=
  match j with
  | JObj [(name, p)] =>
      if str_eqb name n_set then
        match p with JArr [JStr k; v; JBool f] => Some (WSet k v f) | _ => None end
      else if str_eqb name n_cSet then
        match p with
        | JArr [JStr k; v; JNum l; JBool f] => ver <- u64_of_lit l ;; Some (WCSet k v ver f)
        | _ => None
        end
      else if str_eqb name n_delete then match p with JStr k => Some (WDelete k) | _ => None end
      else if str_eqb name n_pDelete then match p with JStr k => Some (WPDelete k) | _ => None end
      else None
  | _ => None
  end.

Definition enc_sync (m : syncmsg) : json :=
  match m with
  | YInit n gg lw => JObj [(n_init, JArr [enc_node n; JArr (map JStr gg); JArr (map enc_kvp lw)])]
  | YMut c => JObj [(n_mut, enc_wcmd c)]
  end.
Definition dec_sync (j : json) : option syncmsg :=
  match j with
  | JObj [(name, p)] =>
      if str_eqb name n_init then
        match p with
        | JArr [nj; ggj; lwj] =>
            n <- dec_node nj ;; gg <- as_list as_str ggj ;; lw <- as_list dec_kvp' lwj ;; Some (YInit n gg lw)
        | _ => None
        end
      else if str_eqb name n_mut then c <- dec_wcmd p ;; Some (YMut c)
      else None
  | _ => None
  end.
