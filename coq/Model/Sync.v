(* worterbuch/src/leader_follower: leader.rs (try_forward_api_call, try_forward_grave_goods_change,
   try_forward_last_will_change, try_forward_follower_connected), lib.rs forward_api_call / forward_to_followers,
   follower.rs (initial_sync, process_leader_message, process_api_call) -- with the repairs of F10a (the effects of a
   session end are mirrored) and F11 (a joining follower also receives the registrations made before it joined).

   The leader is a core plus one FIFO per follower; a follower is a core that applies what its FIFO delivers as the
   internal client.  TCP is one ordered reliable stream per follower: modelled as the list itself. *)
From WB Require Import Base.Str Base.Json Model.Key Model.Consts Model.Store Model.Entry Model.Core Model.Codec Model.Persist.

(* forward_api_call with filter_sys = true: which client requests are mirrored, before they are applied and whatever
   their outcome; the $SYS filter looks at the raw string *)
Definition mirror (o : op) : list wcmd :=
  match o with
  | OSet _ k v _ => if starts_with s_SYS_prefix k then [] else [WSet k v false]
  | OCSet _ k v n _ => if starts_with s_SYS_prefix k then [] else [WCSet k v n false]
  | ODelete _ k => if starts_with s_SYS_prefix k then [] else [WDelete k]
  | OPDelete _ p => if starts_with s_SYS_prefix p then [] else [WPDelete p]
  | _ => []
  end.

(* the two internal unique psubscriptions on $SYS/clients/?/graveGoods and $SYS/clients/?/lastWill: every change of a
   registration key is forwarded as a set, every removal as a delete *)
Definition registrations (s : core) : list (list str * entry) :=
  collect (data s) [] (sys_clients_pat s_graveGoods) ++ collect (data s) [] (sys_clients_pat s_lastWill).

Definition reg_get (p : list str) (l : list (list str * entry)) : option entry :=
  match find (fun m => path_eqb (fst m) p) l with Some m => Some (snd m) | None => None end.

Definition reg_changes (before after : core) : list wcmd :=
  let b := registrations before in
  let a := registrations after in
  flat_map (fun m => match reg_get (fst m) b with
                     | Some e => if json_eqb (entry_val e) (entry_val (snd m)) then [] else [WSet (key_of (fst m)) (entry_val (snd m)) false]
                     | None => [WSet (key_of (fst m)) (entry_val (snd m)) false]
                     end) a ++
  flat_map (fun m => match reg_get (fst m) a with Some _ => [] | None => [WDelete (key_of (fst m))] end) b.

(* the effects of a session end on user keys, as the leader mirrors them (repair of F10a): the client's grave goods
   as pdeletes, its last will as forced sets; patterns and keys under $SYS/ are left out like everywhere else *)
Definition session_end_mirror (s : core) (c : cid) : list wcmd :=
  let gg := match do_get s (topic [s_SYS; s_clients; client_str c; s_graveGoods]) with
            | RValue v => match dec_grave_goods v with Some l => l | None => [] end | _ => [] end in
  let lw := match do_get s (topic [s_SYS; s_clients; client_str c; s_lastWill]) with
            | RValue v => match dec_last_will v with Some l => l | None => [] end | _ => [] end in
  flat_map (fun g => if starts_with s_SYS_prefix g then [] else [WPDelete g]) gg ++
  flat_map (fun kv => if starts_with s_SYS_prefix (fst kv) then [] else [WSet (fst kv) (snd kv) true]) lw.

(* try_forward_api_call, Import: applied first, then every changed entry is forwarded as a forced write
   (a CAS entry as a forced cset with the imported version: the follower ends one version ahead, or at 1 -- F10b) *)
Definition import_mirror (r : result) : list wcmd :=
  match r with
  | RImported l =>
      flat_map (fun x : str * entry * bool =>
                  if snd x then match snd (fst x) with
                                | Cas v n => [WCSet (fst (fst x)) v n true]
                                | Plain v => [WSet (fst (fst x)) v true]
                                end
                  else []) l
  | _ => []
  end.

(* one request on the leader: what every follower is sent, in channel order, and the leader's new state and answer *)
Definition lstep (l : core) (o : op) : core * output * list wcmd :=
  let early := match o with ODisconnected c => session_end_mirror l c | _ => mirror o end in
  let r := step l o in
  (* the registration changes travel through the internal subscriptions and are forwarded in a later turn of the loop *)
  (fst r, snd r, early ++ (match o with OImport _ => import_mirror (o_res (snd r)) | _ => [] end) ++ reg_changes l (fst r)).

(* process_leader_message: applied as the internal client; errors are logged and ignored *)
Definition op_of_wcmd (w : wcmd) : op :=
  match w with
  | WSet k v f => OSet 0 k v f
  | WCSet k v n f => OCSet 0 k v n f
  | WDelete k => ODelete 0 k
  | WPDelete p => OPDelete 0 p
  end.
Definition fapply (f : core) (w : wcmd) : core := fst (step f (op_of_wcmd w)).
Definition fdrain (f : core) (ws : list wcmd) : core := fold_left fapply ws f.

(* try_forward_follower_connected + initial_sync: the follower's store becomes the leader's export (without $SYS);
   the registrations of the clients connected at that moment follow on the same channel (repair of F11) *)
Definition fjoin (l : core) : core * list wcmd :=
  (core_of (strip_sys s_SYS (data l)),
   map (fun m => WSet (key_of (fst m)) (entry_val (snd m)) false) (registrations l)).

(* follower.rs process_api_call: every request that would change data is refused *)
Definition E_NotLeader : N := 16.
Definition follower_refuses (o : op) : bool :=
  match o with
  | OSet _ _ _ _ | OCSet _ _ _ _ _ | ODelete _ _ | OPDelete _ _ | OPublish _ _ | OSPubInit _ _ _ | OSPub _ _ _
  | OImport _ | OLock _ _ | OAcquire _ _ | ORelease _ _ => true
  | _ => false
  end.
Definition fstep_api (f : core) (o : op) : core * output :=
  if follower_refuses o then (f, out_res (RErr E_NotLeader)) else step f o.

(* a whole cluster: the leader and its followers with their channels *)
Record cluster := Cluster { c_leader : core; c_followers : list (core * list wcmd) }.

Definition cl_request (cl : cluster) (o : op) : cluster * output :=
  let '(l', out, ws) := lstep (c_leader cl) o in
  (Cluster l' (map (fun fq => (fst fq, snd fq ++ ws)) (c_followers cl)), out).
Definition cl_join (cl : cluster) : cluster :=
  let '(f, ws) := fjoin (c_leader cl) in
  Cluster (c_leader cl) (c_followers cl ++ [(f, ws)]).
Definition cl_drain (cl : cluster) : cluster :=
  Cluster (c_leader cl) (map (fun fq => (fdrain (fst fq) (snd fq), [])) (c_followers cl)).

(* what is compared: user keys (first segment is not $SYS) with values and versions, and the registrations *)
Definition is_user (p : list str) : bool := match p with p0 :: _ => negb (str_eqb p0 s_SYS) | [] => false end.
Definition user_entries (s : core) : list (list str * entry) :=
  filter (fun m => is_user (fst m)) (collect (data s) [] [Multi]).

(* C12: the follower is stopped the way the orchestrator stops it (SIGTERM: shutdown applies all grave goods and last
   wills it knows, then flushes) and started again as leader on its own data directory (restore loads the snapshot and
   applies the persisted grave goods and last wills before serving) *)
Definition promote (f : core) : core :=
  let f1 := apply_gglw f (all_grave_goods f) (all_last_wills f) in
  fst (restart (fst (flush None f1 []))).
