(* worterbuch/src/persistence/json/{v3,v2,v1,mod}.rs as a machine over a directory.
   A file holds a JSON value (the text layer print/parse is abstracted: see C14 and the
   correspondence), a half-written JSON value, the checksum of a JSON value, a half-written
   checksum, or nothing.  Crash points are the hook's (before-tmp, tmp-torn, tmp-written,
   renamed per file; flipped). *)
From WB Require Import Base.Str Base.Json Model.Key Model.Consts Model.Store Model.Subs Model.Entry Model.Core
  Model.CodecConsts Model.Codec Model.PersistConsts.

Inductive fval :=
| FJson (j : json)       (* complete file with the text of j *)
| FTorn (j : json)       (* first half of the text of j *)
| FSum (j : json)        (* sha256 of the text of j *)
| FSumTorn               (* first half of a checksum *)
| FEmpty                 (* empty file (.toggle, last-persisted) *)
| FRaw (b : str).        (* anything else (planted by a test): not valid JSON *)

Definition fs := list (str * fval).

Fixpoint fs_get (name : str) (d : fs) : option fval :=
  match d with [] => None | (n, v) :: d' => if str_eqb name n then Some v else fs_get name d' end.
Definition fs_del (name : str) (d : fs) : fs := filter (fun nv => negb (str_eqb name (fst nv))) d.
Definition fs_put (name : str) (v : fval) (d : fs) : fs := (name, v) :: fs_del name d.
Definition fs_has (name : str) (d : fs) : bool := match fs_get name d with Some _ => true | None => false end.

Definition torn (v : fval) : fval :=
  match v with FJson j => FTorn j | FSum _ => FSumTorn | x => x end.

(* write_to_disk (v3.rs:127-146) with its crash points; k = index of the first crash point of this
   file; returns the directory and whether the process died *)
Definition write_to_disk (k : N) (crash : option N) (name : str) (v : fval) (d : fs) : fs * bool :=
  let tmp := name ++ sfx_tmp in
  let hit i := match crash with Some c => N.eqb c i | None => false end in
  if hit k then (d, true) else
  if hit (k + 1) then (fs_put tmp (torn v) d, true) else
  let d1 := fs_put tmp v d in
  if hit (k + 2) then (d1, true) else
  let d2 := fs_put name v (fs_del tmp d1) in
  if hit (k + 3) then (d2, true) else (d2, false).

(* write_and_check (112-125) *)
Definition write_and_check (k : N) (crash : option N) (name : str) (j : json) (d : fs) : fs * bool :=
  let r := write_to_disk k crash name (FJson j) d in
  if snd r then r else write_to_disk (k + 4) crash (name ++ sfx_sum) (FSum j) (fst r).

Definition slot_store (main : bool) : str := if main then f_store_a else f_store_b.
Definition slot_gglw (main : bool) : str := if main then f_gglw_a else f_gglw_b.

(* flip_toggle *)
Definition flip (d : fs) : fs := if fs_has f_toggle d then fs_del f_toggle d else fs_put f_toggle FEmpty d.

Definition enc_gglw (gg : list str) (lw : list (str * json)) : json :=
  JObj [(n_grave_goods, JArr (map JStr gg)); (n_last_will, JArr (map enc_kvp lw))].
Definition dec_gglw (j : json) : option (list str * list (str * json)) :=
  match j with
  | JObj fs =>
      match assoc n_grave_goods fs, assoc n_last_will fs with
      | Some g, Some l =>
          match as_list as_str g, as_list dec_kvp' l with
          | Some gg, Some lw => Some (gg, lw)
          | _, _ => None
          end
      | _, _ => None
      end
  | _ => None
  end.

(* Worterbuch::grave_goods / last_wills (1411-1457): the registrations of all connected clients *)
Definition sys_clients_pat (leaf : str) : list kseg := [Reg s_SYS; Reg s_clients; Wild; Reg leaf].
Definition all_grave_goods (s : core) : list str :=
  flat_map (fun m => match dec_grave_goods (entry_val (snd m)) with Some l => l | None => [] end)
           (collect (data s) [] (sys_clients_pat s_graveGoods)).
Definition all_last_wills (s : core) : list (str * json) :=
  flat_map (fun m => match dec_last_will (entry_val (snd m)) with Some l => l | None => [] end)
           (collect (data s) [] (sys_clients_pat s_lastWill)).

(* what a flush captures: Store::export strips $SYS.  Node::strip removes the $SYS child from the root's map and
   leaves the map in place: a root that held nothing but $SYS is written as {"t":{}}, not as {} *)
Definition enc_export (d : node entry) : json :=
  let n := strip_sys s_SYS d in
  match nkids n, nkids d, nval n with
  | [], _ :: _, None => JObj [(s_data, JObj [(s_t, JObj [])])]
  | _, _, _ => enc_persisted n
  end.
Definition snapshot (s : core) : json * json :=
  (enc_export (data s), enc_gglw (all_grave_goods s) (all_last_wills s)).

(* synchronous / asynchronous (v3.rs:46-110, after the fix): write the inactive slot, flip last *)
Definition flush (crash : option N) (s : core) (d : fs) : fs * bool :=
  let main := negb (fs_has f_toggle d) in
  let snap := snapshot s in
  let r1 := write_and_check 0 crash (slot_store main) (fst snap) d in
  if snd r1 then r1 else
  let r2 := write_and_check 8 crash (slot_gglw main) (snd snap) (fst r1) in
  if snd r2 then r2 else
  let d3 := flip (fst r2) in
  if (match crash with Some c => N.eqb c 16 | None => false end) then (d3, true)
  else (fs_put f_last FEmpty d3, false).

(* read_json_from_file + validate_checksum *)
Definition read_checked (name : str) (d : fs) : option json :=
  match fs_get name d, fs_get (name ++ sfx_sum) d with
  | Some (FJson j), Some (FSum j') => if json_eqb j j' then Some j else None
  | _, _ => None
  end.

(* Store::nprune: nodes without value and children do not survive loading *)
Fixpoint prune (n : node entry) : node entry :=
  match n with
  | Node v cs =>
      Node v (trim_kids ((fix go (cs : list (str * node entry)) : list (str * node entry) :=
                            match cs with
                            | [] => []
                            | (k, c) :: cs' => (k, prune c) :: go cs'
                            end) cs))
  end.

Definition core_of (n : node entry) : core := let p := prune n in set_data init p (count_values p).

(* apply_grave_goods / apply_last_wills (1459-1473): as internal client, errors ignored *)
Definition apply_gglw (s : core) (gg : list str) (lw : list (str * json)) : core :=
  let s1 := fst (iter_ops (fun s g => do_pdelete s 0 false g) gg s) in
  fst (iter_ops (fun s kv => do_insert s 0 (fst kv) (Plain (snd kv)) true) lw s1).

(* v3::load (after the fix): both files from one slot; the other slot only as a whole *)
Definition load_v3 (d : fs) : option (core * fs) :=
  let main := fs_has f_toggle d in
  match bind (read_checked (slot_store main) d) dec_persisted with
  | Some n =>
      let s := core_of n in
      match bind (read_checked (slot_gglw main) d) dec_gglw with
      | Some (gg, lw) => Some (apply_gglw s gg lw, d)
      | None => Some (s, d)
      end
  | None =>
      match bind (read_checked (slot_store (negb main)) d) dec_persisted with
      | Some n =>
          match bind (read_checked (slot_gglw (negb main)) d) dec_gglw with
          | Some (gg, lw) => Some (apply_gglw (core_of n) gg lw, flip d)
          | None => None
          end
      | None => None
      end
  end.

(* v2::load (v2.rs): no checksums; the fallback reads the other slot; the selector is not modified *)
Definition read_plain (name : str) (d : fs) : option json :=
  match fs_get name d with Some (FJson j) => Some j | _ => None end.
Definition v2_store (main : bool) : str := if main then f2_store_a else f2_store_b.
Definition v2_gglw (main : bool) : str := if main then f2_gglw_a else f2_gglw_b.

Definition load_v2 (d : fs) : option core :=
  let main := fs_has f_toggle d in
  let r := match bind (read_plain (v2_store main) d) dec_persisted with
           | Some n => Some n
           | None => bind (read_plain (v2_store (negb main)) d) dec_persisted
           end in
  match r with
  | None => None
  | Some n =>
      let s := core_of n in
      match bind (read_plain (v2_gglw main) d) dec_gglw with
      | Some (gg, lw) => Some (apply_gglw s gg lw)
      | None =>
          match bind (read_plain (v2_gglw (negb main)) d) dec_gglw with
          | Some (gg, lw) => Some (apply_gglw s gg lw)
          | None => Some s
          end
      end
  end.

(* v1::load: .store.json + .store.sha, backup with a trailing ~; no file at all = empty instance *)
Definition read_v1 (jn sn : str) (d : fs) : option json :=
  match fs_get jn d, fs_get sn d with
  | Some (FJson j), Some (FSum j') => if json_eqb j j' then Some j else None
  | _, _ => None
  end.
Definition load_v1 (d : fs) : option core :=
  if negb (fs_has f1_json d) && negb (fs_has f1_json_t d) then Some init
  else match bind (read_v1 f1_json f1_sha d) dec_persisted with
       | Some n => Some (core_of n)
       | None => match bind (read_v1 f1_json_t f1_sha_t d) dec_persisted with
                 | Some n => Some (core_of n)
                 | None => None
                 end
       end.

(* json::load (mod.rs:68-86): v3, then v2, then v1 *)
Definition load (d : fs) : option core * fs :=
  match load_v3 d with
  | Some (s, d') => (Some s, d')
  | None =>
      match load_v2 d with
      | Some s => (Some s, d)
      | None => (load_v1 d, d)
      end
  end.

(* the persistent machine: a server process with its directory *)
Inductive pevent :=
| PReq (o : op)                     (* a client request to the running server *)
| PFlush                            (* a flush that completes *)
| PCrashInFlush (k : N)             (* the process dies at crash point k of a flush, and is restarted *)
| PKillRestart.                     (* the process dies outside a flush, and is restarted *)

Definition restart (d : fs) : core * fs :=
  match load d with (Some s, d') => (s, d') | (None, d') => (init, d') end.

Definition pstep (st : core * fs) (e : pevent) : core * fs :=
  let '(s, d) := st in
  match e with
  | PReq o => (fst (step s o), d)
  | PFlush => (s, fst (flush None s d))
  | PCrashInFlush k => restart (fst (flush (Some k) s d))
  | PKillRestart => restart d
  end.

Definition prun (evs : list pevent) : core * fs := fold_left pstep evs (init, []).
