From WB Require Import Base.Str.

Lemma str_eqb_spec a b : reflect (a = b) (str_eqb a b).
Proof.
  revert b; induction a as [|x a IH]; intros [|y b]; cbn; try (constructor; congruence).
  destruct (N.eqb_spec x y) as [->|Hn]; cbn.
  - destruct (IH b) as [->|Hn]; constructor; congruence.
  - constructor; congruence.
Qed.

Lemma str_eqb_refl a : str_eqb a a = true.
Proof. destruct (str_eqb_spec a a); congruence. Qed.

Lemma str_eqb_eq a b : str_eqb a b = true <-> a = b.
Proof. destruct (str_eqb_spec a b); split; congruence. Qed.

Lemma str_eqb_neq a b : str_eqb a b = false <-> a <> b.
Proof. destruct (str_eqb_spec a b); split; congruence. Qed.

Lemma str_eqb_sym a b : str_eqb a b = str_eqb b a.
Proof. destruct (str_eqb_spec a b), (str_eqb_spec b a); congruence. Qed.

Lemma path_eqb_spec a b : reflect (a = b) (path_eqb a b).
Proof.
  revert b; induction a as [|x a IH]; intros [|y b]; cbn; try (constructor; congruence).
  destruct (str_eqb_spec x y) as [->|Hn]; cbn.
  - destruct (IH b) as [->|Hn]; constructor; congruence.
  - constructor; congruence.
Qed.

Lemma path_eqb_refl a : path_eqb a a = true.
Proof. destruct (path_eqb_spec a a); congruence. Qed.

(* split / join *)

Lemma split_aux_nonempty sep s cur : split_aux sep s cur <> [].
Proof.
  revert cur; induction s as [|c s IH]; intros cur; cbn; try congruence.
  destruct (N.eqb c sep); [congruence | apply IH].
Qed.

Lemma split_aux_join sep s cur :
  join sep (split_aux sep s cur) = rev cur ++ s.
Proof.
  revert cur; induction s as [|c s IH]; intros cur; cbn.
  - now rewrite app_nil_r.
  - destruct (N.eqb_spec c sep) as [->|Hn].
    + specialize (IH []). cbn in IH.
      destruct (split_aux sep s []) eqn:E.
      * exfalso. now apply (split_aux_nonempty sep s []).
      * cbn. cbn in IH. rewrite IH. reflexivity.
    + rewrite IH. cbn. now rewrite <- app_assoc.
Qed.

Lemma join_split sep s : join sep (split sep s) = s.
Proof. unfold split. now rewrite split_aux_join. Qed.

Definition no_sep (sep : N) (x : str) : Prop := ~ In sep x.

Lemma split_aux_app_nosep sep x s cur :
  no_sep sep x -> split_aux sep (x ++ s) cur = split_aux sep s (rev x ++ cur).
Proof.
  revert cur; induction x as [|c x IH]; intros cur Hx; cbn; [reflexivity|].
  destruct (N.eqb_spec c sep) as [->|Hn].
  - exfalso; apply Hx; now left.
  - rewrite IH.
    + now rewrite <- app_assoc.
    + intros H; apply Hx; now right.
Qed.

Lemma split_join sep l :
  l <> [] -> Forall (no_sep sep) l -> split sep (join sep l) = l.
Proof.
  unfold split.
  induction l as [|x l IH]; intros Hne Hall; [congruence|].
  inversion Hall as [|? ? Hx Hl]; subst.
  destruct l as [|y l].
  - cbn. rewrite <- (app_nil_r x) at 1. rewrite split_aux_app_nosep by assumption.
    cbn. now rewrite app_nil_r, rev_involutive.
  - change (join sep (x :: y :: l)) with (x ++ sep :: join sep (y :: l)).
    rewrite split_aux_app_nosep by assumption.
    cbn [split_aux]. rewrite N.eqb_refl. rewrite app_nil_r, rev_involutive.
    f_equal. apply IH; [congruence | assumption].
Qed.

Lemma split_aux_nosep sep s cur :
  Forall (no_sep sep) (tl (split_aux sep s cur)).
Proof.
  revert cur; induction s as [|c s IH]; intros cur; cbn; [constructor|].
  destruct (N.eqb_spec c sep) as [->|Hn]; [|apply IH].
  cbn. clear cur.
  (* every piece of split_aux sep s [] has no sep *)
  assert (G : forall s cur, no_sep sep cur -> Forall (no_sep sep) (split_aux sep s cur)).
  { clear. induction s as [|c s IH]; intros cur Hc; cbn.
    - constructor; [|constructor]. intros H; apply Hc. now apply in_rev.
    - destruct (N.eqb_spec c sep) as [->|Hn].
      + constructor; [intros H; apply Hc; now apply in_rev|].
        apply IH. intros [].
      + apply IH. intros [H|H]; [congruence | now apply Hc]. }
  apply G. intros [].
Qed.

Lemma split_nosep sep s : Forall (no_sep sep) (split sep s).
Proof.
  unfold split.
  assert (G : forall s cur, no_sep sep cur -> Forall (no_sep sep) (split_aux sep s cur)).
  { clear. induction s as [|c s IH]; intros cur Hc; cbn.
    - constructor; [|constructor]. intros H; apply Hc. now apply in_rev.
    - destruct (N.eqb_spec c sep) as [->|Hn].
      + constructor; [intros H; apply Hc; now apply in_rev|].
        apply IH. intros [].
      + apply IH. intros [H|H]; [congruence | now apply Hc]. }
  apply G. intros [].
Qed.

Lemma split_nonempty sep s : split sep s <> [].
Proof. apply split_aux_nonempty. Qed.
