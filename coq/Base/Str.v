(* Byte strings, split/join on a separator.  Stdlib only. *)
From Coq Require Export List NArith Bool Lia.
Export ListNotations.
Open Scope N_scope.

Definition str := list N.

Fixpoint str_eqb (a b : str) : bool :=
  match a, b with
  | [], [] => true
  | x :: a', y :: b' => N.eqb x y && str_eqb a' b'
  | _, _ => false
  end.

Fixpoint path_eqb (a b : list str) : bool :=
  match a, b with
  | [], [] => true
  | x :: a', y :: b' => str_eqb x y && path_eqb a' b'
  | _, _ => false
  end.

(* Rust: str::split(sep) -- always at least one piece *)
Fixpoint split_aux (sep : N) (s : str) (cur : str) : list str :=
  match s with
  | [] => [rev cur]
  | c :: s' => if N.eqb c sep then rev cur :: split_aux sep s' []
               else split_aux sep s' (c :: cur)
  end.
Definition split (sep : N) (s : str) : list str := split_aux sep s [].

(* Rust: [..].join(sep) *)
Fixpoint join (sep : N) (l : list str) : str :=
  match l with
  | [] => []
  | [x] => x
  | x :: l' => x ++ sep :: join sep l'
  end.

Fixpoint starts_with (p s : str) : bool :=
  match p, s with
  | [], _ => true
  | x :: p', y :: s' => N.eqb x y && starts_with p' s'
  | _ :: _, [] => false
  end.

Definition slash : N := 47.
Definition ch_hash : N := 35.
Definition ch_qmark : N := 63.

(* decimal printing of N, fuel-free via positive structure is awkward; use fuel = bits *)
Fixpoint dec_digits (fuel : nat) (n : N) (acc : str) : str :=
  match fuel with
  | O => acc
  | S f => let d := N.modulo n 10 in
           let q := N.div n 10 in
           if N.eqb q 0 then (48 + d) :: acc else dec_digits f q ((48 + d) :: acc)
  end.
Definition dec_of_N (n : N) : str := dec_digits (S (N.to_nat (N.log2 n))) n [].
