(* JSON values as serde_json::Value sees them (object keys sorted: the workspace
   builds serde_json without preserve_order).  A number is its canonical
   serde_json literal. *)
From WB Require Import Base.Str.

Inductive json :=
| JNull
| JBool (b : bool)
| JNum (lit : str)
| JStr (s : str)
| JArr (l : list json)
| JObj (l : list (str * json)).

Fixpoint json_eqb (a b : json) {struct a} : bool :=
  match a, b with
  | JNull, JNull => true
  | JBool x, JBool y => Bool.eqb x y
  | JNum x, JNum y => str_eqb x y
  | JStr x, JStr y => str_eqb x y
  | JArr x, JArr y =>
      (fix go (x y : list json) {struct x} : bool :=
         match x, y with
         | [], [] => true
         | a :: x', b :: y' => json_eqb a b && go x' y'
         | _, _ => false
         end) x y
  | JObj x, JObj y =>
      (fix go (x y : list (str * json)) {struct x} : bool :=
         match x, y with
         | [], [] => true
         | (k, a) :: x', (k', b) :: y' => str_eqb k k' && json_eqb a b && go x' y'
         | _, _ => false
         end) x y
  | _, _ => false
  end.

(* custom induction principle *)
Section json_ind'.
  Variable P : json -> Prop.
  Hypothesis Hnull : P JNull.
  Hypothesis Hbool : forall b, P (JBool b).
  Hypothesis Hnum : forall l, P (JNum l).
  Hypothesis Hstr : forall s, P (JStr s).
  Hypothesis Harr : forall l, Forall P l -> P (JArr l).
  Hypothesis Hobj : forall l, Forall (fun kv => P (snd kv)) l -> P (JObj l).

  Fixpoint json_ind' (j : json) : P j :=
    match j with
    | JNull => Hnull
    | JBool b => Hbool b
    | JNum l => Hnum l
    | JStr s => Hstr s
    | JArr l => Harr l ((fix go (l : list json) : Forall P l :=
                           match l with
                           | [] => Forall_nil _
                           | x :: l' => Forall_cons _ (json_ind' x) (go l')
                           end) l)
    | JObj l => Hobj l ((fix go (l : list (str * json)) : Forall (fun kv => P (snd kv)) l :=
                           match l with
                           | [] => Forall_nil _
                           | (k, x) :: l' => Forall_cons (k, x) (json_ind' x) (go l')
                           end) l)
    end.
End json_ind'.
