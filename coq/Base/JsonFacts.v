From WB Require Import Base.Str Base.StrFacts Base.Json.

Lemma json_eqb_eq a : forall b, json_eqb a b = true <-> a = b.
Proof.
  induction a as [| x | x | x | l IH | l IH] using json_ind'; intros [| y | y | y | m | m];
    cbn [json_eqb]; try (split; congruence).
  - destruct (Bool.eqb_spec x y); split; congruence.
  - destruct (str_eqb_spec x y); split; congruence.
  - destruct (str_eqb_spec x y); split; congruence.
  - revert m. induction IH as [|a l Ha Hl IHl]; intros [|b m]; try (split; congruence).
    rewrite andb_true_iff, Ha, IHl. split; [intros [-> E]; congruence|intros E; split; congruence].
  - revert m. induction IH as [|[k a] l Ha Hl IHl]; intros [|[k' b] m]; try (split; congruence).
    cbn [snd] in Ha.
    rewrite !andb_true_iff, Ha, IHl, str_eqb_eq. split; [intros [[-> ->] E]; congruence|intros E; repeat split; congruence].
Qed.

Lemma json_eqb_refl a : json_eqb a a = true.
Proof. now apply json_eqb_eq. Qed.

Lemma json_eqb_neq a b : json_eqb a b = false <-> a <> b.
Proof.
  destruct (json_eqb a b) eqn:E.
  - apply json_eqb_eq in E. split; congruence.
  - split; [|reflexivity]. intros _ H. apply json_eqb_eq in H. congruence.
Qed.
