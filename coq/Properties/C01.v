(* C01 -- Reads return exactly what the accepted writes imply.
   Statements only; proofs in Proofs/.  Specification: Spec/MapSpec.v. *)
From WB Require Import Base.Str Base.Json Model.Key Model.Store Model.Match Model.Entry Model.Core
  Spec.MapSpec Proofs.StoreFacts Proofs.TreeInv Proofs.CoreFacts Proofs.LenFacts Proofs.C01Proof.

(* one request: the invariants (tree shape; cached entry count = number of values) are kept, the map
   changes as the specification says for the answer given, and the answer of a read -- get, cget, pget,
   ls, pls and the entry count -- is the one the specification prescribes *)
Theorem C01_step_refines :
  forall s o, Inv s -> LenInv s -> c01_op o -> import_ok o ->
    o_res (snd (step s o)) <> RCrash ->
    Inv (fst (step s o)) /\ LenInv (fst (step s o)) /\
    write_effect (abs s) (abs (fst (step s o))) o (o_res (snd (step s o))) /\
    read_ok (abs s) o (o_res (snd (step s o))).
Proof. exact step_refines. Qed.
Print Assumptions C01_step_refines.

(* every finite history of get/cget/pget/ls/pls/len/set/cset/delete/pdelete/import requests,
   from any clients, starting from the empty store *)
Theorem C01_run_refines :
  forall ops, Forall c01_op ops -> Forall import_ok ops -> no_crash (run init ops) ->
    spec_trace (abs init) ops (run init ops).
Proof. exact run_refines_init. Qed.
Print Assumptions C01_run_refines.

(* the same with the other request kinds in between: publishes, publish streams, subscriptions of both kinds,
   locks and dumps change nothing a read can see *)
Theorem C01_run_refines_any :
  forall ops, Forall any_req ops -> Forall import_ok ops -> no_crash (run init ops) ->
    spec_trace (abs init) ops (run init ops).
Proof. intros ops H1 H2 H3. exact (run_refines_any ops init Inv_init eq_refl H1 H2 H3). Qed.
Print Assumptions C01_run_refines_any.

(* the cached entry count is the number of stored values after ANY history of requests of any kind
   (sessions, subscriptions and locks included), and that is the number of keys holding a value *)
Theorem C01_len_is_count :
  forall ops, len (final init ops) = count_values (data (final init ops)).
Proof. exact len_is_count. Qed.
Print Assumptions C01_len_is_count.

Theorem C01_count_is_keys :
  forall n : node entry, wfn n ->
    exists keys, NoDup keys /\ (forall q, In q keys <-> lookup n q <> None) /\
                 count_values n = N.of_nat (length keys).
Proof. exact count_is_keys. Qed.
Print Assumptions C01_count_is_keys.

Theorem C01_initially_empty : forall q, abs init q = None.
Proof. exact abs_init. Qed.
Print Assumptions C01_initially_empty.

(* a request answered with an error changes nothing a later request can observe *)
Theorem C01_error_is_noop :
  forall s o code, Inv s -> c01_op o -> import_ok o ->
    o_res (snd (step s o)) = RErr code ->
    meq (abs (fst (step s o))) (abs s) /\ Inv (fst (step s o)).
Proof. exact error_is_noop. Qed.
Print Assumptions C01_error_is_noop.

Theorem C01_rejected_write_is_identity :
  forall s o code, Inv s -> import_ok o ->
    match o with OSet _ _ _ _ | OCSet _ _ _ _ _ | OPDelete _ _ | OImport _ => True | _ => False end ->
    o_res (snd (step s o)) = RErr code -> fst (step s o) = s.
Proof. exact rejected_write_is_identity. Qed.
Print Assumptions C01_rejected_write_is_identity.

(* ls: the distinct next segments of the stored keys below the parent, None iff nothing there *)
Theorem C01_ls_exact :
  forall (V : Type) (n : node V) P, wfn n -> cleann n ->
    match ls_at n P with
    | Some l => NoDup l /\ forall x, In x l <-> exists q e, lookup n (P ++ x :: q) = Some e
    | None => forall q, lookup n (P ++ q) = None
    end.
Proof. exact @ls_exact. Qed.
Print Assumptions C01_ls_exact.

(* non-vacuity: a concrete history satisfies the hypotheses and exercises accepted and rejected writes *)
Definition C01_example_ops : list op :=
  [OSet 1 [97;47;98] (JNum [49]) false; OCSet 2 [97;47;98] (JNum [50]) 5 false;
   OCSet 2 [99] (JNum [50]) 0 false; OSet 1 [99] JNull false; OLen; OPLs (Some [63]);
   OPDelete 1 [97;47;35]; OGet [97;47;98]; OLs None; OLen].

Example C01_nonvacuous :
  Forall c01_op C01_example_ops /\ Forall import_ok C01_example_ops /\
  map o_res (run init C01_example_ops) =
    [RUnit; RErr 18; RUnit; RErr 17; RLen 2; RNames [[98]]; RKvs [([97;47;98], JNum [49])]; RErr 5; RNames [[99]]; RLen 1].
Proof.
  split; [|split].
  - unfold C01_example_ops. repeat (apply Forall_cons; [exact I|]). apply Forall_nil.
  - unfold C01_example_ops. repeat (apply Forall_cons; [exact I|]). apply Forall_nil.
  - vm_compute. reflexivity.
Qed.
