(* C01 -- reads return exactly what the accepted writes imply. (statements to be added) *)
From WB Require Import Base.Str Model.Key Model.Store Proofs.StoreFacts.
