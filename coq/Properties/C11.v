(* C11 -- A follower converges to the leader's data.
   Statements only.  Model: Model/Sync.v (leader.rs, lib.rs forward_api_call, follower.rs) over Model/Core.v,
   with the repairs of F10a (session-end effects mirrored) and F11 (pre-join registrations sent after the initial state).
   PARTIAL: the history theorem covers client set / cset / delete / pdelete requests (accepted or refused, with keys
   anywhere including $SYS) from any join point; session ends, registrations and imports are in the executable model
   and are compared with the real cluster by the correspondence, not proved.  CAS imports are known finding F10b. *)
From Coq Require Import List.
Import ListNotations.
From WB Require Import Base.Str Base.Json Model.Key Model.Store Model.Entry Model.Core Model.Codec Model.Persist Model.Sync
  Spec.MapSpec Proofs.CoreFacts Proofs.SyncFacts.

(* one mirrored request: mirroring before applying, and whatever the outcome on the leader, keeps leader and follower
   in agreement on every user key (values and CAS versions) *)
Theorem C11_same_outcome :
  forall L F w, Inv L -> Inv F -> user_eq (abs L) (abs F) -> admissible L F w ->
  let L' := fst (step L (op_of w)) in
  let F' := fdrain F (mirror (op_of w)) in
  Inv L' /\ Inv F' /\ user_eq (abs L') (abs F').
Proof. exact mirror_sim. Qed.
Print Assumptions C11_same_outcome.

(* a follower that joins at any state of the leader starts in agreement with it *)
Theorem C11_join_agrees :
  forall L, Inv L -> Inv (fst (fjoin L)) /\ user_eq (abs L) (abs (fst (fjoin L))).
Proof. exact join_agrees. Qed.
Print Assumptions C11_join_agrees.

(* every join point, every history after it: once the follower has processed what the leader sent, it holds exactly
   the leader's user keys with the same values and versions *)
Theorem C11_converges :
  forall L ws, Inv L -> admissible_run L (fst (fjoin L)) ws ->
  user_eq (abs (lrun L ws)) (abs (fdrain (fst (fjoin L)) (channel ws))).
Proof. exact follower_converges. Qed.
Print Assumptions C11_converges.

(* every write offered to a follower directly is refused with NotLeader and changes nothing *)
Theorem C11_refuses_writes :
  forall f o, follower_refuses o = true -> fstep_api f o = (f, out_res (RErr E_NotLeader)).
Proof. exact follower_refuses_writes. Qed.
Print Assumptions C11_refuses_writes.

Theorem C11_write_kinds_refused :
  forall c k v n force p t,
  follower_refuses (OSet c k v force) = true /\ follower_refuses (OCSet c k v n force) = true /\
  follower_refuses (ODelete c k) = true /\ follower_refuses (OPDelete c p) = true /\
  follower_refuses (OPublish k v) = true /\ follower_refuses (OSPubInit c t k) = true /\
  follower_refuses (OSPub c t v) = true /\ follower_refuses (OImport v) = true /\
  follower_refuses (OLock c k) = true /\ follower_refuses (OAcquire c k) = true /\
  follower_refuses (ORelease c k) = true.
Proof. exact follower_write_kinds. Qed.
Print Assumptions C11_write_kinds_refused.

(* known finding F10b: an imported CAS entry reaches the follower with another version *)
Theorem C11_cas_import_refuted : exists v,
  let w := WCSet [107] JNull v true in
  abs (fapply init w) [[107]] = Some (Cas JNull 1) /\ v <> 1%N.
Proof. exact cas_import_refuted. Qed.
Print Assumptions C11_cas_import_refuted.

Example C11_nonvacuous :
  let L := lrun init [WrSet 1 [97] (JBool true); WrCSet 1 [98] JNull 0] in
  let ws := [WrCSet 2 [98] (JBool false) 1; WrCSet 2 [98] (JBool true) 1; WrDelete 1 [97]; WrPDelete 1 [35]; WrSet 1 [99] JNull] in
  admissible_run L (fst (fjoin L)) ws /\
  abs (lrun L ws) [[98]] = None /\ abs (lrun L ws) [[99]] = Some (Plain JNull) /\
  abs (fdrain (fst (fjoin L)) (channel ws)) [[99]] = Some (Plain JNull).
Proof. vm_compute. repeat split; discriminate. Qed.
