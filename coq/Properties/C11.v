(* C11 -- A follower converges to the leader's data.
   Statements only.  Model: Model/Sync.v (leader.rs, lib.rs forward_api_call, follower.rs) over Model/Core.v,
   with the repairs of F10a (session-end effects mirrored) and F11 (pre-join registrations sent after the initial state).
   History theorems: C11_converges (client set / cset / delete / pdelete requests, accepted or refused, keys anywhere
   including $SYS, from any join point) and C11_converges_sessions (Proofs/SyncAll.v: requests of EVERY kind except import
   -- sessions starting and ending with their grave goods and last wills, registrations made, changed and removed,
   subscriptions, locks -- from any join point: afterwards the follower holds the leader's user keys with the same entries
   and versions, and the leader's registrations).  Import is known finding F10b; patterns with a wildcard as first
   segment (F4), ill-formed patterns (F3) and the version overflow (F17) are excluded by hypothesis. *)
From Coq Require Import List.
Import ListNotations.
From WB Require Import Base.Str Base.Json Model.Key Model.Consts Model.Store Model.Entry Model.Core Model.Codec Model.Persist Model.Sync
  Spec.MapSpec Proofs.CoreFacts Proofs.StreamAll Proofs.SyncFacts Proofs.SyncAll.

(* one mirrored request: mirroring before applying, and whatever the outcome on the leader, keeps leader and follower
   in agreement on every user key (values and CAS versions) *)
Theorem C11_same_outcome :
  forall L F w, Inv L -> Inv F -> user_eq (abs L) (abs F) -> admissible L F w ->
  let L' := fst (step L (op_of w)) in
  let F' := fdrain F (mirror (op_of w)) in
  Inv L' /\ Inv F' /\ user_eq (abs L') (abs F').
Proof. exact mirror_sim. Qed.
Print Assumptions C11_same_outcome.

(* a follower that joins at any state of the leader starts in agreement with it *)
Theorem C11_join_agrees :
  forall L, Inv L -> Inv (fst (fjoin L)) /\ user_eq (abs L) (abs (fst (fjoin L))).
Proof. exact join_agrees. Qed.
Print Assumptions C11_join_agrees.

(* every join point, every history after it: once the follower has processed what the leader sent, it holds exactly
   the leader's user keys with the same values and versions *)
Theorem C11_converges :
  forall L ws, Inv L -> admissible_run L (fst (fjoin L)) ws ->
  user_eq (abs (lrun L ws)) (abs (fdrain (fst (fjoin L)) (channel ws))).
Proof. exact follower_converges. Qed.
Print Assumptions C11_converges.

(* every write offered to a follower directly is refused with NotLeader and changes nothing *)
(* ---- histories of requests of every kind (Proofs/SyncAll.v) ----
   [cluster_run L F os]: the leader serves os one after the other, the follower applies, in channel order, everything the
   leader sends for each (lstep: the mirrored writes, the effects of a session end, the registration changes);
   [reg_path q]: q is $SYS/clients/<id>/graveGoods or .../lastWill; [val_at m q]: the value stored at q;
   [adm_hist]: no import, force = false on client writes, well-formed patterns beginning with a literal segment (also
   in the grave goods that get executed), no version overflow, no crash. *)
Theorem C11_converges_sessions :
  forall L os, Inv L -> RegOK L ->
    let F := fdrain (fst (fjoin L)) (snd (fjoin L)) in
    adm_hist L F os ->
    let L' := fst (cluster_run L F os) in let F' := snd (cluster_run L F os) in
    user_eq (abs L') (abs F') /\ (forall q, reg_path q -> val_at (abs F') q = val_at (abs L') q).
Proof. exact follower_converges_sessions. Qed.
Print Assumptions C11_converges_sessions.

(* the same as an invariant of leader and follower, whatever state they start from *)
Theorem C11_request_sim :
  forall L F o, Rel L F -> adm_req L F o -> Rel (fst (step L o)) (fdrain F (snd (lstep L o))).
Proof. exact request_sim. Qed.
Print Assumptions C11_request_sim.

(* a follower that joins is in that relation once it has processed the initial state and the registrations *)
Theorem C11_join_Rel :
  forall L, Inv L -> RegOK L -> Rel L (fdrain (fst (fjoin L)) (snd (fjoin L))).
Proof. exact join_Rel. Qed.
Print Assumptions C11_join_Rel.

(* the registration commands of a leader step bring the follower's registrations to the leader's *)
Theorem C11_registrations_follow :
  forall L L' F, Inv L -> Inv L' -> Inv F -> plain_regs (abs F) -> RegOK L' ->
    (forall q, reg_path q -> val_at (abs L) q = val_at (abs L') q -> val_at (abs F) q = val_at (abs L') q) ->
    let F' := fdrain F (reg_changes L L') in
    Inv F' /\ plain_regs (abs F') /\
    (forall q, ~ reg_path q -> abs F' q = abs F q) /\
    (forall q, reg_path q -> val_at (abs F') q = val_at (abs L') q).
Proof. exact reg_sync. Qed.
Print Assumptions C11_registrations_follow.

(* non-vacuity: two clients register, write, one session ends (grave goods bury, the last will overrides a CAS value);
   the follower joined before all of that *)
Example C11_sessions_nonvacuous :
  let gg1 := topic [s_SYS; s_clients; client_str 1; s_graveGoods] in
  let lw1 := topic [s_SYS; s_clients; client_str 1; s_lastWill] in
  let gg2 := topic [s_SYS; s_clients; client_str 2; s_graveGoods] in
  let os := [OConnected 1; OConnected 2;
             OSet 1 gg1 (JArr [JStr [103;47;35]]) false; OSet 1 lw1 (JArr [JArr [JStr [119]; JNum [49]]]) false;
             OSet 2 gg2 (JArr [JStr [107]]) false; OSet 2 [103;47;120] JNull false; OCSet 2 [119] JNull 0 false;
             OSubscribe 2 1 [119] false true; ODisconnected 1; OSet 2 gg2 (JArr []) false] in
  let F := fdrain (fst (fjoin init)) (snd (fjoin init)) in
  adm_hist init F os /\
  abs (snd (cluster_run init F os)) [[119]] = Some (Plain (JNum [49])) /\
  abs (snd (cluster_run init F os)) [[103]; [120]] = None /\
  val_at (abs (snd (cluster_run init F os))) [s_SYS; s_clients; client_str 2; s_graveGoods] = Some (JArr []) /\
  val_at (abs (snd (cluster_run init F os))) [s_SYS; s_clients; client_str 1; s_graveGoods] = None.
Proof. vm_compute. repeat split; try discriminate; reflexivity. Qed.

Theorem C11_refuses_writes :
  forall f o, follower_refuses o = true -> fstep_api f o = (f, out_res (RErr E_NotLeader)).
Proof. exact follower_refuses_writes. Qed.
Print Assumptions C11_refuses_writes.

Theorem C11_write_kinds_refused :
  forall c k v n force p t,
  follower_refuses (OSet c k v force) = true /\ follower_refuses (OCSet c k v n force) = true /\
  follower_refuses (ODelete c k) = true /\ follower_refuses (OPDelete c p) = true /\
  follower_refuses (OPublish k v) = true /\ follower_refuses (OSPubInit c t k) = true /\
  follower_refuses (OSPub c t v) = true /\ follower_refuses (OImport v) = true /\
  follower_refuses (OLock c k) = true /\ follower_refuses (OAcquire c k) = true /\
  follower_refuses (ORelease c k) = true.
Proof. exact follower_write_kinds. Qed.
Print Assumptions C11_write_kinds_refused.

(* known finding F10b: an imported CAS entry reaches the follower with another version *)
Theorem C11_cas_import_refuted : exists v,
  let w := WCSet [107] JNull v true in
  abs (fapply init w) [[107]] = Some (Cas JNull 1) /\ v <> 1%N.
Proof. exact cas_import_refuted. Qed.
Print Assumptions C11_cas_import_refuted.

Example C11_nonvacuous :
  let L := lrun init [WrSet 1 [97] (JBool true); WrCSet 1 [98] JNull 0] in
  let ws := [WrCSet 2 [98] (JBool false) 1; WrCSet 2 [98] (JBool true) 1; WrDelete 1 [97]; WrPDelete 1 [35]; WrSet 1 [99] JNull] in
  admissible_run L (fst (fjoin L)) ws /\
  abs (lrun L ws) [[98]] = None /\ abs (lrun L ws) [[99]] = Some (Plain JNull) /\
  abs (fdrain (fst (fjoin L)) (channel ws)) [[99]] = Some (Plain JNull).
Proof. vm_compute. repeat split; discriminate. Qed.
