(* C13 -- Every request gets exactly one answer carrying its own transaction id.
   Statements only; proofs in Proofs/SessionFacts.v.  The handler of a decoded request computes a
   core operation, and [answer] turns the core's result into the terminal message; subscription
   events and deferred lock answers are routed with the transaction id registered at the request.
   The interleaving of answers and subscription traffic on the wire (serve loop and forwarding tasks share the
   socket writer's channel) is modelled in Model/Conc.v; what holds of it under every schedule is at the end. *)
From Coq Require Import NArith List.
Import ListNotations.
From WB Require Import Base.Str Base.Json Model.Key Model.Store Model.Entry Model.Core Model.Codec Model.Auth
  Model.Session Proofs.SessionFacts Model.Conc Proofs.ConcFacts.

Theorem C13_one_terminal_answer :
  forall m r, r <> RCrash ->
    (match m, r with MAcquireLock _ _, RReq _ => False | _, _ => True end) ->
    exists a, answer m r = [a] /\ smsg_tid a = Some (tid_of m).
Proof. exact answer_unique. Qed.
Print Assumptions C13_one_terminal_answer.

Theorem C13_error_answer : forall m code, answer m (RErr code) = [SErr (tid_of m) code []].
Proof. exact answer_error. Qed.
Print Assumptions C13_error_answer.

Theorem C13_table :
  forall m r,
    match m, r with
    | MGet t _, RValue v => answer m r = [SState t (SValue v)]
    | MCGet t _, RCValue v ver => answer m r = [SCState t v ver]
    | MPGet t p, RKvs l => answer m r = [SPState t p (PKvs l)]
    | MDelete t _, RValue v => answer m r = [SState t (SDeleted v)]
    | MPDelete t p q, RKvs l => answer m r = [SPState t p (PDel (match q with Some true => [] | _ => l end))]
    | MLs t _, RNames l | MPLs t _, RNames l => answer m r = [SLsState t l]
    | (MSet t _ _ | MCSet t _ _ _ | MSPubInit t _ | MSPub t _ | MPublish t _ _ | MUnsubscribe t | MUnsubscribeLs t
      | MLock t _ | MReleaseLock t _), RUnit => answer m r = [SAck t]
    | (MSubscribe t _ _ _ | MPSubscribe t _ _ _ _ | MSubscribeLs t _), RSub _ => answer m r = [SAck t]
    | _, _ => True
    end.
Proof. exact answer_kind. Qed.
Print Assumptions C13_table.

(* a request that fails does not end the session *)
Theorem C13_request_keeps_session :
  forall w sn m s, lookup_n sn (w_sess w) = Some s -> is_request m = true ->
    (w_auth_required w = false \/ ss_claims s <> None) ->
    snd (handle w sn m) = Continue.
Proof. exact request_keeps_session. Qed.
Print Assumptions C13_request_keeps_session.

(* repaired F12: requests this protocol version does not have are answered, not dropped *)
Theorem C13_not_implemented_is_answered :
  forall w sn m s, lookup_n sn (w_sess w) = Some s -> is_request m = true ->
    ((ss_proto s = 0 /\ v1_only m = true) \/ (exists t k v, m = MTransform t k v)) ->
    handle w sn m = (w, [(sn, SErr (tid_of m) E_NotImplemented [])], Continue).
Proof. exact not_implemented. Qed.
Print Assumptions C13_not_implemented_is_answered.

(* a subscribe request: whatever it produces starts with its one terminal answer; the snapshot and later events follow *)
Theorem C13_subscribe_answer_first :
  forall w sn m s, lookup_n sn (w_sess w) = Some s -> is_subscribe m = true ->
  let out := snd (fst (handle w sn m)) in
  out = [] \/ exists code rest, out = (sn, SAck (tid_of m)) :: rest \/ out = (sn, SErr (tid_of m) code []) :: rest.
Proof. exact subscribe_answer_first. Qed.
Print Assumptions C13_subscribe_answer_first.

(* subscription events go to the session that subscribed and carry the id of their subscribe request;
   lock traffic carries the id of its acquire request *)
Theorem C13_events_carry_their_id :
  forall w o sn msg, In (sn, msg) (route_events w o) ->
  (exists inst t k, lookup_n inst (w_chan w) = Some (sn, t, k) /\ event_with_tid t msg) \/
  (exists r t, lookup_n r (w_reqs w) = Some (sn, t) /\ (msg = SAck t \/ msg = SErr t E_LockAcquisitionCancelled [])).
Proof. exact routed_event_id. Qed.
Print Assumptions C13_events_carry_their_id.

Example C13_nonvacuous :
  let w := fst (sstep (world_init false) (SOpen 0)) in
  snd (sstep w (SMsg 0 (MGet 7 [110;111]))) = [(0, SErr 7 E_NoSuchValue [])] /\
  snd (sstep w (SMsg 0 (MSet 8 [107] JNull))) = [(0, SAck 8)].
Proof. vm_compute. split; reflexivity. Qed.

(* ---- under every schedule of the tasks around the core (Model/Conc.v, Proofs/ConcFacts.v) ---- *)
(* exactly one answer per request, the answer to that very request, in the order of the session's requests *)
Theorem C13_answers_under_every_schedule :
  forall es sn,
    ans_proj (c_wire (crun es) sn) ++ done_of (c_task (crun es) sn) = mine sn (sres init (c_served (crun es))).
Proof. exact conc_answers. Qed.
Print Assumptions C13_answers_under_every_schedule.

(* an event of a subscription reaches the socket only after the answer that carries the subscription's receiver *)
Theorem C13_events_only_after_the_ack :
  forall es sn a i x b, c_wire (crun es) sn = a ++ WItem i x :: b -> exists o, In (WAns o (RSub i)) a.
Proof. exact conc_ack_first. Qed.
Print Assumptions C13_events_only_after_the_ack.

(* instance numbers are handed out once: an answer [RSub i] names a channel no earlier answer named *)
Theorem C13_receivers_are_fresh :
  forall l s, NoDup (handed (sres s l)).
Proof. intros l s. exact (proj2 (handed_fresh l s)). Qed.
Print Assumptions C13_receivers_are_fresh.
