(* C14 -- Every protocol message survives encoding and decoding unchanged.
   Layer 1 (message <-> JSON value): full proof for every variant of the three message types.
   Layer 2 (JSON value -> one line of text): the writer never emits a line break (full proof);
   text -> value (serde_json's tokenizer, float printing/parsing) is not modelled: it is exercised
   by the correspondence (real from_str . to_string on every generated message). *)
From Coq Require Import Lia.
From WB Require Import Base.Str Base.Json Model.Key Model.Store Model.Entry Model.Codec Model.JsonText
  Proofs.NumFacts Proofs.CodecFacts Proofs.JsonTextFacts.

Theorem C14_roundtrip_client : forall m, wf_cmsg m -> dec_cmsg (enc_cmsg m) = Some m.
Proof. exact cmsg_roundtrip. Qed.
Print Assumptions C14_roundtrip_client.

Theorem C14_roundtrip_server : forall m, wf_smsg m -> dec_smsg (enc_smsg m) = Some m.
Proof. exact smsg_roundtrip. Qed.
Print Assumptions C14_roundtrip_server.

(* cluster sync messages; Init(StateSync) carrying values the ValueEntry format cannot represent
   (plain null, plain {"Cas":[x,n]}) is the known finding F8 and excluded by node_ok *)
Theorem C14_roundtrip_sync : forall m, wf_sync m -> dec_sync (enc_sync m) = Some m.
Proof. exact sync_roundtrip. Qed.
Print Assumptions C14_roundtrip_sync.

Theorem C14_sync_F8_refuted :
  exists n, dec_node (enc_node n) <> Some n /\
            exists n', dec_node (enc_node n') <> Some n' /\ n <> n'.
Proof.
  exists (Node (Some (Plain JNull)) []).
  split; [vm_compute; discriminate|].
  exists (Node (Some (Plain (JObj [(Model.Consts.s_Cas, JArr [JNull; JNum [49]])]))) []).
  split; vm_compute; discriminate.
Qed.
Print Assumptions C14_sync_F8_refuted.

(* numbers: every u64 is written and read back exactly *)
Theorem C14_u64_text : forall n, n <= u64_max -> u64_of_lit (dec_of_N n) = Some n.
Proof. exact u64_of_lit_dec. Qed.
Print Assumptions C14_u64_text.

(* a message is one line: the writer escapes every control character *)
Theorem C14_single_line : forall j, lits_ok j -> ~ In 10 (print j).
Proof. exact print_single_line. Qed.
Print Assumptions C14_single_line.

(* encoding is a function of the message alone (stated for the record: enc_* are Gallina functions) *)
Theorem C14_enc_function : forall m1 m2 : cmsg, m1 = m2 -> print (enc_cmsg m1) = print (enc_cmsg m2).
Proof. intros m1 m2 ->. reflexivity. Qed.
Print Assumptions C14_enc_function.

Example C14_nonvacuous :
  wf_cmsg (MPSubscribe u64_max [35] true (Some 10) None) /\
  print (enc_cmsg (MPSubscribe 1 [35] true (Some 10) None)) =
  [123;34;112;83;117;98;115;99;114;105;98;101;34;58;123;34;116;114;97;110;115;97;99;116;105;111;110;73;100;34;58;49;44;34;114;101;113;117;101;115;116;80;97;116;116;101;114;110;34;58;34;35;34;44;34;117;110;105;113;117;101;34;58;116;114;117;101;44;34;97;103;103;114;101;103;97;116;101;69;118;101;110;116;115;34;58;49;48;125;125].
Proof. split; [vm_compute; split; [discriminate|intros H; discriminate]|vm_compute; reflexivity]. Qed.
