(* C12 -- Promoting a follower loses nothing that was replicated.
   Statements only.  Composition of Model/Sync.v and Model/Persist.v: the follower is stopped the way the orchestrator
   stops it (shutdown applies the grave goods and last wills it holds, then flushes) and started again as leader on its
   own data directory (restore loads the snapshot and applies the persisted grave goods and last wills).
   What the follower holds at that point is C11's business (C11_converges_sessions: user keys and registrations,
   including those made before it joined); C12_follower_knows_registrations turns that into what promotion applies:
   exactly the grave goods and last wills registered on the old leader.  That the role flags make the node persist at
   all is the repair of F21 and is checked on the real binary started with the orchestrator's argv. *)
From Coq Require Import List.
Import ListNotations.
From WB Require Import Base.Str Base.Json Model.Key Model.Consts Model.Store Model.Entry Model.Core Model.Codec Model.Persist Model.Sync
  Proofs.CodecFacts Proofs.PersistFacts Proofs.CoreFacts Proofs.SyncFacts Proofs.SyncAll.

(* the promoted node serves what the follower held, with the grave goods of every client it knew buried and their
   last wills published: the state after promotion is a function of the follower's state alone -- nothing of it is lost *)
Theorem C12_promote :
  forall f,
  let f1 := apply_gglw f (all_grave_goods f) (all_last_wills f) in
  node_ok (strip_sys s_SYS (data f1)) ->
  promote f = apply_gglw (core_of (strip_sys s_SYS (data f1))) (all_grave_goods f1) (all_last_wills f1).
Proof. exact promote_spec. Qed.
Print Assumptions C12_promote.

(* the flush the shutdown performs is complete whatever the directory held before (C10) *)
Theorem C12_shutdown_flush_is_loaded :
  forall s d, node_ok (strip_sys s_SYS (data s)) ->
  let d' := fst (flush None s d) in
  load_v3 d' = Some (apply_gglw (core_of (strip_sys s_SYS (data s))) (all_grave_goods s) (all_last_wills s), d').
Proof. exact load_after_flush. Qed.
Print Assumptions C12_shutdown_flush_is_loaded.

(* what the follower applies at its shutdown and, restarted as leader, from its data directory: the grave goods and
   last wills registered on the old leader (the sessions of all its clients died with it), those registered before
   the follower joined included -- [Rel L F] is the relation C11 establishes at the join and keeps along every history *)
Theorem C12_follower_knows_registrations :
  forall L F, Rel L F ->
    (forall g, In g (all_grave_goods F) <-> In g (all_grave_goods L)) /\
    (forall kv, In kv (all_last_wills F) <-> In kv (all_last_wills L)).
Proof. exact follower_knows_registrations. Qed.
Print Assumptions C12_follower_knows_registrations.

Theorem C12_joined_follower_is_related :
  forall L, Inv L -> RegOK L -> Rel L (fdrain (fst (fjoin L)) (snd (fjoin L))).
Proof. exact join_Rel. Qed.
Print Assumptions C12_joined_follower_is_related.

Example C12_nonvacuous :
  (* a follower holding a user key, a key covered by a client's grave goods, and that client's last will *)
  let gg := [36;83;89;83;47;99;108;105;101;110;116;115;47;120;47;103;114;97;118;101;71;111;111;100;115] in
  let lw := [36;83;89;83;47;99;108;105;101;110;116;115;47;120;47;108;97;115;116;87;105;108;108] in
  let f := fdrain init [WSet [97] (JBool true) false; WSet [103;47;49] JNull false;
                        WSet gg (JArr [JStr [103;47;35]]) false;
                        WSet lw (JArr [JObj [([107;101;121], JStr [119]); ([118;97;108;117;101], JStr [98;121;101])]]) false] in
  user_entries (promote f) = [([[97]], Plain (JBool true)); ([[119]], Plain (JStr [98;121;101]))].
Proof. vm_compute. reflexivity. Qed.
