(* C03 -- subscriptions. (statements to be added) *)
From WB Require Import Base.Str Model.Key Model.Subs Model.Core.
