(* C03 -- A subscription delivers current state, then every matching change once, in order.
   Statements only; proofs in Proofs/SubsFacts.v, Proofs/C03Proof.v.  The per-subscription
   queue is the list of events the model emits for that channel, request after request; what
   is proved here is the content of every single emission and the registration bookkeeping.
   History level (Proofs/StreamProof.v): C03_stream -- for every history of reads, sets, csets, deletes and publishes
   after the registration, with any number of other subscriptions registered, the channel carries in order exactly
   one event per accepted change that concerns it; C03_unsubscribe_removes + C03_silent_after_unsubscribe -- nothing
   after its unsubscribe.  Proofs/StreamAll.v extends both to histories of requests of EVERY kind: pattern deletes,
   imports, publish streams, other clients' subscriptions coming and going, locks, ls-subscriptions, sessions
   starting and ending (C03_stream_all, C03_silent_all).  Known findings: F2 (`K/#` and the key K itself), F24 (a
   second subscribe under a transaction id that is still subscribed): the theorems are stated for histories
   in which nobody subscribes or unsubscribes under the subscription's own id. *)
From Coq Require Import List.
Import ListNotations.
From WB Require Import Base.Str Base.Json Model.Key Model.Consts Model.Store Model.Match Model.Subs Model.Entry Model.Core
  Proofs.SubsFacts Proofs.MatchFacts Proofs.CoreFacts Proofs.C01Proof Proofs.C03Proof Proofs.StreamProof Proofs.StreamAll Proofs.FoldProof Proofs.FoldImport Proofs.NoCrash Proofs.Unconditional Model.Conc Proofs.ConcFacts.
From WB Require Import Proofs.GoodNames Proofs.TreeInv Proofs.StoreFacts.

(* routing through the subscriber tree = the relation sub_match on the registered position *)
Theorem C03_routing :
  forall key (n : snode) sb, wfs n ->
    (In sb (add_matches n key) <-> exists P, In sb (subs_at n P) /\ sub_match P key = true).
Proof. exact add_matches_spec. Qed.
Print Assumptions C03_routing.

(* and for a well-formed pattern that relation is the documented one *)
Theorem C03_routing_is_documented :
  forall p k, wf_pat p = true -> sub_match p k = doc_match p k.
Proof. exact sub_eq_doc. Qed.
Print Assumptions C03_routing_is_documented.

(* one accepted change produces, per registered subscriber whose pattern matches the key, exactly
   the event of that change -- suppressed iff the subscriber is unique and the value did not change *)
Theorem C03_notify_exact :
  forall s path key v changed deleted i ev, wfs (subs s) ->
    (In (i, ev) (notify s path key v changed deleted) <->
     exists sb P, In sb (subs_at (subs s) P) /\ sub_match P path = true /\
                  (changed || negb (s_unique sb)) = true /\
                  i = s_inst sb /\ ev = event_for sb key v deleted).
Proof. exact notify_spec. Qed.
Print Assumptions C03_notify_exact.

(* psubscribe: one new subscriber at its pattern with a fresh channel; the snapshot is pget's
   answer at that moment, put into that channel before anything else; a refused psubscribe
   (ill-formed pattern reached) changes nothing *)
Theorem C03_psubscribe :
  forall s c t pattern unique live, SInv s ->
    match o_res (snd (do_psubscribe s c t pattern unique live)) with
    | RSub inst =>
        inst = next_inst s /\ next_inst (fst (do_psubscribe s c t pattern unique live)) = inst + 1 /\
        SInv (fst (do_psubscribe s c t pattern unique live)) /\
        (forall P x, In x (subs_at (subs (fst (do_psubscribe s c t pattern unique live))) P) <->
                     In x (subs_at (subs s) P) \/
                     (x = Subscriber c t inst (kseg_parse pattern) unique true /\ P = kseg_parse pattern)) /\
        data (fst (do_psubscribe s c t pattern unique live)) = data s /\
        o_events (snd (do_psubscribe s c t pattern unique live)) =
          (if live then []
           else match do_pget s pattern with Ok kvs => [(inst, EPValue kvs)] | Err _ => [] end)
    | RErr code => fst (do_psubscribe s c t pattern unique live) = s /\ live = false /\ do_pget s pattern = Err code
    | _ => False
    end.
Proof. exact psubscribe_spec. Qed.
Print Assumptions C03_psubscribe.

(* every subscriber appears at most once in what one change is routed to: exactly-once delivery *)
Theorem C03_routed_once :
  forall key n, wfs n -> NoDup (all_subs n) -> NoDup (add_matches n key).
Proof. exact add_matches_nodup. Qed.
Print Assumptions C03_routed_once.

(* the stream of a registered subscription over any history of data requests: in the order the server applied
   them, exactly the events the accepted changes imply for its pattern -- none for refused requests, none for
   value-preserving writes if it asked for unique values *)
Theorem C03_stream :
  forall os s sb, SInv s -> UI s -> In sb (subs_at (subs s) (s_pat sb)) -> Forall data_op os -> no_crash_run s os ->
  stream (s_inst sb) s os = expected_stream sb s os.
Proof. exact stream_spec. Qed.
Print Assumptions C03_stream.

(* an acknowledged unsubscribe removes the subscription (its id still mapping to its own pattern: otherwise F24) *)
Theorem C03_unsubscribe_removes :
  forall s sb, SInv s -> UI s -> In sb (subs_at (subs s) (s_pat sb)) ->
  assoc_get id_eqb (s_client sb, s_tid sb) (subscriptions s) = Some (s_pat sb) ->
  let s' := fst (do_unsubscribe s (s_client sb) (s_tid sb)) in
  o_res (snd (do_unsubscribe s (s_client sb) (s_tid sb))) = RUnit /\
  SInv s' /\ (forall x, In x (all_subs (subs s')) -> s_inst x <> s_inst sb).
Proof. exact unsubscribe_removes. Qed.
Print Assumptions C03_unsubscribe_removes.

(* ... and no event reaches its channel afterwards, whatever is written *)
Theorem C03_silent_after_unsubscribe :
  forall os s i, SInv s -> (forall x, In x (all_subs (subs s)) -> s_inst x <> i) -> Forall data_op os ->
  stream i s os = [].
Proof. exact silent_after_unsubscribe. Qed.
Print Assumptions C03_silent_after_unsubscribe.

(* ---- histories of requests of every kind (Proofs/StreamAll.v) ----
   [K s]: the invariants of data tree and subscriber tree (they hold in every reachable state: C03_reach_K);
   [Registered s sb]: sb is registered; [foreign sb o]: o is not a subscribe, psubscribe or unsubscribe under sb's own
   (client, transaction id) and not the end of its client's session; [changes s o]: the accepted changes request o
   makes in state s, in the order the server applies them (none if it is refused); [wanted sb cs]: one event per
   change of cs that matches sb's pattern (a value-preserving write is passed over iff sb asked for unique values);
   a session start or end counts as the run of requests it is (C07). *)
Theorem C03_stream_all :
  forall os s sb, K s -> Registered s sb -> Forall (foreign sb) os -> Forall import_ok os -> no_crash_run s os ->
    stream (s_inst sb) s os = wanted_stream sb s os.
Proof. exact stream_all. Qed.
Print Assumptions C03_stream_all.

(* what is owed for one elementary request, spelled out *)
Theorem C03_wanted_for_a_request :
  forall sb s o, elem o -> wanted_op sb s o = wanted sb (changes s o) /\
    wanted sb (changes s o) =
    flat_map (fun c => if sub_match (s_pat sb) (ch_path c) && (ch_changed c || negb (s_unique sb))
                       then [event_for sb (ch_key c) (ch_val c) (ch_deleted c)] else []) (changes s o).
Proof.
  intros sb s o He. split; [|reflexivity].
  destruct o; try contradiction; unfold wanted_op; cbn [expand fst snd wanted_run]; apply app_nil_r.
Qed.
Print Assumptions C03_wanted_for_a_request.

Theorem C03_reach_K :
  forall os, Forall import_ok os -> no_crash_run init os -> K (final init os).
Proof. intros os. exact (reach_K os init K_init). Qed.
Print Assumptions C03_reach_K.

Theorem C03_subscribe_registers :
  forall s c t k unique live inst, K s -> o_res (snd (do_subscribe s c t k unique live)) = RSub inst ->
    inst = next_inst s /\ Registered (fst (do_subscribe s c t k unique live)) (Subscriber c t inst (kseg_parse k) unique false).
Proof. exact subscribe_registers. Qed.
Print Assumptions C03_subscribe_registers.

Theorem C03_psubscribe_registers :
  forall s c t p unique live inst, K s -> o_res (snd (do_psubscribe s c t p unique live)) = RSub inst ->
    inst = next_inst s /\ Registered (fst (do_psubscribe s c t p unique live)) (Subscriber c t inst (kseg_parse p) unique true).
Proof. exact psubscribe_registers. Qed.
Print Assumptions C03_psubscribe_registers.

(* after its unsubscribe the channel has no owner, and a channel without owner stays silent whatever follows *)
Theorem C03_unsubscribe_gone :
  forall s sb, K s -> Registered s sb -> assoc_get id_eqb (s_client sb, s_tid sb) (subscriptions s) = Some (s_pat sb) ->
    Gone (fst (do_unsubscribe s (s_client sb) (s_tid sb))) (s_inst sb).
Proof. exact unsubscribe_gone. Qed.
Print Assumptions C03_unsubscribe_gone.

Theorem C03_silent_all :
  forall os s i, K s -> Gone s i -> Forall import_ok os -> no_crash_run s os -> stream i s os = [].
Proof. exact silent_all. Qed.
Print Assumptions C03_silent_all.

(* ---- the fold clause (Proofs/FoldProof.v) ----
   [fold_evs F evs]: the key/value view a client keeps by applying pState events (keyValuePairs set, deleted remove);
   [val_of s q]: the value stored at path q; [AgreeM sb m F]: on every regular key where the two matchers agree (that is
   every key, except the key K itself for a pattern K/#: known finding F2) F holds the value of m if the subscription's
   pattern matches the key and nothing otherwise -- which is what pget of the pattern returns. *)
Theorem C03_snapshot_agrees :
  forall s pat kvs, Inv s -> do_pget s pat = Ok kvs ->
    forall sb, s_pat sb = kseg_parse pat -> AgreeM sb (val_of s) (fold_ev (fun _ => None) (EPValue kvs)).
Proof. exact snapshot_agrees. Qed.
Print Assumptions C03_snapshot_agrees.

(* ... and stays so along every history of requests of every kind except publish, publish streams (which deliver a
   value without storing it) and import (for import see C03_fold_is_pget_all below) *)
Theorem C03_fold_is_pget :
  forall os s sb F, s_pstate sb = true -> K s -> Registered s sb ->
    Forall quiet_kind os -> Forall (foreign sb) os -> no_crash_run s os ->
    AgreeM sb (val_of s) F ->
    AgreeM sb (val_of (final s os)) (fold_evs F (stream (s_inst sb) s os)).
Proof. exact fold_is_pget. Qed.
Print Assumptions C03_fold_is_pget.

Theorem C03_matchers_agree_without_multi :
  forall P q, ~ In Multi P -> sub_match P q = store_match P q.
Proof. exact matchers_agree. Qed.
Print Assumptions C03_matchers_agree_without_multi.

(* ---- the same without crash hypotheses (Proofs/NoCrash.v, Proofs/Unconditional.v) ----
   [safe_op] excludes only a cset at version u64::MAX (F17), an import of a tree with irregular names and the nil client
   id at session start/end: no such request takes a crash branch, so for a subscription registered after ANY safe
   history [pre] and followed through ANY safe history [os]: *)
Theorem C03_stream_all_safe :
  forall pre os sb, Forall safe_op (pre ++ os) -> Registered (final init pre) sb -> Forall (foreign sb) os ->
    stream (s_inst sb) (final init pre) os = wanted_stream sb (final init pre) os.
Proof. exact stream_all_safe. Qed.
Print Assumptions C03_stream_all_safe.

Theorem C03_silent_all_safe :
  forall pre os i, Forall safe_op (pre ++ os) -> Gone (final init pre) i -> stream i (final init pre) os = [].
Proof. exact silent_all_safe. Qed.
Print Assumptions C03_silent_all_safe.

Theorem C03_fold_is_pget_safe :
  forall pre os sb F, Forall safe_op (pre ++ os) -> s_pstate sb = true -> Registered (final init pre) sb ->
    Forall quiet_kind os -> Forall (foreign sb) os -> AgreeM sb (val_of (final init pre)) F ->
    AgreeM sb (val_of (final (final init pre) os)) (fold_evs F (stream (s_inst sb) (final init pre) os)).
Proof. exact fold_is_pget_safe. Qed.
Print Assumptions C03_fold_is_pget_safe.

(* ... imports included (Proofs/FoldImport.v): an import sends one event per entry of the imported tree; only publish
   and publish streams -- which deliver a value without storing it -- stay out of the fold *)
Theorem C03_fold_is_pget_all :
  forall os s sb F, s_pstate sb = true -> K s -> Registered s sb ->
    Forall store_kind os -> Forall import_ok os -> Forall (foreign sb) os -> no_crash_run s os ->
    AgreeM sb (val_of s) F ->
    AgreeM sb (val_of (final s os)) (fold_evs F (stream (s_inst sb) s os)).
Proof. exact fold_is_pget_all. Qed.
Print Assumptions C03_fold_is_pget_all.

Theorem C03_fold_is_pget_all_safe :
  forall pre os sb F, Forall safe_op (pre ++ os) -> s_pstate sb = true -> Registered (final init pre) sb ->
    Forall store_kind os -> Forall (foreign sb) os -> AgreeM sb (val_of (final init pre)) F ->
    AgreeM sb (val_of (final (final init pre) os)) (fold_evs F (stream (s_inst sb) (final init pre) os)).
Proof. exact fold_is_pget_all_safe. Qed.
Print Assumptions C03_fold_is_pget_all_safe.

(* non-vacuity: a/# followed through a set, an import (a/b as it is, a/x new, c outside the pattern) and a delete *)
Example C03_fold_import_nonvacuous :
  let tree := Node None [([97], Node None [([98], Node (Some (Plain (JBool true))) []);
                                           ([120], Node (Some (Plain (JNum [53]))) [])]);
                         ([99], Node (Some (Plain (JNum [49]))) [])] in
  let pre := [OPSubscribe 2 1 [97;47;35] false true] in
  let sb := Subscriber 2 1 0 (kseg_parse [97;47;35]) false true in
  let os := [OSet 1 [97;47;98] (JBool true) false; OImport (enc_persisted tree); ODelete 1 [97;47;98]] in
  let s := final init pre in
  Forall safe_op (pre ++ os) /\ Registered s sb /\ Forall store_kind os /\ Forall (foreign sb) os /\
  stream 0 s os = [EPValue [([97;47;98], JBool true)]; EPValue [([97;47;98], JBool true)];
                   EPValue [([97;47;120], JNum [53])]; EPDeleted [([97;47;98], JBool true)]] /\
  map (fold_evs (fold_ev (fun _ => None) (EPValue [])) (stream 0 s os)) [[97;47;98]; [97;47;120]; [99]] =
    [None; Some (JNum [53]); None] /\
  do_pget (final s os) [97;47;35] = Ok [([97;47;120], JNum [53])].
Proof.
  cbv zeta. split.
  { repeat (apply Forall_cons; [split; [cbn; try exact I; discriminate|]|]); try apply Forall_nil; try exact I.
    intros other E. vm_compute in E. injection E as <-. split; [|split; [|reflexivity]].
    - repeat (apply wfn_unfold; split; [repeat constructor; cbn; intuition discriminate|];
              repeat (apply Forall_cons; cbn [snd]); try apply Forall_nil).
    - cbn. unfold good_seg, Base.StrFacts.no_sep. repeat split; try reflexivity; intros H; cbn in H; intuition discriminate. }
  split; [vm_compute; now left|].
  split; [repeat (apply Forall_cons; [exact I|]); apply Forall_nil|].
  split; [repeat (apply Forall_cons; [cbn; try exact I; discriminate|]); apply Forall_nil|].
  repeat split; vm_compute; reflexivity.
Qed.

(* non-vacuity: a pattern subscription followed through a wildcard delete, an import, another client's
   subscription and session end with grave goods and last will *)
Example C03_stream_all_nonvacuous :
  let pre := [OConnected 7; OSet 7 (topic [s_SYS; s_clients; client_str 7; s_graveGoods]) (JArr [JStr [97;47;35]]) false;
              OSet 7 (topic [s_SYS; s_clients; client_str 7; s_lastWill]) (JArr [JArr [JStr [97;47;119]; JNum [49]]]) false;
              OPSubscribe 2 1 [97;47;35] false true] in
  let s := final init pre in
  let sb := Subscriber 2 1 0 (kseg_parse [97;47;35]) false true in
  let os := [OSet 1 [97;47;98] JNull false; OSet 1 [97;47;99] JNull false; OSubscribe 7 3 [97;47;98] false false;
             OPDelete 1 [97;47;63]; OSet 1 [97;47;100] JNull false; ODisconnected 7] in
  Registered s sb /\ Forall (foreign sb) os /\ no_crash_run s os /\
  stream 0 s os = [EPValue [([97;47;98], JNull)]; EPValue [([97;47;99], JNull)];
                   EPDeleted [([97;47;98], JNull)]; EPDeleted [([97;47;99], JNull)];
                   EPValue [([97;47;100], JNull)]; EPDeleted [([97;47;100], JNull)]; EPValue [([97;47;119], JNum [49])]] /\
  wanted_stream sb s os = stream 0 s os /\
  (* the fold of snapshot and stream, on the keys below a/, is what pget a/# returns at the end *)
  map (fold_evs (fold_ev (fun _ => None) (EPValue [])) (stream 0 s os)) [[97;47;98]; [97;47;99]; [97;47;100]; [97;47;119]] =
    [None; None; None; Some (JNum [49])] /\
  do_pget (final s os) [97;47;35] = Ok [([97;47;119], JNum [49])].
Proof.
  cbv zeta. split; [vm_compute; now left|]. split; [repeat (apply Forall_cons; [cbn; try exact I; discriminate|]); apply Forall_nil|].
  split; [vm_compute; repeat split; discriminate|]. repeat split; vm_compute; reflexivity.
Qed.

Example C03_stream_nonvacuous :
  let s := fst (do_psubscribe (fst (do_psubscribe init 2 1 [97;47;35] true true)) 3 1 [97;47;63] false true) in
  let sb := Subscriber 2 1 0 (kseg_parse [97;47;35]) true true in
  In sb (subs_at (subs s) (s_pat sb)) /\
  stream 0 s [OSet 1 [97;47;98] (JBool true) false; OSet 1 [97;47;98] (JBool true) false; OSet 1 [98] JNull false;
              ODelete 1 [97;47;98]; OCSet 1 [97;47;99] JNull 3 false] =
  [EPValue [([97;47;98], JBool true)]; EPDeleted [([97;47;98], JBool true)]].
Proof. vm_compute. split; [now left|reflexivity]. Qed.

(* known finding F2 in this property's terms: the snapshot of `k/#` contains k, later changes of k
   are not routed to it *)
Theorem C03_F2_refuted :
  exists p k, wf_pat p = true /\ store_match p k = true /\ sub_match p k = false.
Proof. exists [Reg [107]; Multi], [[107]]. vm_compute. auto. Qed.
Print Assumptions C03_F2_refuted.

Example C03_nonvacuous :
  map o_events (run init [OPSubscribe 2 1 [97;47;35] false false; OSet 1 [97;47;98] (JNum [49]) false;
                          OSet 1 [97;47;98] (JNum [49]) false; OUnsubscribe 2 1; OSet 1 [97;47;98] (JNum [50]) false]) =
  [[(0, EPValue [])]; [(0, EPValue [([97;47;98], JNum [49])])]; [(0, EPValue [([97;47;98], JNum [49])])]; []; []].
Proof. vm_compute. reflexivity. Qed.

(* ---- from the subscription's channel to the socket (Model/Conc.v, Proofs/ConcFacts.v) ----
   The core task puts the events into the channel of the subscription; a forwarding task, spawned by the session's
   serve loop after it wrote the Ack, moves them one by one into the channel of the socket writer, which it shares
   with the serve loop and the forwarders of the session's other subscriptions.  For EVERY schedule [es] of these
   tasks: what the socket writer was handed of subscription i, followed by what still waits in i's channel, is
   [stream i] of the serial run of the requests served so far (whose content C03_stream_all gives) -- in that
   order, nothing dropped, nothing twice, nothing of it on another session's socket, nothing of it before the Ack.
   Assumed of the runtime: channels are FIFO. *)
Theorem C03_wire_carries_the_stream :
  forall es i sn, c_owner (crun es) i = Some sn ->
    evs_of (item_proj i (c_wire (crun es) sn)) ++ evs_of (c_subq (crun es) i) = stream i init (map snd (c_served (crun es))).
Proof. exact conc_stream. Qed.
Print Assumptions C03_wire_carries_the_stream.

Theorem C03_drained_channel_is_the_whole_stream :
  forall es i sn, c_owner (crun es) i = Some sn -> c_subq (crun es) i = [] ->
    evs_of (item_proj i (c_wire (crun es) sn)) = stream i init (map snd (c_served (crun es))).
Proof. exact conc_drained. Qed.
Print Assumptions C03_drained_channel_is_the_whole_stream.

Theorem C03_nobody_elses_socket :
  forall es i sn, c_owner (crun es) i <> Some sn -> item_proj i (c_wire (crun es) sn) = [].
Proof. exact conc_private. Qed.
Print Assumptions C03_nobody_elses_socket.

Example C03_wire_nonvacuous :
  let es := [CPost 0 (OSubscribe 1 7 [107] false false); CPost 1 (OSet 2 [107] (JNum [49]) false); CServe; CServe; CAnswer 1;
             CPost 1 (OSet 2 [107] (JNum [50]) false); CServe; CAnswer 0; CForward 0; CAnswer 1] in
  c_owner (crun es) 0 = Some 0%N /\
  c_wire (crun es) 0 = [WAns (OSubscribe 1 7 [107] false false) (RSub 0); WItem 0 (IEv (EValue (JNum [49])))] /\
  c_subq (crun es) 0 = [IEv (EValue (JNum [50]))].
Proof. vm_compute. repeat split; reflexivity. Qed.

(* at every quiescent point of the tasks (api channel empty, serve loops idle, owned channels drained): everything
   posted has been served, every client holds the serial answers, and every subscription's socket has been handed
   its whole stream *)
Theorem C03_quiescent_point :
  forall es, quiescent (crun es) ->
    c_served (crun es) = c_posted (crun es) /\
    c_core (crun es) = final init (map snd (c_posted (crun es))) /\
    (forall sn, ans_proj (c_wire (crun es) sn) = mine sn (sres init (c_posted (crun es)))) /\
    (forall i sn, c_owner (crun es) i = Some sn ->
       evs_of (item_proj i (c_wire (crun es) sn)) = stream i init (map snd (c_posted (crun es)))).
Proof. exact conc_quiescent. Qed.
Print Assumptions C03_quiescent_point.
