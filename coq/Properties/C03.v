(* C03 -- A subscription delivers current state, then every matching change once, in order.
   Statements only; proofs in Proofs/SubsFacts.v, Proofs/C03Proof.v.  The per-subscription
   queue is the list of events the model emits for that channel, request after request; what
   is proved here is the content of every single emission and the registration bookkeeping.
   The history-level statement "queue = snapshot ++ one event per later accepted matching change"
   is not yet proved in Coq (covered by the correspondence and the event-specification oracle). *)
From WB Require Import Base.Str Base.Json Model.Key Model.Store Model.Match Model.Subs Model.Entry Model.Core
  Proofs.SubsFacts Proofs.MatchFacts Proofs.C03Proof.

(* routing through the subscriber tree = the relation sub_match on the registered position *)
Theorem C03_routing :
  forall key (n : snode) sb, wfs n ->
    (In sb (add_matches n key) <-> exists P, In sb (subs_at n P) /\ sub_match P key = true).
Proof. exact add_matches_spec. Qed.
Print Assumptions C03_routing.

(* and for a well-formed pattern that relation is the documented one *)
Theorem C03_routing_is_documented :
  forall p k, wf_pat p = true -> sub_match p k = doc_match p k.
Proof. exact sub_eq_doc. Qed.
Print Assumptions C03_routing_is_documented.

(* one accepted change produces, per registered subscriber whose pattern matches the key, exactly
   the event of that change -- suppressed iff the subscriber is unique and the value did not change *)
Theorem C03_notify_exact :
  forall s path key v changed deleted i ev, wfs (subs s) ->
    (In (i, ev) (notify s path key v changed deleted) <->
     exists sb P, In sb (subs_at (subs s) P) /\ sub_match P path = true /\
                  (changed || negb (s_unique sb)) = true /\
                  i = s_inst sb /\ ev = event_for sb key v deleted).
Proof. exact notify_spec. Qed.
Print Assumptions C03_notify_exact.

(* psubscribe: one new subscriber at its pattern with a fresh channel; the snapshot is pget's
   answer at that moment, put into that channel before anything else; a refused psubscribe
   (ill-formed pattern reached) changes nothing *)
Theorem C03_psubscribe :
  forall s c t pattern unique live, SInv s ->
    match o_res (snd (do_psubscribe s c t pattern unique live)) with
    | RSub inst =>
        inst = next_inst s /\ next_inst (fst (do_psubscribe s c t pattern unique live)) = inst + 1 /\
        SInv (fst (do_psubscribe s c t pattern unique live)) /\
        (forall P x, In x (subs_at (subs (fst (do_psubscribe s c t pattern unique live))) P) <->
                     In x (subs_at (subs s) P) \/
                     (x = Subscriber c t inst (kseg_parse pattern) unique true /\ P = kseg_parse pattern)) /\
        data (fst (do_psubscribe s c t pattern unique live)) = data s /\
        o_events (snd (do_psubscribe s c t pattern unique live)) =
          (if live then []
           else match do_pget s pattern with Ok kvs => [(inst, EPValue kvs)] | Err _ => [] end)
    | RErr code => fst (do_psubscribe s c t pattern unique live) = s /\ live = false /\ do_pget s pattern = Err code
    | _ => False
    end.
Proof. exact psubscribe_spec. Qed.
Print Assumptions C03_psubscribe.

(* known finding F2 in this property's terms: the snapshot of `k/#` contains k, later changes of k
   are not routed to it *)
Theorem C03_F2_refuted :
  exists p k, wf_pat p = true /\ store_match p k = true /\ sub_match p k = false.
Proof. exists [Reg [107]; Multi], [[107]]. vm_compute. auto. Qed.
Print Assumptions C03_F2_refuted.

Example C03_nonvacuous :
  map o_events (run init [OPSubscribe 2 1 [97;47;35] false false; OSet 1 [97;47;98] (JNum [49]) false;
                          OSet 1 [97;47;98] (JNum [49]) false; OUnsubscribe 2 1; OSet 1 [97;47;98] (JNum [50]) false]) =
  [[(0, EPValue [])]; [(0, EPValue [([97;47;98], JNum [49])])]; [(0, EPValue [([97;47;98], JNum [49])])]; []; []].
Proof. vm_compute. reflexivity. Qed.
