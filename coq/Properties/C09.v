(* C09 -- What was flushed is what is loaded.  Statements only; proofs in Proofs/CodecFacts.v,
   Proofs/PersistFacts.v.  The text layer (JSON value <-> file bytes, sha256) is abstracted: a file
   holds a JSON value, a checksum file holds the value it was computed from; what is proved about
   the text layer is in C14, the rest is exercised by the correspondence (file contents compared
   byte for byte). *)
From WB Require Import Base.Str Base.Json Model.Key Model.Consts Model.Store Model.Entry Model.Core
  Model.Persist Proofs.NumFacts Proofs.CodecFacts Proofs.PersistFacts.

(* the stored tree survives its file representation: every key, value, plain/CAS kind and CAS version
   up to u64::MAX -- outside the known class F8 (node_ok) *)
Theorem C09_node_roundtrip : forall n, node_ok n -> dec_node (enc_node n) = Some n.
Proof. exact node_roundtrip. Qed.
Print Assumptions C09_node_roundtrip.

Theorem C09_entry_roundtrip : forall e, entry_ok e -> dec_entry (enc_entry e) = e.
Proof. exact entry_roundtrip. Qed.
Print Assumptions C09_entry_roundtrip.

(* flush, then load (v3 layout, either toggle state, whatever the directory held before): the server
   has the user part of the store at the flush ($SYS stripped) with the grave goods and last wills
   registered at the flush applied, and the directory is left as the flush wrote it *)
Theorem C09_load_flush :
  forall s d, node_ok (strip_sys s_SYS (data s)) ->
    load_v3 (fst (flush None s d)) =
    Some (apply_gglw (core_of (strip_sys s_SYS (data s))) (all_grave_goods s) (all_last_wills s),
          fst (flush None s d)).
Proof. exact load_after_flush. Qed.
Print Assumptions C09_load_flush.

Theorem C09_registrations_roundtrip : forall gg lw, dec_gglw (enc_gglw gg lw) = Some (gg, lw).
Proof. exact gglw_roundtrip. Qed.
Print Assumptions C09_registrations_roundtrip.

(* known finding F8: the two values the ValueEntry file format cannot represent *)
Theorem C09_F8_refuted :
  dec_entry (enc_entry (Plain (JObj [(s_Cas, JArr [JNull; JNum [49]])]))) = Cas JNull 1 /\
  dec_node (enc_node (Node (Some (Plain JNull)) [])) = Some (Node None []).
Proof. split; reflexivity. Qed.
Print Assumptions C09_F8_refuted.

Example C09_nonvacuous :
  let s := final init [OSet 1 [97;47;98] (JStr [120]) false; OCSet 1 [99] (JNum [49]) 0 false] in
  node_ok (strip_sys s_SYS (data s)) /\
  (exists s', load_v3 (fst (flush None s [])) = Some (s', fst (flush None s [])) /\
              do_cget s' [99] = RCValue (JNum [49]) 1 /\ do_get s' [97;47;98] = RValue (JStr [120])).
Proof.
  split.
  - vm_compute. repeat split; try discriminate; lia.
  - eexists. split; [vm_compute; reflexivity|]. split; vm_compute; reflexivity.
Qed.
