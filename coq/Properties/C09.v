(* C09 -- (statements to be added) *)
From WB Require Import Base.Str Model.Persist.
