(* C02 -- compare-and-swap never loses an update. (statements to be added) *)
From WB Require Import Base.Str Model.Key Model.Store Model.Entry Model.Core.
