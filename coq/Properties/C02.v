(* C02 -- Compare-and-swap never loses an update.  Statements only; proofs in Proofs/C02Proof.v. *)
From Coq Require Import NArith List.
Import ListNotations.
From WB Require Import Base.Str Base.Json Model.Key Model.Store Model.Entry Model.Core Model.Conc
  Spec.MapSpec Proofs.CoreFacts Proofs.C01Proof Proofs.C02Proof Proofs.ConcFacts.

(* a cset succeeds iff the version it carries equals the key's current version (0 for an absent
   or plain value) and then raises it by exactly one; otherwise CasVersionMismatch and no change.
   (version u64::MAX excluded: known finding F17) *)
Theorem C02_cset_rule :
  forall s c k v n p, writable c k v p -> n <> u64_max ->
    (o_res (snd (step s (OCSet c k v n false))) = RUnit <-> n = version_at s p) /\
    (o_res (snd (step s (OCSet c k v n false))) = RUnit ->
       abs (fst (step s (OCSet c k v n false))) p = Some (Cas v (n + 1))) /\
    (o_res (snd (step s (OCSet c k v n false))) <> RUnit ->
       o_res (snd (step s (OCSet c k v n false))) = RErr E_CasVersionMismatch /\
       fst (step s (OCSet c k v n false)) = s).
Proof. exact cset_rule. Qed.
Print Assumptions C02_cset_rule.

Theorem C02_set_never_replaces_cas :
  forall s c k v p x vx, writable c k v p -> abs s p = Some (Cas x vx) ->
    step s (OSet c k v false) = (s, out_res (RErr E_Cas)).
Proof. exact set_never_replaces_cas. Qed.
Print Assumptions C02_set_never_replaces_cas.

(* every interleaving of the requests of any number of clients is an operation list *)
Theorem C02_no_lost_update :
  forall p ops s, Inv s -> Forall quiet_op ops -> no_crash (run s ops) ->
    Inv (final s ops) /\ version_at (final s ops) p = version_at s p + accepted_csets p s ops.
Proof. exact no_lost_update. Qed.
Print Assumptions C02_no_lost_update.

Theorem C02_versions_monotone :
  forall p ops s, Inv s -> Forall quiet_op ops -> no_crash (run s ops) ->
    version_at s p <= version_at (final s ops) p.
Proof. exact versions_monotone. Qed.
Print Assumptions C02_versions_monotone.

Theorem C02_one_winner :
  forall s c1 c2 k v1 v2 n p ops,
    Inv s -> writable c1 k v1 p -> writable c2 k v2 p -> n <> u64_max ->
    o_res (snd (step s (OCSet c1 k v1 n false))) = RUnit ->
    Forall quiet_op ops -> no_crash (run (fst (step s (OCSet c1 k v1 n false))) ops) ->
    o_res (snd (step (final (fst (step s (OCSet c1 k v1 n false))) ops) (OCSet c2 k v2 n false)))
      = RErr E_CasVersionMismatch.
Proof. exact one_winner. Qed.
Print Assumptions C02_one_winner.

(* ---- "every interleaving of clients": the tasks and channels around the core (Model/Conc.v) ----
   Every connection is a task that posts one request at a time into the api channel and awaits its answer; one task
   applies them.  Whatever the scheduler does (any list of task steps [es]): the core has applied the requests in the
   order in which they entered the channel, its state is that of their serial run -- so the theorems above, which
   quantify over ALL operation lists, speak about every concurrent execution -- and every client is handed exactly
   the serial run's answers to its own requests, in the order of its requests.  Assumed of the runtime: the channel is
   FIFO; nothing about scheduling. *)
Theorem C02_channel_serializes :
  forall es,
    c_served (crun es) ++ c_api (crun es) = c_posted (crun es) /\
    c_core (crun es) = final init (map snd (c_served (crun es))).
Proof. exact conc_serializes. Qed.
Print Assumptions C02_channel_serializes.

Theorem C02_clients_get_the_serial_answers :
  forall es sn,
    ans_proj (c_wire (crun es) sn) ++ done_of (c_task (crun es) sn) = mine sn (sres init (c_served (crun es))).
Proof. exact conc_answers. Qed.
Print Assumptions C02_clients_get_the_serial_answers.

(* non-vacuity: two clients race for version 0 of one key, the second to post is served second and loses *)
Example C02_race_nonvacuous :
  let es := [CPost 0 (OCSet 1 [107] (JNum [49]) 0 false); CPost 1 (OCSet 2 [107] (JNum [50]) 0 false);
             CServe; CServe; CAnswer 1; CAnswer 0] in
  c_wire (crun es) 0 = [WAns (OCSet 1 [107] (JNum [49]) 0 false) RUnit] /\
  c_wire (crun es) 1 = [WAns (OCSet 2 [107] (JNum [50]) 0 false) (RErr E_CasVersionMismatch)].
Proof. vm_compute. split; reflexivity. Qed.

(* the boundary the hypotheses exclude (F17): at version u64::MAX the model's outcome is a crash *)
Theorem C02_overflow_refuted :
  exists cur v, decide cur (Cas v u64_max) false = DCrash.
Proof. exists (Some (Cas JNull u64_max)), JNull. reflexivity. Qed.
Print Assumptions C02_overflow_refuted.

Example C02_nonvacuous :
  writable 1 [107] (JNum [49]) [[107]] /\ Inv init /\
  o_res (snd (step init (OCSet 1 [107] (JNum [49]) 0 false))) = RUnit.
Proof. split; [|split]; [vm_compute; auto|exact Inv_init|reflexivity]. Qed.
