(* C17 -- No client input takes the server down or disturbs other sessions.
   Statements only.  Every panic site of the modelled code that a request can reach is an explicit
   RCrash outcome of the model's step function (never a default value), so "cannot crash" is a
   theorem about the model and not an artefact of totalisation.  C17_no_request_crashes: along every
   history of requests of EVERY kind (data, publishes, subscriptions, locks, sessions starting and
   ending) no crash branch is taken.  PARTIAL, explicitly: only panic sites in the modelled code are
   covered (store tree, lock tree, insert arithmetic, debug assertions); serde_json, tokio, hashbrown,
   allocation failure and stack depth are exercised by the malformed-input stream of the
   correspondence (debug build), not proved. *)
From WB Require Import Base.Str Base.Json Model.Key Model.Store Model.Entry Model.Core Model.Codec Model.Session
  Proofs.CoreFacts Proofs.C01Proof Proofs.C17Proof Proofs.SessionFacts Proofs.LockHistory Proofs.NoCrash Proofs.WorldCore Model.Rest Model.RestWorld Proofs.WorldRest Model.Conc Proofs.ConcFacts.

Theorem C17_data_request_no_crash :
  forall s o, Inv s -> c01_op o -> import_ok o ->
    (match o with OCSet _ _ _ ver _ => ver <> u64_max | _ => True end) ->
    o_res (snd (step s o)) <> RCrash.
Proof. exact data_request_no_crash. Qed.
Print Assumptions C17_data_request_no_crash.

Theorem C17_data_history_no_crash :
  forall ops s, Inv s -> Forall c01_op ops -> Forall import_ok ops ->
    Forall (fun o => match o with OCSet _ _ _ ver _ => ver <> u64_max | _ => True end) ops ->
    no_crash (run s ops).
Proof. exact data_history_no_crash. Qed.
Print Assumptions C17_data_history_no_crash.

(* every request kind: [safe_op] excludes only a cset carrying version u64::MAX (known finding F17), an import of a
   tree with irregular names, and the nil client id for session start and end (the server hands out the ids);
   [Inv]: the data tree invariant, [LH]: the lock table invariant -- both hold initially and are kept *)
Theorem C17_request_safe :
  forall s o, Inv s -> LH s -> safe_op o ->
    o_res (snd (step s o)) <> RCrash /\ Inv (fst (step s o)) /\ LH (fst (step s o)).
Proof. exact step_safe. Qed.
Print Assumptions C17_request_safe.

Theorem C17_no_request_crashes :
  forall ops, Forall safe_op ops -> nocrash (trace init ops).
Proof. exact no_request_crashes. Qed.
Print Assumptions C17_no_request_crashes.

(* a line that does not decode ends the sender's session only *)
Theorem C17_decode_error_closes_only_sender :
  forall w sn other s, other <> sn -> lookup_n other (w_sess w) = Some s ->
    lookup_n other (w_sess (fst (sstep w (SGarbage sn)))) = Some s.
Proof. exact garbage_closes_only_sender. Qed.
Print Assumptions C17_decode_error_closes_only_sender.

(* a failing request does not end the session of its sender either (C13) *)
Theorem C17_request_keeps_session :
  forall w sn m s, lookup_n sn (w_sess w) = Some s -> is_request m = true ->
    (w_auth_required w = false \/ ss_claims s <> None) ->
    snd (handle w sn m) = Continue.
Proof. exact request_keeps_session. Qed.
Print Assumptions C17_request_keeps_session.

(* the boundary the hypothesis excludes (known finding F17) *)
(* at the level of the sockets (Proofs/WorldCore.v).  [sstep] handles one event of the world -- a line on a socket (decoded
   or garbage), an authorization request, a connection opening or closing; every event runs at most one core request
   ([ops_of], C17_one_core_request_per_event), so the core after any history of events is the core after the history of
   those requests, and none of them crashes: requests of every kind of both protocol versions, with or without
   authorization, from any number of sessions, in any order (the version overflow of F17 excluded by hypothesis) *)
Theorem C17_one_core_request_per_event :
  forall w e, w_core (fst (sstep w e)) = final (w_core w) (ops_of w e).
Proof. exact sstep_core. Qed.
Print Assumptions C17_one_core_request_per_event.

Theorem C17_world_never_crashes :
  forall auth es, Forall ev_ok es ->
    nocrash (trace init (ops_hist (world_init auth) es)) /\ Inv (w_core (wfinal (world_init auth) es)).
Proof. exact world_never_crashes. Qed.
Print Assumptions C17_world_never_crashes.

Example C17_world_nonvacuous :
  let es := [SOpen 0; SOpen 1; SMsg 0 (MSet 1 [97]%N JNull); SGarbage 1; SMsg 1 (MGet 1 [97]%N); SMsg 0 (MCSet 2 [98]%N JNull 7); SAuth 0 None; SClose 0] in
  Forall ev_ok es /\ ops_hist (world_init false) es =
    [OConnected 1; OConnected 2; OSet 1 [97]%N JNull false; ODisconnected 2; OCSet 1 [98]%N JNull 7 false; ODisconnected 1].
Proof. split; [repeat constructor; discriminate|vm_compute; reflexivity]. Qed.

(* both front ends at once (Proofs/WorldRest.v): events of the socket sessions and REST requests, interleaved in any
   order, run on the one core, one request at a time, and none of them crashes it ([wev_ok]: no cSet names the version
   u64::MAX -- F17 --, an imported tree has distinct, regular names) *)
Theorem C17_mixed_never_crashes :
  forall auth xs, Forall wev_ok xs ->
    nocrash (trace init (wops_hist (world_init auth) xs)) /\ Inv (w_core (wfinal' (world_init auth) xs)).
Proof. exact mixed_never_crashes. Qed.
Print Assumptions C17_mixed_never_crashes.

(* ---- the core task never waits on a channel nobody reads (Proofs/ConcFacts.v) ----
   The channels of the code are bounded and the core task awaits room in them.  Every channel has a reader that can
   always make progress (a forwarding task), except the channel of a subscription while the subscribe request itself
   is being served: its receiver travels back with the answer.  What the core puts into it during that request is at
   most ONE item, whatever the size of the store (the snapshot is one message), and the capacity is at least one: the
   core cannot block there.  (Whether a forwarding task makes progress depends on the client reading its socket or the
   send timeout closing it: runtime, exercised by the `bulk` cases with capacity 1, 2 and 4.) *)
Theorem C17_subscribe_fits_its_channel :
  forall s o i, o_res (snd (step s o)) = RSub i -> (length (for_inst i (items_of (snd (step s o)))) <= 1)%nat.
Proof. exact subscribe_fits. Qed.
Print Assumptions C17_subscribe_fits_its_channel.

Theorem C17_overflow_refuted : exists cur v, decide cur (Cas v u64_max) false = DCrash.
Proof. exists (Some (Cas JNull u64_max)), JNull. reflexivity. Qed.
Print Assumptions C17_overflow_refuted.

Example C17_nonvacuous :
  map o_res (run init [OCSet 1 [97;47;98] JNull 5 false; OSet 1 [99] JNull false; ODelete 1 [99]; ORelease 1 [97;47;98];
                       OLock 1 [121]; ORelease 1 [121]; OPDelete 1 [35;47;120]]) =
  [RErr 18; RUnit; RValue JNull; RErr 21; RUnit; RUnit; RErr 1].
Proof. vm_compute. reflexivity. Qed.
