(* C20 -- The client library pairs answers with calls and sends what it was given.
   Statements only.  Model: Model/Client.v (lib.rs TransactionIds, Callbacks, process_incoming_command,
   deliver_*, result conversions; buffer.rs SendBuffer after the fixes of F14 and F15). *)
From WB Require Import Base.Str Base.Json Model.Key Model.Store Model.Match Model.Entry Model.Core Model.Codec Model.Session Model.Client Spec.MapSpec
  Proofs.CoreFacts Proofs.ClientFacts Proofs.EndToEnd.
From Coq Require Import List.
Import ListNotations.
Local Open Scope N_scope.

(* pairing, for every call that gets a transaction id of its own: whatever other calls are made and whatever
   answers to other ids arrive in between (any interleaving, any number), the answer with the call's id reaches
   exactly that call's callback, and the callback is used up *)
Theorem C20_pairing :
  forall c call cmd sl es m,
  slot_of cmd = Some sl -> Forall (no_touch (next_tid c)) es ->
  tid_of_smsg m = Some (next_tid c) -> serves sl m = true ->
  let c1 := fst (fst (on_cmd c call cmd)) in
  let c2 := crun c1 es in
  In (DAnswer call m) (snd (on_msg c2 m)) /\ cb_find (next_tid c) (get_slot sl (fst (on_msg c2 m))) = None.
Proof. exact pairing. Qed.
Print Assumptions C20_pairing.

(* an answer is handed only to the call registered under its id *)
Theorem C20_answer_only_to_registered :
  forall c m call, In (DAnswer call m) (snd (on_msg c m)) ->
  exists sl t, tid_of_smsg m = Some t /\ cb_find t (get_slot sl c) = Some call /\ serves sl m = true.
Proof. exact answer_only_to_registered. Qed.
Print Assumptions C20_answer_only_to_registered.

(* every command with an id of its own sends that id and files its callback under it; ids never repeat *)
Theorem C20_fresh_ids :
  forall c call cmd sl, slot_of cmd = Some sl ->
  let '(c', m, _) := on_cmd c call cmd in
  tid_of_cmsg m = Some (next_tid c) /\ cb_find (next_tid c) (get_slot sl c') = Some call /\ next_tid c' = next_tid c + 1.
Proof. exact cmd_registers. Qed.
Print Assumptions C20_fresh_ids.

(* the unsubscribe commands are translated to the message of their name, with the caller's subscription id
   (UnsubscribeLsAsync used to send Unsubscribe: F15, fixed) -- in EVERY client state c: whether a local event
   callback is filed under that id or not (a subscription made with subscribe_async / psubscribe_async /
   subscribe_ls_async has none) *)
Theorem C20_unsubscribe_translation :
  forall c call t,
  snd (fst (on_cmd c call (CUnsubscribe t))) = MUnsubscribe t /\ snd (fst (on_cmd c call (CUnsubscribeAsync t))) = MUnsubscribe t /\
  snd (fst (on_cmd c call (CUnsubscribeLs t))) = MUnsubscribeLs t /\ snd (fst (on_cmd c call (CUnsubscribeLsAsync t))) = MUnsubscribeLs t.
Proof. intros. repeat split. Qed.
Print Assumptions C20_unsubscribe_translation.

(* known finding F16: the statement fails for spub, which files its callback under the stream's id *)
Theorem C20_spub_refuted : exists c,
  let c1 := fst (fst (on_cmd c 1 (CSPub 7 JNull))) in
  let c2 := fst (fst (on_cmd c1 2 (CSPub 7 JNull))) in
  snd (on_msg c2 (SAck 7)) = [DAnswer 2 (SAck 7)] /\ snd (on_msg (fst (on_msg c2 (SAck 7))) (SAck 7)) = [].
Proof. exact spub_overwrites. Qed.
Print Assumptions C20_spub_refuted.

(* send buffer: the invariant (every buffered key has exactly one sleeping task) holds along every schedule *)
Theorem C20_buffer_invariant :
  forall es s, BI s ->
  (fix wf (s : sbuf) (es : list bevent) : Prop :=
     match es with [] => True | e :: es' => wf_event s e /\ wf (fst (bstep s e)) es' end) s es ->
  BI (fst (brun s es)).
Proof. exact BI_run. Qed.
Print Assumptions C20_buffer_invariant.

(* ... so every buffered value is eventually sent: it has a pending task, and a pending task always sends *)
Theorem C20_buffered_is_sent :
  forall s k key v, BI s -> kb_get key (buf_of k s) = Some v ->
  In (k, key) (sb_timers s) /\
  snd (bstep s (Fire k key)) = [send_of k key v] /\ S (length (sb_timers (fst (bstep s (Fire k key))))) = length (sb_timers s).
Proof.
  intros s k key v HB E. split; [now apply (buffered_has_timer s k key v)|].
  destruct (pending_timer_sends s k key HB (buffered_has_timer s k key v HB E)) as (v' & E' & H1 & H2).
  rewrite E in E'. injection E' as <-. split; assumption.
Qed.
Print Assumptions C20_buffered_is_sent.

(* ... as a set resp. publish of the latest value buffered for its key *)
Theorem C20_latest_value :
  forall s k key v,
  kb_get key (buf_of k (fst (bstep s (Later k key v)))) = Some v /\ snd (bstep s (Later k key v)) = [] /\
  (forall k' key', (k', key') <> (k, key) -> kb_get key' (buf_of k' (fst (bstep s (Later k key v)))) = kb_get key' (buf_of k' s)).
Proof. exact later_latest. Qed.
Print Assumptions C20_latest_value.

(* ... and nothing else is sent *)
Theorem C20_nothing_else_sent : forall es, Forall (handed es) (snd (brun sb_init es)).
Proof. exact nothing_else_sent. Qed.
Print Assumptions C20_nothing_else_sent.

(* ---- "its typed results equal what the server holds": library, session layer and store composed (Proofs/EndToEnd.v) ----
   [round_trip w c sn call cmd]: the command goes through on_cmd, its message through the session's handler, every
   message the server puts on this session's wire through on_msg, in order.  [served]: the session is open and no token
   is required; [Fresh c]: no callback filed under an id not handed out yet (an invariant: C20_fresh_invariant);
   [no_channels w sn]: this session has no subscription and no waiting acquire (their traffic would share the wire). *)

(* every awaited call that the server answers in the same step -- set, cset, get, cget, pget, delete, pdelete, ls, pls,
   publish, spub_init, lock, release_lock --: exactly one delivery reaches the application, it is the answer to this
   call, it carries the one terminal message the protocol assigns to the request, and the callback is used up *)
Theorem C20_call_end_to_end :
  forall w c sn s call cmd sl o,
  served w sn s -> Fresh c -> no_channels w sn -> plain_call cmd = true -> slot_of cmd = Some sl ->
  let m := snd (fst (on_cmd c call cmd)) in
  op_of (cid_of sn) m = Some o -> (N.eqb (ss_proto s) 0 && v1_only m)%bool = false ->
  o_res (snd (step (w_core w) o)) <> RCrash ->
  let '(w1, c2, ds, v) := round_trip w c sn call cmd in
  w_core w1 = fst (step (w_core w) o) /\ v = Continue /\
  exists a, answer m (o_res (snd (step (w_core w) o))) = [a] /\ ds = [DAnswer call a] /\
            cb_find (next_tid c) (get_slot sl c2) = None.
Proof. exact call_end_to_end. Qed.
Print Assumptions C20_call_end_to_end.

(* get: the value the store holds, None where it holds none, the key's own error where the key is ill-formed
   (also with subscriptions open on the session: a read causes no traffic) *)
Theorem C20_get_returns_what_the_store_holds :
  forall w c sn s call k, served w sn s -> Fresh c ->
  let '(w1, c2, ds, v) := round_trip w c sn call (CGet k) in
  w_core w1 = w_core w /\ v = Continue /\
  exists sm, ds = [DAnswer call sm] /\ tid_of_smsg sm = Some (next_tid c) /\
             result_of (CGet k) sm = get_spec (abs (w_core w)) k /\ cb_find (next_tid c) (state c2) = None.
Proof. exact get_end_to_end. Qed.
Print Assumptions C20_get_returns_what_the_store_holds.

Theorem C20_cget_returns_value_and_version :
  forall w c sn s call k, served w sn s -> ss_proto s = 1%N -> Fresh c -> no_channels w sn ->
  let '(w1, c2, ds, v) := round_trip w c sn call (CCGet k) in
  w_core w1 = w_core w /\ v = Continue /\ result_in ds (CCGet k) call = cget_spec (abs (w_core w)) k.
Proof. exact cget_end_to_end. Qed.
Print Assumptions C20_cget_returns_value_and_version.

Theorem C20_pget_returns_the_matching_entries :
  forall w c sn s call pat, served w sn s -> Fresh c -> no_channels w sn -> Inv (w_core w) ->
  let '(w1, c2, ds, v) := round_trip w c sn call (CPGet pat) in
  w_core w1 = w_core w /\ v = Continue /\
  match result_in ds (CPGet pat) call with
  | CRKvs l => forall k x, In (k, x) l <-> exists q e, k = join slash q /\ x = entry_val e /\ abs (w_core w) q = Some e /\ store_match (kseg_parse pat) q = true
  | CRErr code => code = E_IllegalMultiWildcard /\ wf_pat (kseg_parse pat) = false
  | _ => False
  end.
Proof. exact pget_end_to_end. Qed.
Print Assumptions C20_pget_returns_the_matching_entries.

Theorem C20_set_ok_means_stored :
  forall w c sn s call k x, served w sn s -> Fresh c -> no_channels w sn -> Inv (w_core w) ->
  let '(w1, c2, ds, v) := round_trip w c sn call (CSet k x) in
  v = Continue /\
  match result_in ds (CSet k x) call with
  | CROk => exists p, parse_segments k = Ok p /\ meq (abs (w_core w1)) (m_set (abs (w_core w)) p (Plain x))
  | CRErr _ => w_core w1 = w_core w
  | _ => False
  end.
Proof. exact set_end_to_end. Qed.
Print Assumptions C20_set_ok_means_stored.

Theorem C20_delete_returns_what_it_removed :
  forall w c sn s call k, served w sn s -> Fresh c -> no_channels w sn -> Inv (w_core w) ->
  let '(w1, c2, ds, v) := round_trip w c sn call (CDelete k) in
  v = Continue /\
  match result_in ds (CDelete k) call with
  | CRVal x => exists p e, parse_segments k = Ok p /\ abs (w_core w) p = Some e /\ x = entry_val e /\ meq (abs (w_core w1)) (m_del (abs (w_core w)) p)
  | CRNone | CRErr _ => meq (abs (w_core w1)) (abs (w_core w))
  | _ => False
  end.
Proof. exact delete_end_to_end. Qed.
Print Assumptions C20_delete_returns_what_it_removed.

(* subscriptions: from the core's channel to the application's stream.  What a subscription's channel carries is C03's
   business (C03_stream_all: exactly one event per accepted change that concerns it, in order); the session layer turns
   the events of that channel, one by one and in order, into State messages under the subscribe request's id and nothing
   else into such messages -- provided no second channel is filed under the same session and id (known finding F24) --,
   and the library hands each of them to the subscription's stream and to nothing else, its bookkeeping unchanged *)
Theorem C20_channel_to_wire :
  forall w o sn tid inst,
  lookup_n inst (w_chan w) = Some (sn, tid, KState) -> sess_open w sn = true ->
  (forall inst' k', lookup_n inst' (w_chan w) = Some (sn, tid, k') -> inst' = inst) ->
  filter (to_sub sn tid) (route_events w o) =
  flat_map (fun e => match state_msg tid e with Some m => [(sn, m)] | None => [] end) (Proofs.StreamProof.chan inst (o_events o)).
Proof. exact channel_to_wire. Qed.
Print Assumptions C20_channel_to_wire.

Theorem C20_wire_to_stream :
  forall c tid call x, cb_find tid (sub c) = Some call -> cb_find tid (state c) = None ->
    on_msg c (SState tid x) = (c, [DEvent call (SState tid x)]).
Proof. exact wire_to_stream. Qed.
Print Assumptions C20_wire_to_stream.

Theorem C20_fresh_invariant :
  Fresh cinit /\
  (forall c m, Fresh c -> Fresh (fst (on_msg c m))) /\
  (forall c call cmd, Fresh c -> (key_tid c cmd < next_tid c + 1)%N -> Fresh (fst (fst (on_cmd c call cmd)))).
Proof. split; [exact Fresh_init|]. split; [exact Fresh_msg|exact Fresh_cmd]. Qed.
Print Assumptions C20_fresh_invariant.

Example C20_end_to_end_nonvacuous :
  let w0 := fst (open_session (world_init false) 0%N) in
  let '(w1, c1, d1, _) := round_trip w0 cinit 0%N 1%N (CSet [97]%N (JNum [49]%N)) in
  let '(w2, c2, d2, _) := round_trip w1 c1 0%N 2%N (CGet [97]%N) in
  let '(w3, c3, d3, _) := round_trip w2 c2 0%N 3%N (CCGet [98]%N) in
  result_in d1 (CSet [97]%N (JNum [49]%N)) 1%N = CROk /\ result_in d2 (CGet [97]%N) 2%N = CRVal (JNum [49]%N) /\ result_in d3 (CCGet [98]%N) 3%N = CRNone /\
  next_tid c3 = 4%N.
Proof. exact round_trip_demo. Qed.

(* a subscription made through the ticket API files no callback; its fire-and-forget unsubscribe is sent all the same *)
Example C20_unsubscribe_of_ticket_subscription :
  let '(c1, m1, t1) := on_cmd cinit 1 (CSubscribeAsync [97] false false) in
  let '(c2, m2, t2) := on_cmd c1 2 (CSubscribeLsAsync None) in
  sub c2 = [] /\ subls c2 = [] /\ t1 = Ticket 1 /\ t2 = Ticket 2 /\
  snd (fst (on_cmd c2 3 (CUnsubscribeAsync 1))) = MUnsubscribe 1 /\
  snd (fst (on_cmd c2 3 (CUnsubscribeLsAsync 2))) = MUnsubscribeLs 2.
Proof. vm_compute. repeat split; reflexivity. Qed.

Example C20_nonvacuous :
  snd (brun sb_init [Later BSet [107] (JBool true); Later BPub [107] JNull; Later BSet [107] (JBool false); Fire BPub [107]; Fire BSet [107]]) =
  [SendPublish [107] JNull; SendSet [107] (JBool false)] /\
  (let c1 := fst (fst (on_cmd cinit 10 (CGet [97]))) in
   let c2 := fst (fst (on_cmd c1 11 (CGet [98]))) in
   snd (on_msg c2 (SState 2 (SValue JNull))) = [DAnswer 11 (SState 2 (SValue JNull))] /\
   snd (on_msg (fst (on_msg c2 (SState 2 (SValue JNull)))) (SErr 1 5 [])) = [DAnswer 10 (SErr 1 5 [])]).
Proof. vm_compute. repeat split; reflexivity. Qed.
