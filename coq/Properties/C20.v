(* C20 -- The client library pairs answers with calls and sends what it was given.
   Statements only.  Model: Model/Client.v (lib.rs TransactionIds, Callbacks, process_incoming_command,
   deliver_*, result conversions; buffer.rs SendBuffer after the fixes of F14 and F15). *)
From WB Require Import Base.Str Base.Json Model.Codec Model.Client Proofs.ClientFacts.
From Coq Require Import List.
Import ListNotations.
Local Open Scope N_scope.

(* pairing, for every call that gets a transaction id of its own: whatever other calls are made and whatever
   answers to other ids arrive in between (any interleaving, any number), the answer with the call's id reaches
   exactly that call's callback, and the callback is used up *)
Theorem C20_pairing :
  forall c call cmd sl es m,
  slot_of cmd = Some sl -> Forall (no_touch (next_tid c)) es ->
  tid_of_smsg m = Some (next_tid c) -> serves sl m = true ->
  let c1 := fst (fst (on_cmd c call cmd)) in
  let c2 := crun c1 es in
  In (DAnswer call m) (snd (on_msg c2 m)) /\ cb_find (next_tid c) (get_slot sl (fst (on_msg c2 m))) = None.
Proof. exact pairing. Qed.
Print Assumptions C20_pairing.

(* an answer is handed only to the call registered under its id *)
Theorem C20_answer_only_to_registered :
  forall c m call, In (DAnswer call m) (snd (on_msg c m)) ->
  exists sl t, tid_of_smsg m = Some t /\ cb_find t (get_slot sl c) = Some call /\ serves sl m = true.
Proof. exact answer_only_to_registered. Qed.
Print Assumptions C20_answer_only_to_registered.

(* every command with an id of its own sends that id and files its callback under it; ids never repeat *)
Theorem C20_fresh_ids :
  forall c call cmd sl, slot_of cmd = Some sl ->
  let '(c', m, _) := on_cmd c call cmd in
  tid_of_cmsg m = Some (next_tid c) /\ cb_find (next_tid c) (get_slot sl c') = Some call /\ next_tid c' = next_tid c + 1.
Proof. exact cmd_registers. Qed.
Print Assumptions C20_fresh_ids.

(* the unsubscribe commands are translated to the message of their name, with the caller's subscription id
   (UnsubscribeLsAsync used to send Unsubscribe: F15, fixed) -- in EVERY client state c: whether a local event
   callback is filed under that id or not (a subscription made with subscribe_async / psubscribe_async /
   subscribe_ls_async has none) *)
Theorem C20_unsubscribe_translation :
  forall c call t,
  snd (fst (on_cmd c call (CUnsubscribe t))) = MUnsubscribe t /\ snd (fst (on_cmd c call (CUnsubscribeAsync t))) = MUnsubscribe t /\
  snd (fst (on_cmd c call (CUnsubscribeLs t))) = MUnsubscribeLs t /\ snd (fst (on_cmd c call (CUnsubscribeLsAsync t))) = MUnsubscribeLs t.
Proof. intros. repeat split. Qed.
Print Assumptions C20_unsubscribe_translation.

(* known finding F16: the statement fails for spub, which files its callback under the stream's id *)
Theorem C20_spub_refuted : exists c,
  let c1 := fst (fst (on_cmd c 1 (CSPub 7 JNull))) in
  let c2 := fst (fst (on_cmd c1 2 (CSPub 7 JNull))) in
  snd (on_msg c2 (SAck 7)) = [DAnswer 2 (SAck 7)] /\ snd (on_msg (fst (on_msg c2 (SAck 7))) (SAck 7)) = [].
Proof. exact spub_overwrites. Qed.
Print Assumptions C20_spub_refuted.

(* send buffer: the invariant (every buffered key has exactly one sleeping task) holds along every schedule *)
Theorem C20_buffer_invariant :
  forall es s, BI s ->
  (fix wf (s : sbuf) (es : list bevent) : Prop :=
     match es with [] => True | e :: es' => wf_event s e /\ wf (fst (bstep s e)) es' end) s es ->
  BI (fst (brun s es)).
Proof. exact BI_run. Qed.
Print Assumptions C20_buffer_invariant.

(* ... so every buffered value is eventually sent: it has a pending task, and a pending task always sends *)
Theorem C20_buffered_is_sent :
  forall s k key v, BI s -> kb_get key (buf_of k s) = Some v ->
  In (k, key) (sb_timers s) /\
  snd (bstep s (Fire k key)) = [send_of k key v] /\ S (length (sb_timers (fst (bstep s (Fire k key))))) = length (sb_timers s).
Proof.
  intros s k key v HB E. split; [now apply (buffered_has_timer s k key v)|].
  destruct (pending_timer_sends s k key HB (buffered_has_timer s k key v HB E)) as (v' & E' & H1 & H2).
  rewrite E in E'. injection E' as <-. split; assumption.
Qed.
Print Assumptions C20_buffered_is_sent.

(* ... as a set resp. publish of the latest value buffered for its key *)
Theorem C20_latest_value :
  forall s k key v,
  kb_get key (buf_of k (fst (bstep s (Later k key v)))) = Some v /\ snd (bstep s (Later k key v)) = [] /\
  (forall k' key', (k', key') <> (k, key) -> kb_get key' (buf_of k' (fst (bstep s (Later k key v)))) = kb_get key' (buf_of k' s)).
Proof. exact later_latest. Qed.
Print Assumptions C20_latest_value.

(* ... and nothing else is sent *)
Theorem C20_nothing_else_sent : forall es, Forall (handed es) (snd (brun sb_init es)).
Proof. exact nothing_else_sent. Qed.
Print Assumptions C20_nothing_else_sent.

(* a subscription made through the ticket API files no callback; its fire-and-forget unsubscribe is sent all the same *)
Example C20_unsubscribe_of_ticket_subscription :
  let '(c1, m1, t1) := on_cmd cinit 1 (CSubscribeAsync [97] false false) in
  let '(c2, m2, t2) := on_cmd c1 2 (CSubscribeLsAsync None) in
  sub c2 = [] /\ subls c2 = [] /\ t1 = Ticket 1 /\ t2 = Ticket 2 /\
  snd (fst (on_cmd c2 3 (CUnsubscribeAsync 1))) = MUnsubscribe 1 /\
  snd (fst (on_cmd c2 3 (CUnsubscribeLsAsync 2))) = MUnsubscribeLs 2.
Proof. vm_compute. repeat split; reflexivity. Qed.

Example C20_nonvacuous :
  snd (brun sb_init [Later BSet [107] (JBool true); Later BPub [107] JNull; Later BSet [107] (JBool false); Fire BPub [107]; Fire BSet [107]]) =
  [SendPublish [107] JNull; SendSet [107] (JBool false)] /\
  (let c1 := fst (fst (on_cmd cinit 10 (CGet [97]))) in
   let c2 := fst (fst (on_cmd c1 11 (CGet [98]))) in
   snd (on_msg c2 (SState 2 (SValue JNull))) = [DAnswer 11 (SState 2 (SValue JNull))] /\
   snd (on_msg (fst (on_msg c2 (SState 2 (SValue JNull)))) (SErr 1 5 [])) = [DAnswer 10 (SErr 1 5 [])]).
Proof. vm_compute. repeat split; reflexivity. Qed.
