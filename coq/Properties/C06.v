(* C06 -- A key lock has one holder, is handed over first-come and dies with its session.
   Statements only; proofs in Proofs/LockFacts.v.  The lock table is the function
   [labs s : key path -> option lock]; a lock is (holder, waiting clients in order with
   their pending acquire requests), so "at most one holder per key" holds by construction and
   the theorems say how each request changes that function and which requests it confirms. *)
From WB Require Import Base.Str Base.Json Model.Key Model.Store Model.Core Proofs.StoreFacts Proofs.LockFacts Proofs.LockHistory Proofs.NoCrash Proofs.Unconditional Model.Codec Model.Session Proofs.WorldCore Proofs.WorldLocks.

(* lock succeeds only on a free key or for the current holder; a refused lock changes nothing *)
Theorem C06_lock_ok_iff_free_or_mine :
  forall s c k p, parse_segments k = Ok p -> LInv s ->
    LInv (fst (do_lock s c k)) /\
    match labs s p with
    | None => o_res (snd (do_lock s c k)) = RUnit /\
              (forall q, labs (fst (do_lock s c k)) q = if path_eqb p q then Some (Lock c []) else labs s q)
    | Some lk =>
        (forall q, labs (fst (do_lock s c k)) q = labs s q) /\
        (if N.eqb c (holder lk) then o_res (snd (do_lock s c k)) = RUnit
         else o_res (snd (do_lock s c k)) = RErr E_KeyIsLocked)
    end /\
    o_granted (snd (do_lock s c k)) = [] /\ o_cancelled (snd (do_lock s c k)) = [].
Proof. exact do_lock_spec. Qed.
Print Assumptions C06_lock_ok_iff_free_or_mine.

(* an acquire request gets a fresh id; it is confirmed at once exactly when the key is free or
   already held by the requester, otherwise the client is queued (behind everybody who asked
   before, at its old place if it already waits) and nothing is confirmed *)
Theorem C06_acquire :
  forall s c k p, parse_segments k = Ok p -> LInv s ->
    LInv (fst (do_acquire s c k)) /\ o_res (snd (do_acquire s c k)) = RReq (next_req s) /\
    next_req (fst (do_acquire s c k)) = next_req s + 1 /\ o_cancelled (snd (do_acquire s c k)) = [] /\
    match labs s p with
    | None => o_granted (snd (do_acquire s c k)) = [next_req s] /\
              (forall q, labs (fst (do_acquire s c k)) q = if path_eqb p q then Some (Lock c []) else labs s q)
    | Some lk =>
        if N.eqb c (holder lk)
        then o_granted (snd (do_acquire s c k)) = [next_req s] /\ (forall q, labs (fst (do_acquire s c k)) q = labs s q)
        else o_granted (snd (do_acquire s c k)) = [] /\
             (forall q, labs (fst (do_acquire s c k)) q =
                        if path_eqb p q then Some (Lock (holder lk) (queue_cand c (next_req s) (cands lk))) else labs s q)
    end.
Proof. exact do_acquire_spec. Qed.
Print Assumptions C06_acquire.

Theorem C06_fifo_queue :
  forall c r l, map fst (queue_cand c r l) = if has_client c l then map fst l else map fst l ++ [c].
Proof. exact queue_cand_order. Qed.
Print Assumptions C06_fifo_queue.

(* release (also the per-key step of a session end): only the holder frees the lock; it passes to
   the first waiting client, whose pending requests -- and only those -- are confirmed; a release
   by anyone else leaves the holder in place, removes that client from the queue and cancels its
   pending requests; other keys are untouched *)
Theorem C06_release :
  forall l c p, wfn l ->
    let '(l', r, granted, cancelled, crash) := unlock l c p in
    wfn l' /\
    match lookup l p with
    | None => r = Err E_KeyIsNotLocked /\ granted = [] /\ cancelled = [] /\ l' = l
    | Some lk =>
        if N.eqb c (holder lk) then
          cancelled = [] /\
          match cands lk with
          | [] => r = Ok None /\ granted = [] /\
                  (forall q, lookup l' q = if path_eqb p q then None else lookup l q)
          | (c', rs) :: rest =>
              r = Ok (Some c') /\ granted = rs /\ crash = false /\
              (forall q, lookup l' q = if path_eqb p q then Some (Lock c' rest) else lookup l q)
          end
        else
          r = Err E_KeyIsLocked /\ granted = [] /\ crash = false /\
          cancelled = flat_map (fun cr => if N.eqb (fst cr) c then snd cr else []) (cands lk) /\
          (forall q, lookup l' q =
                     if path_eqb p q
                     then Some (Lock (holder lk) (filter (fun cr => negb (N.eqb (fst cr) c)) (cands lk)))
                     else lookup l q)
    end.
Proof. exact unlock_spec. Qed.
Print Assumptions C06_release.

(* ---- whole histories (Proofs/LockHistory.v) ----
   [cline s q] is the line of key q in state s: the holder first, then the waiting clients in the order
   in which they first asked; [cpend s q c r] says that acquire request r of client c on key q is
   waiting for its confirmation.  [final init ops] ranges over every reachable state: ops is any list of
   requests of any kind from any clients, session starts and session ends included. *)

(* the lines of all keys evolve like the abstract machine [astep], and like nothing else: a lock on a free
   key starts its line, an acquire appends its client unless it stands in the line already, a release or a
   session end removes exactly that client (so the next in line holds the key, and a release by somebody
   else leaves the holder in place), no other request of any kind changes any line *)
Theorem C06_lines_follow_the_queue :
  forall ops q, cline (final init ops) q = fold_left astep ops (fun _ => []) q.
Proof. exact line_refines. Qed.
Print Assumptions C06_lines_follow_the_queue.

(* nobody stands in a line twice: the holder does not wait for itself, one holder per key *)
Theorem C06_no_client_twice_in_line : forall ops q, NoDup (cline (final init ops) q).
Proof. exact reach_nodup. Qed.
Print Assumptions C06_no_client_twice_in_line.

(* every id handed out by an acquire is confirmed or cancelled at most once over the whole history, never
   both; a resolved id is pending nowhere; every other id handed out so far is still pending *)
Theorem C06_confirm_once :
  forall ops, nocrash (trace init ops) ->
    let s := final init ops in let R := resolved (trace init ops) in
    NoDup R /\
    (forall r, In r R -> r < next_req s /\ forall q c, ~ cpend s q c r) /\
    (forall r, r < next_req s -> In r R \/ exists q c, cpend s q c r).
Proof. exact confirm_once. Qed.
Print Assumptions C06_confirm_once.

(* the same without the crash hypothesis: no safe request crashes (C17_no_request_crashes) *)
Theorem C06_confirm_once_safe :
  forall ops, Forall safe_op ops ->
    let s := final init ops in let R := resolved (trace init ops) in
    NoDup R /\
    (forall r, In r R -> r < next_req s /\ forall q c, ~ cpend s q c r) /\
    (forall r, r < next_req s -> In r R \/ exists q c, cpend s q c r).
Proof. exact confirm_once_safe. Qed.
Print Assumptions C06_confirm_once_safe.

(* a confirmation goes to the client that holds the key after the step (a waiting request's client, or the
   requester of this very step) ... *)
Theorem C06_confirmed_is_holder :
  forall ops o, is_crash (snd (step (final init ops) o)) = false ->
    forall r, In r (o_granted (snd (step (final init ops) o))) ->
      exists q c, (cpend (final init ops) q c r \/ new_req (final init ops) o q c r) /\
                  hd_error (cline (fst (step (final init ops) o)) q) = Some c.
Proof. exact granted_is_holder. Qed.
Print Assumptions C06_confirmed_is_holder.

(* ... and it comes exactly in the step in which the waiting client becomes the holder *)
Theorem C06_holder_is_confirmed :
  forall ops o, is_crash (snd (step (final init ops) o)) = false ->
    forall q c r, cpend (final init ops) q c r ->
      hd_error (cline (fst (step (final init ops) o)) q) = Some c ->
      In r (o_granted (snd (step (final init ops) o))).
Proof. exact holder_is_granted. Qed.
Print Assumptions C06_holder_is_confirmed.

(* a request is cancelled only by its own client's release or session end, which takes the client out of
   the line; and whenever a waiting client leaves the line its pending requests are cancelled *)
Theorem C06_cancelled_has_left :
  forall ops o, is_crash (snd (step (final init ops) o)) = false ->
    forall r, In r (o_cancelled (snd (step (final init ops) o))) ->
      exists q c, actor o = Some c /\ cpend (final init ops) q c r /\
                  ~ In c (cline (fst (step (final init ops) o)) q).
Proof. exact cancelled_has_left. Qed.
Print Assumptions C06_cancelled_has_left.

Theorem C06_left_is_cancelled :
  forall ops o, is_crash (snd (step (final init ops) o)) = false ->
    forall q c r, cpend (final init ops) q c r ->
      ~ In c (cline (fst (step (final init ops) o)) q) ->
      In r (o_cancelled (snd (step (final init ops) o))).
Proof. exact left_is_cancelled. Qed.
Print Assumptions C06_left_is_cancelled.

(* a request that a step neither confirms nor cancels stays pending for the same client on the same key *)
Theorem C06_pending_stays :
  forall ops o, is_crash (snd (step (final init ops) o)) = false ->
    forall q c r, cpend (final init ops) q c r ->
      ~ In r (o_granted (snd (step (final init ops) o)) ++ o_cancelled (snd (step (final init ops) o))) ->
      cpend (fst (step (final init ops) o)) q c r.
Proof. exact pending_stays. Qed.
Print Assumptions C06_pending_stays.

(* the debug assertion in Store::unlock (lock tree clean after the removal) holds in every reachable state *)
Theorem C06_release_never_crashes :
  forall ops c k, o_res (snd (do_release (final init ops) c k)) <> RCrash.
Proof. exact release_never_crashes. Qed.
Print Assumptions C06_release_never_crashes.

(* non-vacuity of the history theorems: three clients, a session end in the middle of the line *)
Example C06_history_nonvacuous :
  let ops := [OLock 1 [107]; OAcquire 2 [107]; OAcquire 3 [107]; OAcquire 4 [107]; OAcquire 3 [107];
              ODisconnected 2; ORelease 1 [107]; OSet 9 [120] JNull false; ORelease 3 [107]] in
  cline (final init ops) [[107]] = [4] /\ fold_left astep ops (fun _ => []) [[107]] = [4] /\
  resolved (trace init ops) = [0; 1; 3; 2] /\ next_req (final init ops) = 4 /\
  forallb (fun o => negb (is_crash o)) (trace init ops) = true.
Proof. vm_compute. repeat split; reflexivity. Qed.

(* non-vacuity: lock, two waiters, hand-over in order *)
(* at the level of the sockets (Proofs/WorldCore.v, WorldLocks.v): over any history of events of a world -- lines of
   every kind on any number of sessions, connections opening and closing -- the request ids resolved so far are pairwise
   different, none of them is pending any more, every other id handed out still is; and the deferred answers of a step
   are at most one message per id resolved in that step (C06_deferred_one_per_id), addressed through the table that
   remembers who asked.  So no acquire is answered twice, or both confirmed and cancelled. *)
Theorem C06_world_confirm_once :
  forall auth es, Forall ev_ok es ->
    let ops := ops_hist (world_init auth) es in
    let s := w_core (wfinal (world_init auth) es) in
    let R := resolved (trace init ops) in
    NoDup R /\
    (forall r, In r R -> (r < next_req s)%N /\ forall q c, ~ cpend s q c r) /\
    (forall r, (r < next_req s)%N -> In r R \/ exists q c, cpend s q c r).
Proof. exact world_confirm_once. Qed.
Print Assumptions C06_world_confirm_once.

Theorem C06_deferred_one_per_id :
  forall w o, (exists evs, route_events w o = evs ++ deferred w o) /\
              (length (deferred w o) <= length (o_granted o ++ o_cancelled o))%nat.
Proof. intros w o. split; [apply route_events_deferred|apply deferred_length]. Qed.
Print Assumptions C06_deferred_one_per_id.

Example C06_world_nonvacuous :
  let es := [SOpen 0; SOpen 1; SOpen 2; SMsg 0 (MLock 1 [108]%N); SMsg 1 (MAcquireLock 1 [108]%N); SMsg 2 (MAcquireLock 1 [108]%N);
             SMsg 0 (MReleaseLock 2 [108]%N); SClose 2]%N in
  resolved (trace init (ops_hist (world_init false) es)) = [0; 1]%N /\
  snd (sstep (wfinal (world_init false) (firstn 6 es)) (SMsg 0 (MReleaseLock 2 [108]%N))) = [(1, SAck 1); (0, SAck 2)]%N.
Proof. exact world_confirm_once_demo. Qed.

Example C06_nonvacuous :
  map (fun o => (o_res o, o_granted o, o_cancelled o))
      (run init [OLock 1 [107]; OAcquire 2 [107]; OAcquire 3 [107]; ORelease 3 [107]; ORelease 1 [107]; ODisconnected 2]) =
  [(RUnit, [], []); (RReq 0, [], []); (RReq 1, [], []); (RErr 20, [], [1]); (RUnit, [0], []); (RUnit, [], [])].
Proof. vm_compute. reflexivity. Qed.
