(* C06 -- A key lock has one holder, is handed over first-come and dies with its session.
   Statements only; proofs in Proofs/LockFacts.v.  The lock table is the function
   [labs s : key path -> option lock]; a lock is (holder, waiting clients in order with
   their pending acquire requests), so "at most one holder per key" holds by construction and
   the theorems say how each request changes that function and which requests it confirms. *)
From WB Require Import Base.Str Model.Key Model.Store Model.Core Proofs.StoreFacts Proofs.LockFacts.

(* lock succeeds only on a free key or for the current holder; a refused lock changes nothing *)
Theorem C06_lock_ok_iff_free_or_mine :
  forall s c k p, parse_segments k = Ok p -> LInv s ->
    LInv (fst (do_lock s c k)) /\
    match labs s p with
    | None => o_res (snd (do_lock s c k)) = RUnit /\
              (forall q, labs (fst (do_lock s c k)) q = if path_eqb p q then Some (Lock c []) else labs s q)
    | Some lk =>
        (forall q, labs (fst (do_lock s c k)) q = labs s q) /\
        (if N.eqb c (holder lk) then o_res (snd (do_lock s c k)) = RUnit
         else o_res (snd (do_lock s c k)) = RErr E_KeyIsLocked)
    end /\
    o_granted (snd (do_lock s c k)) = [] /\ o_cancelled (snd (do_lock s c k)) = [].
Proof. exact do_lock_spec. Qed.
Print Assumptions C06_lock_ok_iff_free_or_mine.

(* an acquire request gets a fresh id; it is confirmed at once exactly when the key is free or
   already held by the requester, otherwise the client is queued (behind everybody who asked
   before, at its old place if it already waits) and nothing is confirmed *)
Theorem C06_acquire :
  forall s c k p, parse_segments k = Ok p -> LInv s ->
    LInv (fst (do_acquire s c k)) /\ o_res (snd (do_acquire s c k)) = RReq (next_req s) /\
    next_req (fst (do_acquire s c k)) = next_req s + 1 /\ o_cancelled (snd (do_acquire s c k)) = [] /\
    match labs s p with
    | None => o_granted (snd (do_acquire s c k)) = [next_req s] /\
              (forall q, labs (fst (do_acquire s c k)) q = if path_eqb p q then Some (Lock c []) else labs s q)
    | Some lk =>
        if N.eqb c (holder lk)
        then o_granted (snd (do_acquire s c k)) = [next_req s] /\ (forall q, labs (fst (do_acquire s c k)) q = labs s q)
        else o_granted (snd (do_acquire s c k)) = [] /\
             (forall q, labs (fst (do_acquire s c k)) q =
                        if path_eqb p q then Some (Lock (holder lk) (queue_cand c (next_req s) (cands lk))) else labs s q)
    end.
Proof. exact do_acquire_spec. Qed.
Print Assumptions C06_acquire.

Theorem C06_fifo_queue :
  forall c r l, map fst (queue_cand c r l) = if has_client c l then map fst l else map fst l ++ [c].
Proof. exact queue_cand_order. Qed.
Print Assumptions C06_fifo_queue.

(* release (also the per-key step of a session end): only the holder frees the lock; it passes to
   the first waiting client, whose pending requests -- and only those -- are confirmed; a release
   by anyone else leaves the holder in place, removes that client from the queue and cancels its
   pending requests; other keys are untouched *)
Theorem C06_release :
  forall l c p, wfn l ->
    let '(l', r, granted, cancelled, crash) := unlock l c p in
    wfn l' /\
    match lookup l p with
    | None => r = Err E_KeyIsNotLocked /\ granted = [] /\ cancelled = [] /\ l' = l
    | Some lk =>
        if N.eqb c (holder lk) then
          cancelled = [] /\
          match cands lk with
          | [] => r = Ok None /\ granted = [] /\
                  (forall q, lookup l' q = if path_eqb p q then None else lookup l q)
          | (c', rs) :: rest =>
              r = Ok (Some c') /\ granted = rs /\ crash = false /\
              (forall q, lookup l' q = if path_eqb p q then Some (Lock c' rest) else lookup l q)
          end
        else
          r = Err E_KeyIsLocked /\ granted = [] /\ crash = false /\
          cancelled = flat_map (fun cr => if N.eqb (fst cr) c then snd cr else []) (cands lk) /\
          (forall q, lookup l' q =
                     if path_eqb p q
                     then Some (Lock (holder lk) (filter (fun cr => negb (N.eqb (fst cr) c)) (cands lk)))
                     else lookup l q)
    end.
Proof. exact unlock_spec. Qed.
Print Assumptions C06_release.

(* non-vacuity: lock, two waiters, hand-over in order *)
Example C06_nonvacuous :
  map (fun o => (o_res o, o_granted o, o_cancelled o))
      (run init [OLock 1 [107]; OAcquire 2 [107]; OAcquire 3 [107]; ORelease 3 [107]; ORelease 1 [107]; ODisconnected 2]) =
  [(RUnit, [], []); (RReq 0, [], []); (RReq 1, [], []); (RErr 20, [], [1]); (RUnit, [0], []); (RUnit, [], [])].
Proof. vm_compute. reflexivity. Qed.
