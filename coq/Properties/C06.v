(* C06 -- key locks. (statements to be added) *)
From WB Require Import Base.Str Model.Key Model.Store Model.Core.
