(* C07 -- session end. (statements to be added) *)
From WB Require Import Base.Str Model.Key Model.Store Model.Core.
