(* C07 -- Session end buries grave goods, publishes the last will, cleans up, nothing else.
   Statements only.  The model's do_disconnected is the ordered composition the code performs
   (worterbuch.rs:1220-1378).  Proved here: the publish streams of the client are gone after any
   non-crashing session end; the burial and the last will are ordinary pdelete / forced set
   requests issued under the client's own id (so C01/C04/C08 apply to each of them); the
   registrations used are decoded from the values stored last.  PARTIAL: the closed form
   "state after = lastwill . bury . drop_sys (state before)" and the removal of subscriptions and
   locks are validated by the correspondence and the session-end oracle, not yet proved in Coq. *)
From WB Require Import Base.Str Base.Json Model.Key Model.Consts Model.Store Model.Entry Model.Core Proofs.C07Proof.

Theorem C07_publish_streams_die_with_session :
  forall s c, o_res (snd (do_disconnected s c)) <> RCrash ->
    forall id k, In (id, k) (spub_keys (fst (do_disconnected s c))) -> fst id <> c.
Proof. exact disconnected_drops_spub. Qed.
Print Assumptions C07_publish_streams_die_with_session.

(* table bookkeeping of the sub-steps: a burial / last-will write touches no registration table *)
Theorem C07_burial_touches_no_table :
  forall s c sk p,
    spub_keys (fst (do_pdelete s c sk p)) = spub_keys s /\
    subscriptions (fst (do_pdelete s c sk p)) = subscriptions s /\
    ls_subscriptions (fst (do_pdelete s c sk p)) = ls_subscriptions s /\
    locked_keys (fst (do_pdelete s c sk p)) = locked_keys s /\
    clients (fst (do_pdelete s c sk p)) = clients s.
Proof. exact pdelete_tables. Qed.
Print Assumptions C07_burial_touches_no_table.

Theorem C07_last_will_touches_no_table :
  forall s c k e f,
    spub_keys (fst (do_insert s c k e f)) = spub_keys s /\
    subscriptions (fst (do_insert s c k e f)) = subscriptions s /\
    ls_subscriptions (fst (do_insert s c k e f)) = ls_subscriptions s /\
    locked_keys (fst (do_insert s c k e f)) = locked_keys s /\
    clients (fst (do_insert s c k e f)) = clients s.
Proof. exact insert_tables. Qed.
Print Assumptions C07_last_will_touches_no_table.

(* non-vacuity and the shape of a session end: grave goods buried, last will set over a CAS value,
   own $SYS entries gone, the other client's registration untouched *)
Definition gg1 := topic [s_SYS; s_clients; client_str 1; s_graveGoods].
Definition lw1 := topic [s_SYS; s_clients; client_str 1; s_lastWill].
Definition gg2 := topic [s_SYS; s_clients; client_str 2; s_graveGoods].
Example C07_nonvacuous :
  let ops := [OConnected 1; OConnected 2;
              OSet 1 gg1 (JArr [JStr [103;47;35]]) false;
              OSet 1 lw1 (JArr [JArr [JStr [119]; JNum [49]]]) false;
              OSet 2 gg2 (JArr [JStr [107]]) false;
              OSet 2 [103;47;120] JNull false; OCSet 2 [119] JNull 0 false; OSet 2 [107] JNull false;
              ODisconnected 1] in
  let s := final init ops in
  do_get s [103;47;120] = RErr E_NoSuchValue /\ do_cget s [119] = RCValue (JNum [49]) 0 /\
  do_get s [107] = RValue JNull /\ do_get s gg1 = RErr E_NoSuchValue /\
  do_get s gg2 = RValue (JArr [JStr [107]]).
Proof. vm_compute. repeat split. Qed.
