(* C07 -- Session end buries grave goods, publishes the last will, cleans up, nothing else.
   Statements only.  The model's do_disconnected is the ordered composition the code performs
   (worterbuch.rs:1220-1378).  Proved here: the publish streams of the client are gone after any
   non-crashing session end; the burial and the last will are ordinary pdelete / forced set
   requests issued under the client's own id (so C01/C04/C08 apply to each of them); the
   registrations used are decoded from the values stored last; and (Proofs/SessionEnd.v) a session
   end IS a run of ordinary requests -- [end_ops], each once, in the order of the code -- from the state
   [prep] in which the client's publish streams, locks and client-list entry are gone, so that its
   effect on the data is a trace of the map specification (C01), its events and ls notifications are
   those of these requests (C03, C05), the guard of C08 applies to every burial and last-will write
   because they run under the client's own id, and the registration tables lose exactly the
   client's entries.  Known findings F24/F27: a subscription made under a transaction id that was
   still subscribed stays in the subscriber tree (the tables, which the theorems speak about, forget it). *)
From WB Require Import Base.Str Base.Json Model.Key Model.Consts Model.Store Model.Entry Model.Core Spec.MapSpec
  Proofs.CoreFacts Proofs.LenFacts Proofs.C01Proof Proofs.C07Proof Proofs.LockHistory Proofs.SessionEnd.

Theorem C07_publish_streams_die_with_session :
  forall s c, o_res (snd (do_disconnected s c)) <> RCrash ->
    forall id k, In (id, k) (spub_keys (fst (do_disconnected s c))) -> fst id <> c.
Proof. exact disconnected_drops_spub. Qed.
Print Assumptions C07_publish_streams_die_with_session.

(* table bookkeeping of the sub-steps: a burial / last-will write touches no registration table *)
Theorem C07_burial_touches_no_table :
  forall s c sk p,
    spub_keys (fst (do_pdelete s c sk p)) = spub_keys s /\
    subscriptions (fst (do_pdelete s c sk p)) = subscriptions s /\
    ls_subscriptions (fst (do_pdelete s c sk p)) = ls_subscriptions s /\
    locked_keys (fst (do_pdelete s c sk p)) = locked_keys s /\
    clients (fst (do_pdelete s c sk p)) = clients s.
Proof. exact pdelete_tables. Qed.
Print Assumptions C07_burial_touches_no_table.

Theorem C07_last_will_touches_no_table :
  forall s c k e f,
    spub_keys (fst (do_insert s c k e f)) = spub_keys s /\
    subscriptions (fst (do_insert s c k e f)) = subscriptions s /\
    ls_subscriptions (fst (do_insert s c k e f)) = ls_subscriptions s /\
    locked_keys (fst (do_insert s c k e f)) = locked_keys s /\
    clients (fst (do_insert s c k e f)) = clients s.
Proof. exact insert_tables. Qed.
Print Assumptions C07_last_will_touches_no_table.

(* a session end that does not crash is the run of [end_ops s c] from [prep s c]: same final state, same
   events, same ls notifications; and that run refines the map specification from the map before *)
Theorem C07_session_end_is_a_run_of_requests :
  forall s c, Inv s -> LenInv s -> N.eqb c 0 = false -> is_crash (snd (do_disconnected s c)) = false ->
    spec_trace (abs s) (end_ops s c) (trace (prep s c) (end_ops s c)) /\
    fst (do_disconnected s c) = final (prep s c) (end_ops s c) /\
    o_events (snd (do_disconnected s c)) = evs_of (trace (prep s c) (end_ops s c)) /\
    o_ls (snd (do_disconnected s c)) = lss_of (trace (prep s c) (end_ops s c)).
Proof. exact session_end_refines. Qed.
Print Assumptions C07_session_end_is_a_run_of_requests.

(* the requests, spelled out: the order is the one of the property (clean-up of the client list entry,
   subscriptions, own $SYS subtree; grave goods; last will with force = true, i.e. over CAS protection) *)
Theorem C07_the_requests_of_a_session_end :
  forall s c, end_ops s c =
    [OSet 0 (topic [s_SYS; s_clients])
          (jnum (N.of_nat (length (filter (fun x => negb (N.eqb x c)) (clients s))))) true]
    ++ map (fun id => OUnsubscribe (fst id) (snd id)) (ids_of c (subscriptions s))
    ++ map (fun id => OUnsubscribeLs (fst id) (snd id)) (ids_of c (ls_subscriptions s))
    ++ [OPDelete 0 (topic [s_SYS; s_clients; client_str c; s_hash])]
    ++ map (fun g => OPDelete c g) (gg_of s c)
    ++ map (fun kv => OSet c (fst kv) (snd kv) true) (lw_of s c).
Proof. reflexivity. Qed.
Print Assumptions C07_the_requests_of_a_session_end.

(* the registration tables afterwards: exactly the client's entries are gone, everybody else's are there *)
Theorem C07_session_end_tables :
  forall s c, N.eqb c 0 = false -> is_crash (snd (do_disconnected s c)) = false ->
    let s' := fst (do_disconnected s c) in
    (forall id v, In (id, v) (subscriptions s') <-> In (id, v) (subscriptions s) /\ fst id <> c) /\
    (forall id v, In (id, v) (ls_subscriptions s') <-> In (id, v) (ls_subscriptions s) /\ fst id <> c) /\
    (forall id k, In (id, k) (spub_keys s') <-> In (id, k) (spub_keys s) /\ fst id <> c) /\
    locked_keys s' = assoc_del N.eqb c (locked_keys s) /\
    clients s' = filter (fun x => negb (N.eqb x c)) (clients s).
Proof. exact session_end_tables. Qed.
Print Assumptions C07_session_end_tables.

(* and the locks: in every reachable state the ending client leaves the line of every key, nobody else moves *)
Theorem C07_session_end_lines :
  forall ops c q, N.eqb c 0 = false ->
    cline (fst (step (final init ops) (ODisconnected c))) q = notc c (cline (final init ops) q).
Proof. exact session_end_lines. Qed.
Print Assumptions C07_session_end_lines.

(* non-vacuity and the shape of a session end: grave goods buried, last will set over a CAS value,
   own $SYS entries gone, the other client's registration untouched *)
Definition gg1 := topic [s_SYS; s_clients; client_str 1; s_graveGoods].
Definition lw1 := topic [s_SYS; s_clients; client_str 1; s_lastWill].
Definition gg2 := topic [s_SYS; s_clients; client_str 2; s_graveGoods].
Example C07_nonvacuous :
  let ops := [OConnected 1; OConnected 2;
              OSet 1 gg1 (JArr [JStr [103;47;35]]) false;
              OSet 1 lw1 (JArr [JArr [JStr [119]; JNum [49]]]) false;
              OSet 2 gg2 (JArr [JStr [107]]) false;
              OSet 2 [103;47;120] JNull false; OCSet 2 [119] JNull 0 false; OSet 2 [107] JNull false;
              ODisconnected 1] in
  let s := final init ops in
  do_get s [103;47;120] = RErr E_NoSuchValue /\ do_cget s [119] = RCValue (JNum [49]) 0 /\
  do_get s [107] = RValue JNull /\ do_get s gg1 = RErr E_NoSuchValue /\
  do_get s gg2 = RValue (JArr [JStr [107]]).
Proof. vm_compute. repeat split. Qed.

Example C07_requests_nonvacuous :
  let ops := [OConnected 1; OConnected 2;
              OSet 1 gg1 (JArr [JStr [103;47;35]]) false;
              OSet 1 lw1 (JArr [JArr [JStr [119]; JNum [49]]]) false;
              OSubscribe 1 4 [120] false true; OSubscribeLs 1 5 None; OPSubscribe 2 4 [35] false true] in
  let s := final init ops in
  map (fun o => match o with OSet c _ _ f => (0, c, if f then 1 else 0) | OUnsubscribe c t => (1, c, t)
                           | OUnsubscribeLs c t => (2, c, t) | OPDelete c _ => (3, c, 0) | _ => (9, 0, 0) end)
      (end_ops s 1) = [(0, 0, 1); (1, 1, 4); (2, 1, 5); (3, 0, 0); (3, 1, 0); (0, 1, 1)] /\
  is_crash (snd (do_disconnected s 1)) = false.
Proof. vm_compute. split; reflexivity. Qed.
