(* C19 -- A node takes the leader role only with a quorum of distinct peers' votes.
   Statements only.  Model: Model/Election.v (election.rs, config.rs quorum_sanity_check, utils.rs support_vote,
   follower.rs follow's sync_addr test).  All event lists: datagrams of every kind from anybody (configured peer
   or not, duplicated, late, unsolicited, unparsable), timer expiries, configuration changes; all cluster sizes
   and configured quorums -- no bound.  Only safety is stated. *)
From WB Require Import Base.Str Model.Election Proofs.ElectionFacts.
From Coq Require Import ZArith List.
Import ListNotations.
Local Open Scope N_scope.

(* Leader only after votes, received in the running vote round, from distinct configured peers that together
   with the node's own vote reach the quorum in force *)
Theorem C19_leader_needs_quorum :
  forall s0 es, ph s0 = Waiting -> ph (erun s0 es) = Done Leader ->
  exists pre round post P,
    es = pre ++ round ++ post /\
    peers (erun s0 pre) = peers (erun s0 es) /\ quorum (erun s0 pre) = quorum (erun s0 es) /\
    NoDup P /\ incl P (peers (erun s0 es)) /\ (forall x, In x P -> In (ERecv (VoteResp x)) round) /\
    quorum (erun s0 es) <= 1 + N.of_nat (length P).
Proof. exact leader_needs_quorum. Qed.
Print Assumptions C19_leader_needs_quorum.

(* the default quorum is a strict majority of the configured nodes; a configured quorum above the node count is refused *)
Theorem C19_default_quorum_is_majority :
  forall ps q, sanity None ps = Some q -> N.of_nat (length ps) + 1 < 2 * q.
Proof. exact default_quorum_majority. Qed.
Print Assumptions C19_default_quorum_is_majority.

Theorem C19_quorum_at_most_nodes :
  forall qc ps q, sanity qc ps = Some q -> q <= N.of_nat (length ps) + 1.
Proof. exact sanity_le_n. Qed.
Print Assumptions C19_quorum_at_most_nodes.

(* follower mode only towards a configured peer, on that peer's own heartbeat request *)
Theorem C19_follower_only_member :
  forall s e id, started s = NoServer -> started (fst (estep s e)) = FollowerServer id ->
    e = ERecv (HbReq id) /\ In id (peers s).
Proof. exact follower_only_member. Qed.
Print Assumptions C19_follower_only_member.

(* duplicate, unsolicited and foreign votes never count *)
Theorem C19_vote_not_counted :
  forall s id, (match ph s with Requesting _ rem _ => ~ In id rem | _ => True end) ->
    estep s (ERecv (VoteResp id)) = (s, []).
Proof. exact vote_ignored. Qed.
Print Assumptions C19_vote_not_counted.

Theorem C19_vote_counted_once :
  forall s id v rem voters, ph s = Requesting v rem voters -> In id rem ->
    match ph (fst (estep s (ERecv (VoteResp id)))) with
    | Requesting v' rem' _ => v' = v + 1 /\ ~ In id rem'
    | Done Leader => quorum s <= v + 1
    | _ => False
    end.
Proof. exact counted_once. Qed.
Print Assumptions C19_vote_counted_once.

Theorem C19_foreign_ignored :
  forall s m,
  (match m with
   | HbResp _ | Empty => True
   | HbReq id => ph s = Waiting /\ is_part_of_cluster s id = false \/ (exists v r vs, ph s = Requesting v r vs)
   | VoteResp id => match ph s with Requesting _ rem _ => ~ In id rem | _ => True end
   | VoteReq _ p => prio_ge p (prio s) = false /\ (forall f c q, ph s <> WaitHb f c q) \/ (exists f c q, ph s = WaitHb f c q)
   | Garbage => False
   end) ->
  estep s (ERecv m) = (s, []).
Proof. exact foreign_ignored. Qed.
Print Assumptions C19_foreign_ignored.

(* non-vacuity: a five-node cluster (default quorum 3): duplicates and a stranger do not help, two distinct peers do;
   and a run in which the node follows a member *)
Example C19_nonvacuous :
  let a := [97] in let b := [98] in let c := [99] in let d := [100] in let x := [120] in
  match einit [109] 5 None [a; b; c; d] with
  | Some s0 =>
      quorum s0 = 3 /\
      ph (erun s0 [ETimeout; ERecv (VoteResp a); ERecv (VoteResp a); ERecv (VoteResp x); ERecv (VoteResp [109])]) = Requesting 2 [b; c; d] [a] /\
      ph (erun s0 [ETimeout; ERecv (VoteResp a); ERecv (VoteResp a); ERecv (VoteResp x); ERecv (VoteResp b)]) = Done Leader /\
      started (erun s0 [ERecv (HbReq x); ERecv (VoteReq x 1); ERecv (HbReq x)]) = NoServer /\
      started (erun s0 [ERecv (HbReq x); ERecv (HbReq c)]) = FollowerServer c
  | None => False
  end.
Proof. vm_compute. repeat split; reflexivity. Qed.
