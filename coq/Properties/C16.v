(* C16 -- Aggregated pattern subscriptions batch events without losing or reordering them.
   Statements only; proofs in Proofs/AggFacts.v.  A schedule is a list of actions: an event arrives
   (at the current time) or time passes (every trigger task that is due fires and its tick is
   processed); all timer firings relative to event arrivals = all action lists.  The order in which
   tokio runs a due timer and a ready receive at the very same instant, and back-pressure of the
   client connection, are outside the model (the property itself excludes the latter). *)
From WB Require Import Base.Str Base.Json Model.Aggregator Proofs.AggFacts.

(* content: for every schedule, the batches concatenated in arrival order, followed by what is still
   buffered, are exactly the events that arrived, in the order they arrived (hence also per key);
   hypothesis: one incoming event names each key at most once, as the core produces them *)
Theorem C16_content :
  forall xs d, Forall wf_action xs ->
    flat (concat (agg_run (agg_init d) xs)) ++ pend (agg_final (agg_init d) xs) = flat_map act_evs xs.
Proof.
  intros xs d H. rewrite (run_content xs (agg_init d)); [reflexivity| |assumption].
  repeat split; cbn; [now left|constructor|constructor].
Qed.
Print Assumptions C16_content.

(* one step: the invariant (never both buffers non-empty, a key at most once) is kept *)
Theorem C16_step_content :
  forall a x, AInv a -> wf_action x ->
    AInv (fst (agg_step a x)) /\
    flat (snd (agg_step a x)) ++ pend (fst (agg_step a x)) = pend a ++ act_evs x.
Proof. exact step_content. Qed.
Print Assumptions C16_step_content.

(* delay: whenever time has passed, no event that is still buffered arrived an interval ago or
   earlier; the invariant behind it (every buffered event is covered by a trigger task due within
   the interval) holds along every schedule *)
Theorem C16_delay :
  forall a dt, DInv a ->
    DInv (fst (advance a dt)) /\ interval (fst (advance a dt)) = interval a /\
    now (fst (advance a dt)) = now a + dt /\
    forall e, In e (bufs (fst (advance a dt))) -> now (fst (advance a dt)) < b_at e + interval (fst (advance a dt)).
Proof. exact advance_delay. Qed.
Print Assumptions C16_delay.

Theorem C16_delay_invariant_all_schedules :
  forall xs d, DInv (agg_final (agg_init d) xs) /\ interval (agg_final (agg_init d) xs) = d.
Proof. intros xs d. exact (run_delay xs (agg_init d) (DInv_init d)). Qed.
Print Assumptions C16_delay_invariant_all_schedules.

Example C16_nonvacuous :
  agg_run (agg_init 10) [Arrive (AKvs [([97], JNum [49])]); Advance 5; Arrive (AKvs [([97], JNum [50])]);
                         Arrive (ADel [([97], JNum [50])]); Advance 5; Advance 10] =
  [[]; []; [AKvs [([97], JNum [49])]]; [AKvs [([97], JNum [50])]]; [ADel [([97], JNum [50])]]; []].
Proof. vm_compute. reflexivity. Qed.
