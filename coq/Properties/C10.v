(* C10 -- A crash during persistence never loses a completed flush nor mixes snapshots.
   Statements only; proofs in Proofs/PersistFacts.v.  Crash model: the process dies between two
   file operations (or inside a write, leaving half of the data in the .tmp file); completed file
   operations persist in order.  Proved: the two steps that make the flush protocol safe, for every
   directory content, every server state and every crash point.  PARTIAL: their composition into an
   invariant over arbitrary event lists (flush / crash / restart chains) is validated by the
   correspondence (complete enumeration of crash points, two-crash chains) and the recovery oracle,
   not yet by a Coq induction; concurrent flushes (periodic task vs. shutdown) are outside the model. *)
From WB Require Import Base.Str Base.Json Model.Key Model.Store Model.Entry Model.Core Model.Codec Model.PersistConsts Model.Persist
  Proofs.CodecFacts Proofs.PersistFacts Proofs.ChainProof Model.Consts.

(* a flush that dies at any of the 16 crash points before the selector flip leaves the selector and
   the four files of the active slot untouched *)
Theorem C10_crash_before_flip_keeps_active_slot :
  forall s d c, c < 16 ->
    untouched (f_toggle :: slot_names (fs_has f_toggle d)) d (fst (flush (Some c) s d)) /\
    snd (flush (Some c) s d) = true.
Proof. exact flush_keeps_active. Qed.
Print Assumptions C10_crash_before_flip_keeps_active_slot.

(* hence the next start recovers exactly what a start without that flush would have recovered: the
   last completed snapshot, store and registrations from the same slot, never a half-written file *)
Theorem C10_crash_recovers_last_completed :
  forall s d c n, c < 16 ->
    bind (read_checked (slot_store (fs_has f_toggle d)) d) dec_persisted = Some n ->
    option_map fst (load_v3 (fst (flush (Some c) s d))) = option_map fst (load_v3 d).
Proof. exact crash_recovers_last_completed. Qed.
Print Assumptions C10_crash_recovers_last_completed.

(* a flush that completes -- or dies after the flip -- has switched the selector to a slot holding
   exactly its own store and its own registrations, both with valid checksums *)
Theorem C10_completed_flush_is_selected :
  forall s d,
    snd (flush None s d) = false /\
    fs_has f_toggle (fst (flush None s d)) = negb (fs_has f_toggle d) /\
    read_checked (slot_store (negb (fs_has f_toggle d))) (fst (flush None s d)) = Some (fst (snapshot s)) /\
    read_checked (slot_gglw (negb (fs_has f_toggle d))) (fst (flush None s d)) = Some (snd (snapshot s)).
Proof. exact flush_completes. Qed.
Print Assumptions C10_completed_flush_is_selected.

Theorem C10_crash_after_flip_is_complete :
  forall s d,
    fs_has f_toggle (fst (flush (Some 16) s d)) = negb (fs_has f_toggle d) /\
    read_checked (slot_store (negb (fs_has f_toggle d))) (fst (flush (Some 16) s d)) = Some (fst (snapshot s)) /\
    read_checked (slot_gglw (negb (fs_has f_toggle d))) (fst (flush (Some 16) s d)) = Some (snd (snapshot s)).
Proof. exact crash_after_flip_is_complete. Qed.
Print Assumptions C10_crash_after_flip_is_complete.

(* non-vacuity: two flushes, the third dies with a torn checksum file; the directory still selects
   the second snapshot *)
(* history level: once a flush has completed, along EVERY chain of requests, further flushes, crashes at any crash point
   of any later flush, and kills, the directory holds -- complete and selected -- the snapshot of the last completed
   flush, and a start recovers exactly that one (never an older snapshot, never store and registrations of different
   snapshots); [flushable]: every state that gets flushed is within the file format *)
Theorem C10_chain_invariant :
  forall es s d l, holds d l -> flushable (s, d, l) es ->
  let '(s', d', l') := grun (s, d, l) es in
  holds d' l' /\ restart d' = (recovery l', d').
Proof. exact chain_invariant. Qed.
Print Assumptions C10_chain_invariant.

(* a process that crashed or was killed comes up with the recovery of the last completed flush *)
Theorem C10_crash_comes_up_with_last :
  forall s d l e, holds d l ->
  (match e with PFlush | PCrashInFlush _ => node_ok (strip_sys s_SYS (data s)) | _ => True end) ->
  (match e with PCrashInFlush _ | PKillRestart => True | _ => False end) ->
  let '(s', _, l') := gstep (s, d, l) e in s' = recovery l'.
Proof. exact crash_comes_up_with_last. Qed.
Print Assumptions C10_crash_comes_up_with_last.

(* the ghost is only an observer: the chain is the persistent machine of Model/Persist.v *)
Theorem C10_chain_is_the_machine :
  forall st e, let '(s, d, _) := st in let '(s', d', _) := gstep st e in pstep (s, d) e = (s', d').
Proof. exact gstep_pstep. Qed.
Print Assumptions C10_chain_is_the_machine.

Example C10_nonvacuous :
  let s1 := final init [OSet 1 [107] (JNum [49]) false] in
  let s2 := final s1 [OSet 1 [107] (JNum [50]) false] in
  let s3 := final s2 [OSet 1 [107] (JNum [51]) false] in
  let d2 := fst (flush None s2 (fst (flush None s1 []))) in
  let d3 := fst (flush (Some 5) s3 d2) in
  option_map (fun r => do_get (fst r) [107]) (load_v3 d3) = Some (RValue (JNum [50])) /\
  fs_get (f_store_a ++ sfx_sum ++ sfx_tmp) d3 = Some FSumTorn.
Proof. vm_compute. split; reflexivity. Qed.
