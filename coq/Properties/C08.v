(* C08 -- Clients cannot alter or fake the server's $SYS information.
   Statements only; proofs in Proofs/SysGuard.v. *)
From Coq Require Import List.
Import ListNotations.
From WB Require Import Base.Str Base.Json Model.Key Model.Consts Model.Store Model.Entry Model.Core Model.Rest Spec.MapSpec
  Proofs.CoreFacts Proofs.LenFacts Proofs.C01Proof Proofs.SubsFacts Proofs.C03Proof Proofs.StreamProof Proofs.SysGuard Proofs.RestFacts Proofs.LockHistory Proofs.SessionEnd Proofs.SysKeep Model.Codec Model.Auth Model.Session Model.RestWorld Proofs.WorldCore Proofs.WorldRest Proofs.WorldSys.

(* for a key whose first segment is literally $SYS, an ordinary client passes the guard exactly
   for $SYS/clients/<own id>/{graveGoods,lastWill,clientName}[/...]; anything else is ReadOnlyKey *)
Theorem C08_guard_literal :
  forall key c, c <> 0 -> key <> [] ->
    match split slash key with
    | p0 :: rest =>
        if str_eqb p0 s_SYS then
          (check_read_only key c = None <->
           exists p3 more, rest = s_clients :: client_str c :: p3 :: more /\
                           (p3 = s_graveGoods \/ p3 = s_lastWill \/ p3 = s_clientName))
          /\ (check_read_only key c <> None -> check_read_only key c = Some E_ReadOnlyKey)
        else check_read_only key c = None
    | [] => True
    end.
Proof. exact guard_literal. Qed.
Print Assumptions C08_guard_literal.

(* a request the guard refuses (set, cset, delete, pdelete, spub-init) changes nothing at all *)
Theorem C08_refused_is_identity :
  forall s c key code, check_read_only key c = Some code ->
    (forall e f, do_insert s c key e f = (s, out_res (RErr code))) /\
    do_delete s c key = (s, out_res (RErr code)) /\
    do_pdelete s c false key = (s, out_res (RErr code)) /\
    (forall t, do_spub_init s c t key = (s, out_res (RErr code))).
Proof. exact refused_is_identity. Qed.
Print Assumptions C08_refused_is_identity.

(* known finding F4: the guard looks at the literal first segment, so a client's pdelete (or
   grave good) with a wildcard first segment removes protected keys *)
Definition sys_sentinel : str := s_SYS ++ [47; 115].          (* $SYS/s *)
Theorem C08_pdelete_wildcard_refuted :
  exists s pat, check_read_only pat 1 = None /\
    do_get s sys_sentinel = RValue JNull /\
    do_get (fst (do_pdelete s 1 false pat)) sys_sentinel = RErr E_NoSuchValue.
Proof.
  exists (fst (do_insert init 0 sys_sentinel (Plain JNull) true)), [35]. vm_compute. auto.
Qed.
Print Assumptions C08_pdelete_wildcard_refuted.

(* known finding F5: publish has no guard; a subscriber of a protected key sees the client's value *)
Theorem C08_publish_refuted :
  exists s v, o_events (snd (do_publish s sys_sentinel v)) = [(0, EValue v)] /\ v = JStr [102].
Proof.
  exists (fst (do_subscribe init 0 1 sys_sentinel false true)), (JStr [102]). vm_compute. auto.
Qed.
Print Assumptions C08_publish_refuted.

(* as a statement about states (Proofs/SysKeep.v): whatever an ordinary client asks for -- set, cset, delete with any key;
   pdelete with a pattern whose first segment is literal; import; publish, publish streams, subscriptions, locks --, every
   value under $SYS other than that client's own graveGoods / lastWill / clientName entries reads afterwards as before;
   and along every history of such requests of any number of clients a value under $SYS that is nobody's own entry is
   never touched.  (First segment a wildcard: F4; what publish shows subscribers: F5; session starts and ends are the
   server's own bookkeeping -- what a session end does for the client is a run of such requests: C07.) *)
Theorem C08_client_keeps_sys :
  forall s c o q, Inv s -> c <> 0%N -> client_req c o -> ~ own_entry c q ->
    abs (fst (step s o)) (s_SYS :: q) = abs s (s_SYS :: q).
Proof. exact client_keeps_sys. Qed.
Print Assumptions C08_client_keeps_sys.

Theorem C08_clients_keep_sys :
  forall os s q, Inv s -> LenInv s -> client_hist os -> no_crash_run s (map snd os) ->
    (forall c, In c (map fst os) -> ~ own_entry c q) ->
    abs (final s (map snd os)) (s_SYS :: q) = abs s (s_SYS :: q).
Proof. exact clients_keep_sys. Qed.
Print Assumptions C08_clients_keep_sys.

(* "... or through its grave goods and last will": when a session ends, apart from the server's own bookkeeping -- the
   client count $SYS/clients and the subtree $SYS/clients/<id> of the ending client -- every value under $SYS reads
   afterwards as before, whatever grave goods (with a literal first segment: F4) and last wills it had registered *)
Theorem C08_session_end_keeps_sys :
  forall s c q, Inv s -> LenInv s -> Forall literal_first (gg_of s c) ->
    is_crash (snd (do_disconnected s c)) = false ->
    q <> [s_clients] -> (forall r, q <> s_clients :: client_str c :: r) ->
    abs (fst (do_disconnected s c)) (s_SYS :: q) = abs s (s_SYS :: q).
Proof. exact session_end_keeps_sys. Qed.
Print Assumptions C08_session_end_keeps_sys.

(* at the level of the sockets and the REST front end (Proofs/WorldSys.v): whatever arrives, in whatever order -- lines of
   every kind on any number of sessions, connections opening and closing with their grave goods and last wills, REST
   requests of every kind --, a value the server keeps under $SYS outside the per-client bookkeeping ([server_info]: not
   $SYS/clients or below; $SYS/version, $SYS/license, ...) reads afterwards as before, as long as no pattern with a
   wildcard in its first segment is involved ([lit_hist]: known finding F4) *)
Theorem C08_mixed_keeps_info :
  forall xs w q, Inv (w_core w) -> LenInv (w_core w) -> LH (w_core w) -> Forall wev_ok xs -> lit_hist w xs -> server_info q ->
    abs (w_core (wfinal' w xs)) (s_SYS :: q) = abs (w_core w) (s_SYS :: q).
Proof. exact mixed_keeps_info. Qed.
Print Assumptions C08_mixed_keeps_info.

Example C08_mixed_nonvacuous :
  let xs := [WS (SOpen 0); WS (SMsg 0 (MSet 1 [36;83;89;83;47;118] JNull)); WR TNone (RSet [36;83;89;83;47;118] (JNum [49]));
             WR TNone (RPDelete [36;83;89;83;47;35]); WS (SMsg 0 (MSet 2 (topic [s_SYS; s_clients; client_str 1; s_graveGoods]) (JArr [JStr [97;47;35]])));
             WS (SClose 0)]%N in
  (Forall wev_ok xs /\ lit_hist (world_init false) xs) /\ server_info [[118]%N].
Proof. exact mixed_info_demo. Qed.

Example C08_clients_keep_sys_nonvacuous :
  let s0 := fst (step init (OSet 0 [36;83;89;83;47;118]%N (JStr [120]%N) true)) in
  let os := [(1, OSet 1 [36;83;89;83;47;118] (JStr [101]) false); (1, ODelete 1 [36;83;89;83;47;118]); (2, OPDelete 2 [36;83;89;83;47;35]);
             (1, OSet 1 (topic [s_SYS; s_clients; client_str 1; s_graveGoods]) (JArr []) false); (2, OSet 2 [97] JNull false)]%N in
  (client_hist os /\ no_crash_run s0 (map snd os)) /\
  abs (final s0 (map snd os)) [s_SYS; [118]%N] = Some (Plain (JStr [120]%N)) /\
  abs (final s0 (map snd os)) [s_SYS; s_clients; client_str 1%N; s_graveGoods] = Some (Plain (JArr [])).
Proof. exact clients_keep_sys_demo. Qed.

(* an import -- the one request that carries a whole tree -- never reaches $SYS: whatever the tree contains, every path
   whose first segment is $SYS reads afterwards as before (Store::merge strips $SYS: repair of F29), also through the REST
   import endpoint, whatever the token allows *)
Theorem C08_import_keeps_sys :
  forall s j q, Inv s -> import_ok (OImport j) -> abs (fst (do_import s j)) (s_SYS :: q) = abs s (s_SYS :: q).
Proof. exact import_keeps_sys. Qed.
Print Assumptions C08_import_keeps_sys.

Theorem C08_rest_import_keeps_sys :
  forall auth tok s j q, Inv s -> import_ok (OImport j) ->
    abs (fst (fst (rest_handle auth tok s (RImport j)))) (s_SYS :: q) = abs s (s_SYS :: q).
Proof. exact rest_import_keeps_sys. Qed.
Print Assumptions C08_rest_import_keeps_sys.

Example C08_import_nonvacuous :
  let s0 := fst (step init (OSet 0 [36;83;89;83;47;118]%N (JStr [120]%N) true)) in
  let j := JObj [(s_data, JObj [(s_t, JObj [(s_SYS, JObj [(s_t, JObj [([118]%N, JObj [(s_v, JStr [101]%N)])])]); ([117]%N, JObj [(s_v, JNum [49]%N)])])])] in
  let s1 := fst (fst (rest_handle false TNone s0 (RImport j))) in
  abs s1 [s_SYS; [118]%N] = Some (Plain (JStr [120]%N)) /\ abs s1 [[117]%N] = Some (Plain (JNum [49]%N)).
Proof. exact import_keeps_sys_demo. Qed.

Example C08_nonvacuous :
  check_read_only (s_SYS ++ [47] ++ s_clients) 1 = Some E_ReadOnlyKey /\
  check_read_only (topic [s_SYS; s_clients; client_str 1; s_graveGoods]) 1 = None /\
  check_read_only (topic [s_SYS; s_clients; client_str 2; s_graveGoods]) 1 = Some E_ReadOnlyKey.
Proof. vm_compute. auto. Qed.
