(* C08 -- $SYS protection. (statements to be added) *)
From WB Require Import Base.Str Model.Key Model.Store Model.Core.
