(* C18 -- Incremental (ReDB) persistence recovers a prefix of what was applied.
   Statements only.  Model: Model/Redb.v (persistence/redb/mod.rs, the queueing in persistence/mod.rs and worterbuch.rs).
   redb's own guarantee -- a committed write transaction is atomic and durable -- is trusted.
   The table follows the store request by request (C18_table_tracks_store: set / cset / delete / pdelete histories,
   any keys, accepted or refused).  PARTIAL: registrations, session ends, imports and load are in the executable model
   and compared with the real server, not proved; CAS versions are known finding F13 (row_of). *)
From Coq Require Import List.
Import ListNotations.
From WB Require Import Base.Str Base.Json Model.Key Model.Store Model.Entry Model.Core Model.Persist Model.Redb Proofs.RedbFacts Proofs.CoreFacts Proofs.RedbTrack.

(* every cut the writer can produce: whatever the scheduler lets each wake-up find in the channel, the disk holds the
   result of a prefix of the queued single-key changes, in order; the rest is still queued, in order *)
Theorem C18_disk_is_prefix :
  forall avails t q,
  exists j, (j <= length q)%nat /\ fst (wakes avails (t, q)) = apply_all t (firstn j q) /\ snd (wakes avails (t, q)) = skipn j q.
Proof. exact disk_is_prefix. Qed.
Print Assumptions C18_disk_is_prefix.

Theorem C18_clean_stop_is_all :
  forall avails t q, snd (wakes avails (t, q)) = [] -> fst (wakes avails (t, q)) = apply_all t q.
Proof. exact clean_stop_is_all. Qed.
Print Assumptions C18_clean_stop_is_all.

Theorem C18_writer_progress :
  forall n t a q, (length (snd (wake n (t, a :: q))) < length (a :: q))%nat.
Proof. exact wake_progress. Qed.
Print Assumptions C18_writer_progress.

(* the rows follow the store: after the queued actions of any history of client writes, the row of every user key is
   the stored entry (row_of: with the version the request carried, F13) and keys without a value have no row *)
Theorem C18_table_tracks_store :
  forall ws s t, Inv s -> tracks s t -> wnocrash s ws ->
  let '(s', acts) := wrun s ws in Inv s' /\ tracks s' (apply_all t acts).
Proof. exact table_tracks_store. Qed.
Print Assumptions C18_table_tracks_store.

Theorem C18_tracks_init : tracks init t_empty.
Proof. exact tracks_init. Qed.
Print Assumptions C18_tracks_init.

(* known finding F13 *)
Theorem C18_version_refuted :
  let os := [OCSet 1 [107] (JBool true) 0 false; OCSet 1 [107] (JBool false) 1 false] in
  let '(s, acts) := run_actions init os in
  lookup (data s) [[107]] = Some (Cas (JBool false) 2) /\
  lookup (data (recover (apply_all t_empty acts))) [[107]] = Some (Cas (JBool false) 1).
Proof. exact cas_version_refuted. Qed.
Print Assumptions C18_version_refuted.

Example C18_nonvacuous :
  let q := [AUpd [97] (Plain JNull); ADel [98]; AGG 1 (Some [[99]]); AUpd [100] (Plain JNull); AUpd [101] (Plain JNull); AClear; AUpd [102] (Plain JNull)] in
  (* three wake-ups that find 1, 0 and 5 further actions in the channel *)
  wakes [1; 0; 5]%nat (t_empty, q) =
  (apply_all t_empty (firstn 5 q), [AClear; AUpd [102] (Plain JNull)]).
Proof. vm_compute. reflexivity. Qed.
