(* C18 -- Incremental (ReDB) persistence recovers a prefix of what was applied.
   Statements only.  Model: Model/Redb.v (persistence/redb/mod.rs, the queueing in persistence/mod.rs and worterbuch.rs).
   redb's own guarantee -- a committed write transaction is atomic and durable -- is trusted.
   PARTIAL: that the table follows the store request by request (which action each accepted change queues) is in the
   executable model and compared with the real server, not proved; CAS versions are known finding F13. *)
From Coq Require Import List.
Import ListNotations.
From WB Require Import Base.Str Base.Json Model.Key Model.Store Model.Entry Model.Core Model.Persist Model.Redb Proofs.RedbFacts.

(* every cut the writer can produce: whatever the scheduler lets each wake-up find in the channel, the disk holds the
   result of a prefix of the queued single-key changes, in order; the rest is still queued, in order *)
Theorem C18_disk_is_prefix :
  forall avails t q,
  exists j, (j <= length q)%nat /\ fst (wakes avails (t, q)) = apply_all t (firstn j q) /\ snd (wakes avails (t, q)) = skipn j q.
Proof. exact disk_is_prefix. Qed.
Print Assumptions C18_disk_is_prefix.

Theorem C18_clean_stop_is_all :
  forall avails t q, snd (wakes avails (t, q)) = [] -> fst (wakes avails (t, q)) = apply_all t q.
Proof. exact clean_stop_is_all. Qed.
Print Assumptions C18_clean_stop_is_all.

Theorem C18_writer_progress :
  forall n t a q, (length (snd (wake n (t, a :: q))) < length (a :: q))%nat.
Proof. exact wake_progress. Qed.
Print Assumptions C18_writer_progress.

(* known finding F13 *)
Theorem C18_version_refuted :
  let os := [OCSet 1 [107] (JBool true) 0 false; OCSet 1 [107] (JBool false) 1 false] in
  let '(s, acts) := run_actions init os in
  lookup (data s) [[107]] = Some (Cas (JBool false) 2) /\
  lookup (data (recover (apply_all t_empty acts))) [[107]] = Some (Cas (JBool false) 1).
Proof. exact cas_version_refuted. Qed.
Print Assumptions C18_version_refuted.

Example C18_nonvacuous :
  let q := [AUpd [97] (Plain JNull); ADel [98]; AGG 1 (Some [[99]]); AUpd [100] (Plain JNull); AUpd [101] (Plain JNull); AClear; AUpd [102] (Plain JNull)] in
  (* three wake-ups that find 1, 0 and 5 further actions in the channel *)
  wakes [1; 0; 5]%nat (t_empty, q) =
  (apply_all t_empty (firstn 5 q), [AClear; AUpd [102] (Plain JNull)]).
Proof. vm_compute. reflexivity. Qed.
