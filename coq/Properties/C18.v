(* C18 -- Incremental (ReDB) persistence recovers a prefix of what was applied.
   Statements only.  Model: Model/Redb.v (persistence/redb/mod.rs, the queueing in persistence/mod.rs and worterbuch.rs).
   redb's own guarantee -- a committed write transaction is atomic and durable -- is trusted.
   The table follows the store request by request (C18_table_tracks_store: set / cset / delete / pdelete histories,
   any keys, accepted or refused; C18_table_tracks_any (Proofs/RedbSession.v): histories of client requests of every
   kind except import, sessions starting and ending with their grave goods and last wills included); so do the two
   registration tables (C18_all_tables_follow_the_store, Proofs/RedbRegs.v: the grave-goods / last-will entry of every
   client is what its registration key holds, after registering, re-registering, withdrawing by delete or pattern delete
   -- F28 --, burials that reach other clients' registrations -- F4 --, and session ends).  The load
   (C18_recover_is_a_function_of_the_store, Proofs/RedbRecover.v): what a start makes of the database after any such
   history is the user part of the store at that point, CAS versions as 1 (F13), with the registered grave goods buried
   and the registered last wills written, clients in id order.  PARTIAL: imports are in the executable model and
   compared with the real server, not proved; cuts INSIDE the actions of one request (a session end queues several) are
   covered by C18_disk_is_prefix and the comparison, not by the load theorem. *)
From Coq Require Import List.
Import ListNotations.
From WB Require Import Base.Str Base.Json Model.Key Model.Consts Model.Store Model.Entry Model.Core Model.Persist Model.Redb Spec.MapSpec
  Proofs.RedbFacts Proofs.CoreFacts Proofs.LenFacts Proofs.StreamProof Proofs.SessionEnd Proofs.RedbTrack Proofs.RedbSession Proofs.RedbRegs Proofs.RedbRecover.

(* every cut the writer can produce: whatever the scheduler lets each wake-up find in the channel, the disk holds the
   result of a prefix of the queued single-key changes, in order; the rest is still queued, in order *)
Theorem C18_disk_is_prefix :
  forall avails t q,
  exists j, (j <= length q)%nat /\ fst (wakes avails (t, q)) = apply_all t (firstn j q) /\ snd (wakes avails (t, q)) = skipn j q.
Proof. exact disk_is_prefix. Qed.
Print Assumptions C18_disk_is_prefix.

Theorem C18_clean_stop_is_all :
  forall avails t q, snd (wakes avails (t, q)) = [] -> fst (wakes avails (t, q)) = apply_all t q.
Proof. exact clean_stop_is_all. Qed.
Print Assumptions C18_clean_stop_is_all.

Theorem C18_writer_progress :
  forall n t a q, (length (snd (wake n (t, a :: q))) < length (a :: q))%nat.
Proof. exact wake_progress. Qed.
Print Assumptions C18_writer_progress.

(* the rows follow the store: after the queued actions of any history of client writes, the row of every user key is
   the stored entry (row_of: with the version the request carried, F13) and keys without a value have no row *)
Theorem C18_table_tracks_store :
  forall ws s t, Inv s -> tracks s t -> wnocrash s ws ->
  let '(s', acts) := wrun s ws in Inv s' /\ tracks s' (apply_all t acts).
Proof. exact table_tracks_store. Qed.
Print Assumptions C18_table_tracks_store.

Theorem C18_tracks_init : tracks init t_empty.
Proof. exact tracks_init. Qed.
Print Assumptions C18_tracks_init.

(* the same over histories of requests of every kind except import: sessions start and end (the burial of the grave
   goods and the last will queue a delete resp. an update for every user key they change), subscriptions, locks,
   publishes in between; [redb_op]: client writes come from clients (not the internal id) with force = false *)
Theorem C18_table_tracks_any :
  forall os s t, Inv s -> LenInv s -> tracks s t -> abs s [s_SYS] = None -> Forall redb_op os -> no_crash_run s os ->
    Inv (final s os) /\ tracks (final s os) (apply_all t (any_actions s os)).
Proof. exact table_tracks_any. Qed.
Print Assumptions C18_table_tracks_any.

Theorem C18_table_tracks_any_from_start :
  forall os, Forall redb_op os -> no_crash_run init os ->
    tracks (final init os) (apply_all t_empty (any_actions init os)).
Proof. exact table_tracks_any_init. Qed.
Print Assumptions C18_table_tracks_any_from_start.

(* one session end: the state afterwards keeps, loses or overwrites with a plain value every entry (nothing else), and
   the queued actions bring the rows along *)
Theorem C18_session_end_tracks :
  forall s t c, Inv s -> LenInv s -> tracks s t -> abs s [s_SYS] = None ->
    o_res (snd (step s (ODisconnected c))) = RUnit ->
    let s' := fst (step s (ODisconnected c)) in
    Inv s' /\ tracks s' (apply_all t (actions_of s (ODisconnected c))) /\ abs s' [s_SYS] = None.
Proof. exact track_session_end. Qed.
Print Assumptions C18_session_end_tracks.

(* all three tables.  [RegTracks s t]: for every client id 1..255 the entry of the grave-goods table is what the key
   $SYS/clients/<id>/graveGoods decodes to (none if the key is absent or null), the same for the last wills.
   [reg_hist]: writes and deletes come from clients 1..255 (the id space of the model's client_str), no import, and at a
   session end the ending client's last will does not write under $SYS/ (a will that re-creates its own registration
   key leaves a registration in the store which no table entry backs: the tables are cleared after the will) *)
Theorem C18_all_tables_follow_the_store :
  forall os, reg_hist init os -> no_crash_run init os ->
    tracks (final init os) (apply_all t_empty (any_actions init os)) /\
    RegTracks (final init os) (apply_all t_empty (any_actions init os)).
Proof. exact tables_track_any_init. Qed.
Print Assumptions C18_all_tables_follow_the_store.

Theorem C18_all_tables_follow_the_store_from :
  forall os s t, Inv s -> LenInv s -> tracks s t -> RegTracks s t -> abs s [s_SYS] = None -> reg_hist s os -> no_crash_run s os ->
    Inv (final s os) /\ tracks (final s os) (apply_all t (any_actions s os)) /\ RegTracks (final s os) (apply_all t (any_actions s os)).
Proof. exact tables_track_any. Qed.
Print Assumptions C18_all_tables_follow_the_store_from.

(* one request: whatever it is (except import), accepted or refused *)
Theorem C18_registration_tables_step :
  forall s t o, Inv s -> LenInv s -> RegTracks s t -> reg_op s o -> o_res (snd (step s o)) <> RCrash ->
    RegTracks (fst (step s o)) (apply_all t (actions_of s o)).
Proof. exact reg_track_step. Qed.
Print Assumptions C18_registration_tables_step.

(* the hypotheses hold along a history that registers, withdraws (F28), buries another client's registration through a
   wildcard-first pattern (F4) and ends a session; and the tables say what the theorem says *)
Example C18_registrations_nonvacuous :
  (reg_hist init demo_hist /\ no_crash_run init demo_hist) /\
  let T := apply_all t_empty (any_actions init demo_hist) in
  let T4 := apply_all t_empty (any_actions init (firstn 4 demo_hist)) in
  c_get 1 (t_gg T4) = Some [[120;47;35]%N] /\ c_get 1 (t_lw T4) = Some [([119]%N, JNum [49]%N)] /\
  c_get 1 (t_gg T) = None /\ c_get 1 (t_lw T) = None /\ c_get 2 (t_gg T) = None /\
  gg_store (final init demo_hist) 1 = None /\ lw_store (final init demo_hist) 1 = None.
Proof. split; [exact demo_hist_hyps|exact demo_hist_ok]. Qed.

(* the load.  [m_user m]: the entries of m outside the root $SYS, a CAS entry with version 1 (F13); [m_bury]: one
   pattern deletion (the relation of pget / pdelete) per pattern; [m_wills]: one plain set per last-will entry whose key
   is a valid key; [registered_pats s] / [registered_wills s]: what the keys $SYS/clients/<id>/graveGoods resp. lastWill
   of the clients 1..255 decode to in s, in id order.  Hypothesis: the registered patterns have `#` only at the end. *)
Theorem C18_recover_is_a_function_of_the_store :
  forall os, reg_hist init os -> no_crash_run init os ->
    let s := final init os in
    Forall (fun g => wf_pat (kseg_parse g) = true) (registered_pats s) ->
    meq (abs (recover (apply_all t_empty (any_actions init os))))
        (m_wills (m_bury (m_user (abs s)) (registered_pats s)) (registered_wills s)).
Proof. exact recover_after_history. Qed.
Print Assumptions C18_recover_is_a_function_of_the_store.

(* ... from tables that follow a store, whatever the history behind them *)
Theorem C18_recover_spec :
  forall s t, Inv s -> tracks s t -> RowsOK (t_v2 t) -> abs s [s_SYS] = None ->
    Forall (fun g => wf_pat (kseg_parse g) = true) (all_pats t) ->
    Inv (recover t) /\ meq (abs (recover t)) (m_wills (m_bury (m_user (abs s)) (all_pats t)) (all_wills t)).
Proof. exact recover_spec. Qed.
Print Assumptions C18_recover_spec.

(* the invariants the load theorem rests on, along every history: rows only for valid keys outside $SYS/ and one per
   key; registration tables strictly ordered by client id; no request creates the empty key *)
Theorem C18_history_invariants :
  forall os s t, Inv s -> LenInv s -> tracks s t -> RegTracks s t -> TabOK t -> abs s [s_SYS] = None -> abs s [[]] = None ->
    reg_hist s os -> no_crash_run s os ->
    let s' := final s os in let t' := apply_all t (any_actions s os) in
    Inv s' /\ tracks s' t' /\ RegTracks s' t' /\ TabOK t' /\ abs s' [s_SYS] = None.
Proof. exact history_invariants. Qed.
Print Assumptions C18_history_invariants.

Example C18_recover_nonvacuous :
  (reg_hist init demo_recover /\ no_crash_run init demo_recover /\
   Forall (fun g => wf_pat (kseg_parse g) = true) (registered_pats (final init demo_recover))) /\
  let r := recover (apply_all t_empty (any_actions init demo_recover)) in
  abs (final init demo_recover) [[120];[97]]%N = Some (Plain (JNum [49]%N)) /\ abs (final init demo_recover) [[121]]%N = Some (Cas (JNum [51]%N) 2%N) /\
  abs r [[120];[97]]%N = None /\ abs r [[121]]%N = Some (Cas (JNum [51]%N) 1%N) /\ abs r [[119]]%N = Some (Plain (JNum [49]%N)) /\
  abs r (gg_path 1%N) = None.
Proof. exact demo_recover_ok. Qed.

Example C18_sessions_nonvacuous :
  let gg1 := topic [s_SYS; s_clients; client_str 1; s_graveGoods] in
  let lw1 := topic [s_SYS; s_clients; client_str 1; s_lastWill] in
  let os := [OConnected 1; OSet 1 gg1 (JArr [JStr [103;47;35]]) false; OSet 1 lw1 (JArr [JArr [JStr [119]; JNum [49]]]) false;
             OSet 2 [103;47;120] JNull false; OCSet 2 [119] JNull 0 false; OSet 2 [107] JNull false; ODisconnected 1] in
  Forall redb_op os /\ no_crash_run init os /\
  t_v2 (apply_all t_empty (any_actions init os)) = [([119], Plain (JNum [49])); ([107], Plain JNull)].
Proof.
  cbv zeta. split; [repeat (apply Forall_cons; [cbn; first [exact I|split; [reflexivity|discriminate]]|]); apply Forall_nil|].
  split; [vm_compute; repeat split; discriminate|vm_compute; reflexivity].
Qed.

(* known finding F13 *)
Theorem C18_version_refuted :
  let os := [OCSet 1 [107] (JBool true) 0 false; OCSet 1 [107] (JBool false) 1 false] in
  let '(s, acts) := run_actions init os in
  lookup (data s) [[107]] = Some (Cas (JBool false) 2) /\
  lookup (data (recover (apply_all t_empty acts))) [[107]] = Some (Cas (JBool false) 1).
Proof. exact cas_version_refuted. Qed.
Print Assumptions C18_version_refuted.

Example C18_nonvacuous :
  let q := [AUpd [97] (Plain JNull); ADel [98]; AGG 1 (Some [[99]]); AUpd [100] (Plain JNull); AUpd [101] (Plain JNull); AClear; AUpd [102] (Plain JNull)] in
  (* three wake-ups that find 1, 0 and 5 further actions in the channel *)
  wakes [1; 0; 5]%nat (t_empty, q) =
  (apply_all t_empty (firstn 5 q), [AClear; AUpd [102] (Plain JNull)]).
Proof. vm_compute. reflexivity. Qed.
