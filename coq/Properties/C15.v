(* C15 -- With authorization on, a client reaches only keys its token grants.
   Statements only; proofs in Proofs/AuthFacts.v.  The decision "is the requested key/pattern
   covered by a granted pattern" (auth.rs pattern_matches) is sound for each of the relations by
   which a served request selects keys, so a served read / write / delete touches only keys a
   grant of that privilege matches.  PARTIAL: token validation (jsonwebtoken) is trusted; "no
   request is served before a valid token" and the per-request table are validated on a live
   session by the session engine, not proved here. *)
From WB Require Import Base.Str Base.Json Model.Key Model.Match Model.Core Model.Codec Model.Auth Model.Session Model.Rest Proofs.AuthFacts Proofs.SessionFacts Proofs.RestFacts Proofs.WorldCore Proofs.WorldAuth Model.RestWorld Proofs.WorldRest.

Theorem C15_sound_doc :
  forall g r k, wf_pat g = true -> pm g r = true -> doc_match r k = true -> doc_match g k = true.
Proof. exact pm_sound_doc. Qed.
Print Assumptions C15_sound_doc.

Theorem C15_sound_store :
  forall g r k, wf_pat g = true -> pm g r = true -> store_match r k = true -> store_match g k = true.
Proof. exact pm_sound_store. Qed.
Print Assumptions C15_sound_store.

Theorem C15_sound_sub :
  forall g r k, wf_pat g = true -> pm g r = true -> sub_match r k = true -> sub_match g k = true.
Proof. exact pm_sound_sub. Qed.
Print Assumptions C15_sound_sub.

Theorem C15_sound_key :
  forall g key, wf_pat g = true -> pm g (map Reg key) = true -> doc_match g key = true.
Proof. exact pm_sound_key. Qed.
Print Assumptions C15_sound_key.

Theorem C15_authorize :
  forall c p pattern,
    authorize c p pattern = true <-> exists g, In g (grants c p) /\ pattern_matches g pattern = true.
Proof. exact authorize_spec. Qed.
Print Assumptions C15_authorize.

(* every request kind that returns, changes or removes keys is checked (the table) *)
Theorem C15_table_total :
  forall m, auth_requirement m = None ->
    match m with
    | MSPub _ _ | MUnsubscribe _ | MUnsubscribeLs _
    | MProtocolSwitchRequest _ | MAuthorizationRequest _ | MTransform _ _ _ => True
    | _ => False
    end.
Proof. intros m H. destruct m; try exact I; discriminate. Qed.
Print Assumptions C15_table_total.

(* session level: no request is served before a token was presented (the session ends, the core is
   untouched), and a request outside the grant is answered Unauthorized and has no effect *)
Theorem C15_no_service_before_token :
  forall w sn m s p pat, lookup_n sn (w_sess w) = Some s -> is_request m = true ->
    ((N.eqb (ss_proto s) 0 && v1_only m) || (match m with MTransform _ _ _ => true | _ => false end) = false)%bool ->
    w_auth_required w = true -> ss_claims s = None -> auth_requirement m = Some (p, pat) ->
    handle w sn m = (w, [], Close).
Proof. exact no_service_before_token. Qed.
Print Assumptions C15_no_service_before_token.

Theorem C15_denied_is_noop :
  forall w sn m s cl p pat, lookup_n sn (w_sess w) = Some s -> is_request m = true ->
    ((N.eqb (ss_proto s) 0 && v1_only m) || (match m with MTransform _ _ _ => true | _ => false end) = false)%bool ->
    w_auth_required w = true -> ss_claims s = Some cl -> auth_requirement m = Some (p, pat) ->
    authorize cl p pat = false ->
    handle w sn m = (w, [(sn, SErr (tid_of m) E_Unauthorized [])], Continue).
Proof. exact denied_is_noop. Qed.
Print Assumptions C15_denied_is_noop.

(* at the level of the sockets, over histories (Proofs/WorldAuth.v).  The authorization table leaves three request kinds
   unchecked (C15_table_total: sPub, unsubscribe, unsubscribeLs).  They find nothing to act on: with authorization
   required, a session that has presented no valid token owns no subscription of either kind and no publish stream
   ([WInv], kept by every event: C15_tokenless_sessions_own_nothing), so after ANY history of events a line from such a
   session -- of any kind -- is answered with a refusal (an Err; the Ack 0 of a protocol switch) or ends the session, and
   leaves the whole core exactly as it was.  [wf_hist]: a connection is opened under a session number not in use. *)
Theorem C15_tokenless_sessions_own_nothing :
  forall w e, WInv w -> wf_ev w e -> ev_safe w e -> WInv (fst (sstep w e)).
Proof. exact sstep_WInv. Qed.
Print Assumptions C15_tokenless_sessions_own_nothing.

Theorem C15_no_token_no_service :
  forall es sn s m, Forall ev_ok es -> wf_hist (world_init true) es ->
    let w := wfinal (world_init true) es in
    lookup_n sn (w_sess w) = Some s -> ss_open s = true -> ss_claims s = None ->
    let '(w1, out, v) := handle w sn m in
    w_core w1 = w_core w /\ Forall (fun x => fst x = sn /\ is_refusal (snd x)) out.
Proof. exact no_token_no_service. Qed.
Print Assumptions C15_no_token_no_service.

(* ... and with REST requests of every kind interleaved (Proofs/WorldRest.v: both front ends run on the one core) *)
Theorem C15_mixed_no_token_no_service :
  forall xs sn s m, Forall wev_ok xs -> wwf_hist (world_init true) xs ->
    let w := wfinal' (world_init true) xs in
    lookup_n sn (w_sess w) = Some s -> ss_open s = true -> ss_claims s = None ->
    let '(w1, out, v) := handle w sn m in
    w_core w1 = w_core w /\ Forall (fun x => fst x = sn /\ is_refusal (snd x)) out.
Proof. exact mixed_no_token_no_service. Qed.
Print Assumptions C15_mixed_no_token_no_service.

Example C15_no_token_nonvacuous :
  let all := Claims [[35]%N] [[35]%N] [[35]%N] in
  let es := [SOpen 0; SOpen 1; SAuth 1 (Some all); SMsg 1 (MSubscribe 1 [97]%N false None); SMsg 1 (MSet 2 [97]%N JNull); SMsg 0 (MUnsubscribe 1)]%N in
  (Forall ev_ok es /\ wf_hist (world_init true) es) /\
  let w := wfinal (world_init true) es in
  (exists s, lookup_n 0%N (w_sess w) = Some s /\ ss_open s = true /\ ss_claims s = None) /\
  snd (fst (handle w 0%N (MSPub 1%N JNull))) = [(0, SErr 1 E_NoPubStream [])]%N /\
  snd (fst (handle w 0%N (MUnsubscribe 1%N))) = [(0, SErr 1 E_NotSubscribed [])]%N /\
  snd (handle w 0%N (MGet 3%N [97]%N)) = Close /\
  snd (fst (handle w 1%N (MGet 3%N [97]%N))) = [(1, SState 3 (SValue JNull))]%N.
Proof. exact no_token_demo. Qed.

(* the same for the REST front end (Model/Rest.v: axum/auth.rs bearer_auth + the handlers of axum/mod.rs) *)
Theorem C15_rest_no_service_before_token :
  forall tok s r, tok = TNone \/ tok = TInvalid ->
    exists st, rest_handle true tok s r = (s, out_res RUnit, RStatus st) /\ (st = 401 \/ st = 403)%N.
Proof. exact rest_no_service_before_token. Qed.
Print Assumptions C15_rest_no_service_before_token.

Theorem C15_rest_denied_is_noop :
  forall cl s r, authorize cl (fst (rest_requirement r)) (snd (rest_requirement r)) = false ->
    rest_handle true (TClaims cl) s r = (s, out_res RUnit, RStatus 403%N).
Proof. exact rest_denied_is_noop. Qed.
Print Assumptions C15_rest_denied_is_noop.

Theorem C15_rest_granted_is_served :
  forall cl s r, authorize cl (fst (rest_requirement r)) (snd (rest_requirement r)) = true ->
    rest_handle true (TClaims cl) s r = rest_handle false TNone s r.
Proof. exact rest_granted_is_served. Qed.
Print Assumptions C15_rest_granted_is_served.

Example C15_nonvacuous :
  pattern_matches [97;47;35] [97;47;63;47;98] = true /\ pattern_matches [97;47;63] [97;47;35] = false /\
  wf_pat (kseg_parse [97;47;35]) = true.
Proof. vm_compute. auto. Qed.
