(* C05 -- Child listings and ls-subscriptions show exactly the keys that exist.
   Statements only.  Proved: ls is exact, pls is the union over the matching parents, an ls
   notification reaches exactly the subscribers of its parent, and -- over every history of requests
   of any kind except import -- the last list every live ls-subscription received is the list ls
   returns for its parent (Proofs/LsHistory.v).  Known finding F18b: import sends no ls
   notification, which is why import is excluded (C05_import_refuted). *)
From WB Require Import Base.Str Base.Json Model.Key Model.Consts Model.Store Model.Entry Model.Core
  Spec.MapSpec Proofs.StoreFacts Proofs.TreeInv Proofs.C05Proof Proofs.LsHistory.

Theorem C05_ls_exact :
  forall (V : Type) (n : node V) P, wfn n -> cleann n ->
    match ls_at n P with
    | Some l => NoDup l /\ forall x, In x l <-> exists q e, lookup n (P ++ x :: q) = Some e
    | None => forall q, lookup n (P ++ q) = None
    end.
Proof. exact @ls_exact. Qed.
Print Assumptions C05_ls_exact.

Theorem C05_ls_none_iff_nothing_below :
  forall (V : Type) (n : node V) P, wfn n -> cleann n -> P <> [] ->
    (ls_at n P = None <-> forall q, lookup n (P ++ q) = None).
Proof. exact @ls_none_iff. Qed.
Print Assumptions C05_ls_none_iff_nothing_below.

Theorem C05_pls_union :
  forall (V : Type) (n : node V) p x, wfn n ->
    (In x (collect_children n p) <->
     exists P m, parent_match p P = true /\ get_node n P = Some m /\ In x (names (nkids m))).
Proof. exact @collect_children_spec. Qed.
Print Assumptions C05_pls_union.

Theorem C05_notification_routing :
  forall s notes i l,
    In (i, l) (notify_ls s notes) <->
    exists note sub, In note notes /\ In sub (lssubs s) /\ l_parent sub = fst note /\ i = l_inst sub /\ l = snd note.
Proof. exact notify_ls_spec. Qed.
Print Assumptions C05_notification_routing.

(* ---- whole histories ----
   [ls_trace init ops] is everything the server sent to ls-subscribers during the history, in order, as
   (subscription instance, list); [apply_ls] keeps the last list per instance; [LS d P] is what ls answers
   for parent P on data d, [] standing for NoSuchValue. *)
Theorem C05_last_list_is_ls :
  forall ops, Forall not_import ops ->
    let s := final init ops in
    forall sub, In sub (lssubs s) ->
      apply_ls (fun _ => None) (ls_trace init ops) (l_inst sub) = Some (LS (data s) (l_parent sub)).
Proof. exact last_list_is_ls. Qed.
Print Assumptions C05_last_list_is_ls.

Theorem C05_LS_is_what_ls_answers :
  forall s parent,
    LS (data s) (match parent with Some p => split slash p | None => [] end) =
    match do_ls s parent with RNames l => l | _ => [] end.
Proof. exact LS_is_do_ls. Qed.
Print Assumptions C05_LS_is_what_ls_answers.

(* the notes of the three tree operations: the last note recorded for a parent is its list afterwards, a
   parent without a note keeps its list (for a pattern delete the intermediate lists, one per removed
   child in the order of the loop, are overwritten by the last) *)
Theorem C05_insert_notes :
  forall (V : Type) p (e : V) (d : node V), notes_ok d (set_at p e d) [] (insert_notes p d (set_at p e d)).
Proof. exact @insert_notes_ok. Qed.
Print Assumptions C05_insert_notes.

Theorem C05_delete_notes :
  forall (V : Type) p (n : node V) pre, wfn n -> cleann n -> notes_ok n (del_at p n) pre (del_notes pre p n).
Proof. exact @del_notes_ok. Qed.
Print Assumptions C05_delete_notes.

Theorem C05_pdelete_notes :
  forall (V : Type) (n : node V) trav pat, wfn n -> cleann n ->
    notes_ok n (dr_node (delm n trav pat)) trav (dr_notes (delm n trav pat)).
Proof. exact @delm_notes_ok. Qed.
Print Assumptions C05_pdelete_notes.

(* non-vacuity: two subscriptions (one on a parent that does not exist yet), sets, a wildcard delete that
   removes two children one after the other, a session end with grave goods *)
Example C05_history_nonvacuous :
  let ops := [OConnected 7; OSubscribeLs 9 1 (Some [97]); OSubscribeLs 9 2 None;
              OSet 1 [97;47;98] JNull false; OSet 1 [97;47;99] JNull false; OSet 1 [100] JNull false;
              OSet 7 (topic [s_SYS; s_clients; client_str 7; s_graveGoods]) (JArr [JStr [100]]) false;
              OPDelete 1 [97;47;63]; OSubscribeLs 9 3 (Some [97]); OSet 1 [97;47;101] JNull false; ODisconnected 7] in
  Forall not_import ops /\
  map (fun sub => (l_inst sub, apply_ls (fun _ => None) (ls_trace init ops) (l_inst sub))) (lssubs (final init ops)) =
    [(0, Some [[101]]); (1, Some [[36;83;89;83]; [97]]); (2, Some [[101]])].
Proof. cbv zeta. split; [repeat (apply Forall_cons; [exact I|]); apply Forall_nil|vm_compute; reflexivity]. Qed.

(* known finding F18b: an import that adds a child sends nothing to the parent's ls-subscriber *)
Theorem C05_import_refuted :
  exists s j, o_ls (snd (do_import s j)) = [] /\ do_ls s (Some [97]) = RErr E_NoSuchValue /\
              do_ls (fst (do_import s j)) (Some [97]) = RNames [[98]] /\ lssubs s <> [].
Proof.
  exists (fst (do_subscribe_ls init 2 1 (Some [97]))),
         (JObj [([100;97;116;97], JObj [([116], JObj [([97], JObj [([116], JObj [([98], JObj [([118], JNum [49])])])])])])]).
  vm_compute. repeat split; discriminate.
Qed.
Print Assumptions C05_import_refuted.

Example C05_nonvacuous :
  map o_ls (run init [OSubscribeLs 2 1 (Some [97]); OSet 1 [97;47;98] JNull false; OSet 1 [97;47;99] JNull false;
                      OPDelete 1 [97;47;63]]) =
  [[(0, [])]; [(0, [[98]])]; [(0, [[98]; [99]])]; [(0, [[99]]); (0, [])]].
Proof. vm_compute. reflexivity. Qed.
