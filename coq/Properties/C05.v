(* C05 -- child listings and ls-subscriptions. (statements to be added) *)
From WB Require Import Base.Str Model.Key Model.Store Model.Core.
