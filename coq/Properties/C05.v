(* C05 -- Child listings and ls-subscriptions show exactly the keys that exist.
   Statements only.  Proved: ls is exact, pls is the union over the matching parents, an ls
   notification reaches exactly the subscribers of its parent.  Not yet proved in Coq (covered by
   the correspondence and the ls oracle): that after every request the last list an ls-subscriber
   received equals ls -- this is the partial part of the claim.  Known finding F18b: import sends
   no ls notification. *)
From WB Require Import Base.Str Base.Json Model.Key Model.Store Model.Entry Model.Core
  Spec.MapSpec Proofs.StoreFacts Proofs.TreeInv Proofs.C05Proof.

Theorem C05_ls_exact :
  forall (V : Type) (n : node V) P, wfn n -> cleann n ->
    match ls_at n P with
    | Some l => NoDup l /\ forall x, In x l <-> exists q e, lookup n (P ++ x :: q) = Some e
    | None => forall q, lookup n (P ++ q) = None
    end.
Proof. exact @ls_exact. Qed.
Print Assumptions C05_ls_exact.

Theorem C05_ls_none_iff_nothing_below :
  forall (V : Type) (n : node V) P, wfn n -> cleann n -> P <> [] ->
    (ls_at n P = None <-> forall q, lookup n (P ++ q) = None).
Proof. exact @ls_none_iff. Qed.
Print Assumptions C05_ls_none_iff_nothing_below.

Theorem C05_pls_union :
  forall (V : Type) (n : node V) p x, wfn n ->
    (In x (collect_children n p) <->
     exists P m, parent_match p P = true /\ get_node n P = Some m /\ In x (names (nkids m))).
Proof. exact @collect_children_spec. Qed.
Print Assumptions C05_pls_union.

Theorem C05_notification_routing :
  forall s notes i l,
    In (i, l) (notify_ls s notes) <->
    exists note sub, In note notes /\ In sub (lssubs s) /\ l_parent sub = fst note /\ i = l_inst sub /\ l = snd note.
Proof. exact notify_ls_spec. Qed.
Print Assumptions C05_notification_routing.

(* known finding F18b: an import that adds a child sends nothing to the parent's ls-subscriber *)
Theorem C05_import_refuted :
  exists s j, o_ls (snd (do_import s j)) = [] /\ do_ls s (Some [97]) = RErr E_NoSuchValue /\
              do_ls (fst (do_import s j)) (Some [97]) = RNames [[98]] /\ lssubs s <> [].
Proof.
  exists (fst (do_subscribe_ls init 2 1 (Some [97]))),
         (JObj [([100;97;116;97], JObj [([116], JObj [([97], JObj [([116], JObj [([98], JObj [([118], JNum [49])])])])])])]).
  vm_compute. repeat split; discriminate.
Qed.
Print Assumptions C05_import_refuted.

Example C05_nonvacuous :
  map o_ls (run init [OSubscribeLs 2 1 (Some [97]); OSet 1 [97;47;98] JNull false; OSet 1 [97;47;99] JNull false;
                      OPDelete 1 [97;47;63]]) =
  [[(0, [])]; [(0, [[98]])]; [(0, [[98]; [99]])]; [(0, [[99]]); (0, [])]].
Proof. vm_compute. reflexivity. Qed.
