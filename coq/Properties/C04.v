(* C04 -- One wildcard relation decides queries, deletes and notifications.
   Statements only; proofs are in Proofs/. *)
From WB Require Import Base.Str Model.Key Model.Store Model.Match Proofs.StoreFacts Proofs.MatchFacts.

(* pget: ncollect_matches returns exactly the stored entries whose key satisfies store_match *)
Theorem C04_pget_is_filter :
  forall (V : Type) (n : node V) (trav : list str) (p : list kseg) (q : list str) (x : V),
    wfn n ->
    (In (q, x) (collect n trav p) <->
     exists k, q = trav ++ k /\ lookup n k = Some x /\ store_match p k = true).
Proof. exact @collect_spec. Qed.
Print Assumptions C04_pget_is_filter.

(* pdelete: ndelete_matches removes exactly the entries satisfying store_match, keeps every other
   entry, and returns what ncollect_matches would have returned *)
Theorem C04_pdelete_is_filter :
  forall (V : Type) (n : node V) (trav : list str) (p : list kseg) (q : list str),
    wfn n ->
    (wfn (dr_node (delm n trav p)) /\
     lookup (dr_node (delm n trav p)) q = if store_match p q then None else lookup n q) /\
    dr_matches (delm n trav p) = collect n trav p.
Proof. intros V n trav p q H. split; [now apply delm_spec|apply delm_matches]. Qed.
Print Assumptions C04_pdelete_is_filter.

(* the store's relation is the documented one plus "a trailing # also stands for zero levels" *)
Theorem C04_store_vs_doc :
  forall p k, wf_pat p = true -> store_match p k = doc_match p k || zero_multi p k.
Proof. exact store_vs_doc. Qed.
Print Assumptions C04_store_vs_doc.

Theorem C04_zero_multi_is_F2 :
  forall p k, wf_pat p = true ->
    (zero_multi p k = true <-> exists p', p = p' ++ [Multi] /\ doc_match p' k = true).
Proof. exact zero_multi_spec. Qed.
Print Assumptions C04_zero_multi_is_F2.

(* event routing uses the documented relation *)
Theorem C04_sub_eq_doc :
  forall p k, wf_pat p = true -> sub_match p k = doc_match p k.
Proof. exact sub_eq_doc. Qed.
Print Assumptions C04_sub_eq_doc.

(* outside the known class F2 all relations coincide with the documented one *)
Theorem C04_one_relation :
  forall p k, wf_pat p = true -> zero_multi p k = false ->
    store_match p k = doc_match p k /\ sub_match p k = doc_match p k.
Proof. exact one_relation. Qed.
Print Assumptions C04_one_relation.

(* known finding F2: `K/#` returns / deletes K itself but its subscribers are not notified *)
Theorem C04_F2_refuted :
  exists p k, wf_pat p = true /\ store_match p k = true /\ sub_match p k = false /\ doc_match p k = false.
Proof. exists [Reg [107]; Multi], [[107]]. vm_compute. auto. Qed.
Print Assumptions C04_F2_refuted.

(* known finding F3: a `#` that is not last is not rejected unless the traversal reaches it,
   and a subscriber below a `#` node is notified for every key under it *)
Theorem C04_F3_refuted :
  (exists (n : node nat) p, wf_pat p = false /\ reach_bad n p = false) /\
  (exists p k, wf_pat p = false /\ sub_match p k = true).
Proof.
  split.
  - exists (Node None []), [Reg [97]; Multi; Reg [98]]. vm_compute. auto.
  - exists [Multi; Reg [120]], [[97]; [98]]. vm_compute. auto.
Qed.
Print Assumptions C04_F3_refuted.

(* non-vacuity: a concrete tree and pattern satisfying the hypotheses *)
Example C04_nonvacuous :
  let n := Node None [([97], Node (Some 1%nat) [([98], Node (Some 2%nat) [])])] in
  wfn n /\ collect n [] [Reg [97]; Multi] = [([[97]], 1%nat); ([[97]; [98]], 2%nat)].
Proof. cbn. repeat split; repeat constructor; cbn; intuition discriminate. Qed.
