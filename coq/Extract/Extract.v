(* Extraction of the executable model.  ExtrOcamlBasic only; no Extract Constant /
   Extract Inductive of our own: positive / N / Z stay the extracted inductives. *)
Require Extraction.
Require ExtrOcamlBasic.
From WB Require Import Base.Str Base.Json Model.Key Model.Store Model.Subs Model.Entry Model.Core Model.Codec Model.JsonText Model.Auth Model.Persist Model.Aggregator Model.Session Model.Election Model.ElectionCodec Model.Client Model.Sync Model.Redb Model.Rest Model.RestWorld.
Extraction Language OCaml.
Extraction "model.ml" Core.step Core.is_crash Core.run Core.init Core.final Str.dec_of_N Str.split Str.join
  Key.kseg_parse Entry.enc_persisted Entry.dec_persisted N.add N.mul N.of_nat N.to_nat
  Codec.enc_cmsg Codec.dec_cmsg Codec.enc_smsg Codec.dec_smsg Codec.enc_sync Codec.dec_sync JsonText.print Entry.enc_node Entry.dec_node
  Auth.pattern_matches Auth.authorize Auth.auth_requirement
  Persist.flush Persist.restart Persist.fs_put Persist.fs_del Persist.pstep
  Aggregator.agg_init Aggregator.agg_step
  Session.world_init Session.sstep Session.sess_open Session.socket_held
  Election.einit Election.estep Election.started ElectionCodec.dec_pmsg
  Client.cinit Client.on_cmd Client.on_msg Client.result_of Client.sb_init Client.bstep
  Sync.cl_request Sync.cl_join Sync.cl_drain Sync.fstep_api Sync.user_entries Sync.registrations Sync.promote
  Redb.actions_of Redb.apply_all Redb.t_empty Redb.recover Redb.user_all Redb.recover_tables Redb.shutdown_actions
  Rest.rest_handle RestWorld.wrest.
