(* Extraction of the executable model.  ExtrOcamlBasic only; no Extract Constant /
   Extract Inductive of our own: positive / N / Z stay the extracted inductives. *)
Require Extraction.
Require ExtrOcamlBasic.
From WB Require Import Base.Str Base.Json Model.Key Model.Store Model.Subs Model.Entry Model.Core.
Extraction Language OCaml.
Extraction "model.ml" Core.step Core.is_crash Core.run Core.init Core.final Str.dec_of_N Str.split Str.join
  Key.kseg_parse Entry.enc_persisted Entry.dec_persisted N.add N.mul N.of_nat N.to_nat.
