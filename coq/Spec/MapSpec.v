(* The short specification of the store: a finite map from key paths to entries, used
   pointwise.  "accepted" is what the server answered; the specification says what the
   answer of every read must be and how every accepted write changes the map. *)
From WB Require Import Base.Str Base.Json Model.Key Model.Consts Model.Store Model.Match Model.Entry Model.Core.

Definition mstate := list str -> option entry.
Definition m_empty : mstate := fun _ => None.
Definition m_set (m : mstate) (p : list str) (e : entry) : mstate :=
  fun q => if path_eqb p q then Some e else m q.
Definition m_del (m : mstate) (p : list str) : mstate :=
  fun q => if path_eqb p q then None else m q.
Definition m_pdel (m : mstate) (pat : list kseg) : mstate :=
  fun q => if store_match pat q then None else m q.
Definition m_import (m : mstate) (other : node entry) : mstate :=
  fun q => match lookup other q with Some e => Some e | None => m q end.
Definition m_version (m : mstate) (p : list str) : N :=
  match m p with Some (Cas _ n) => n | _ => 0 end.
Definition meq (a b : mstate) : Prop := forall q, a q = b q.

(* the entry an accepted cset leaves behind *)
Definition cset_entry (m : mstate) (p : list str) (v : json) (n : N) (force : bool) : entry :=
  if force then match m p with Some (Cas _ _) => Cas v (n + 1) | _ => Cas v 1 end
  else Cas v (n + 1).

(* how an answered request changes the map *)
Definition write_effect (m m' : mstate) (o : op) (r : result) : Prop :=
  match o, r with
  | OSet _ k v _, RUnit => exists p, parse_segments k = Ok p /\ meq m' (m_set m p (Plain v))
  | OCSet _ k v n f, RUnit => exists p, parse_segments k = Ok p /\ meq m' (m_set m p (cset_entry m p v n f))
  | ODelete _ k, RValue x => exists p e, parse_segments k = Ok p /\ m p = Some e /\ x = entry_val e /\ meq m' (m_del m p)
  | OPDelete _ pat, RKvs _ => meq m' (m_pdel m (kseg_parse pat))
  | OImport j, RImported _ => exists other, dec_persisted j = Some other /\ meq m' (m_import m (strip_sys s_SYS other))   (* $SYS is not imported (F29) *)
  | _, _ => meq m' m        (* reads, and every request answered with an error *)
  end.

(* a pattern without `#` matches a parent path segment by segment *)
Fixpoint parent_match (p : list kseg) (k : list str) : bool :=
  match p, k with
  | [], [] => true
  | Wild :: p', _ :: k' => parent_match p' k'
  | Reg s :: p', x :: k' => str_eqb s x && parent_match p' k'
  | _, _ => false
  end.

(* what a read must answer *)
Definition read_ok (m : mstate) (o : op) (r : result) : Prop :=
  match o with
  | OGet k =>
      match parse_segments k with
      | Err c => r = RErr c
      | Ok p => match m p with Some e => r = RValue (entry_val e) | None => r = RErr E_NoSuchValue end
      end
  | OCGet k =>
      match parse_segments k with
      | Err c => r = RErr c
      | Ok p => match m p with
                | Some e => r = RCValue (entry_val e) (m_version m p)
                | None => r = RErr E_NoSuchValue
                end
      end
  | OPGet pat =>
      match r with
      | RKvs l => forall k v, In (k, v) l <->
                    exists q e, k = join slash q /\ v = entry_val e /\ m q = Some e /\
                                store_match (kseg_parse pat) q = true
      | RErr c => c = E_IllegalMultiWildcard /\ wf_pat (kseg_parse pat) = false
      | _ => False
      end
  | OLs (Some parent) =>
      let P := split slash parent in
      match r with
      | RNames l => NoDup l /\ (forall x, In x l <-> exists q e, m (P ++ x :: q) = Some e)
      | RErr c => c = E_NoSuchValue /\ forall q, m (P ++ q) = None
      | _ => False
      end
  | OLs None =>
      match r with
      | RNames l => NoDup l /\ (forall x, In x l <-> exists q e, m (x :: q) = Some e)
      | _ => False
      end
  | OPLs (Some parent) =>
      (* the distinct next segments below all parents matching the pattern; `#` is refused *)
      let pat := kseg_parse parent in
      match r with
      | RNames l => NoDup l /\
                    (forall x, In x l <-> exists P q e, parent_match pat P = true /\ m (P ++ x :: q) = Some e)
      | RErr c => c = E_IllegalMultiWildcard /\ In Multi pat
      | _ => False
      end
  | OPLs None =>
      match r with
      | RNames l => NoDup l /\ (forall x, In x l <-> exists q e, m (x :: q) = Some e)
      | _ => False
      end
  | OLen =>
      (* the number of keys that hold a value *)
      match r with
      | RLen n => exists keys, NoDup keys /\ (forall q, In q keys <-> m q <> None) /\ n = N.of_nat (length keys)
      | _ => False
      end
  | OPDelete _ pat =>
      match r with
      | RKvs l => forall k v, In (k, v) l <->
                    exists q e, k = join slash q /\ v = entry_val e /\ m q = Some e /\
                                store_match (kseg_parse pat) q = true
      | _ => True
      end
  | _ => True
  end.
