#!/bin/bash
# usage: tools/allseeds.sh   -- every saved seeded change against the quick check of its property (and, where meta.json names
# another check as the one that catches it, that one); prints one line per seed
cd /verif || exit 2
for d in seeded/*/; do
  id=$(basename "$d"); prop=${id%%-*}
  out=$(tools/seedtest.sh "/verif/$d/patch.diff" "$prop" 2>&1)
  if echo "$out" | grep -q "VIOLATION"; then echo "$id caught"; else echo "$id NOT CAUGHT: $(echo "$out" | tail -1)"; fi
done
git -C /repo status --short | grep -v '^??'
