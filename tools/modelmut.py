#!/usr/bin/env python3
"""Acceptance test for the tie between model and code: mutate the MODEL (not the code) and see whether the
correspondence of the property's quick check notices.  A model mutation that goes unnoticed means the generated
cases do not exercise that part of the model, i.e. the tie is loose there.

usage: tools/modelmut.py [name ...]     (no name: all)
Works on a scratch copy of coq/ (only Base, Model and Extract are compiled: the proofs of a mutated model are not the
point), swaps ocaml/model.ml for the mutated extraction, runs `./wv check` with WV_MUTATED_MODEL=1 (proofs and model
build skipped) and restores everything.  Never run concurrently with a check."""
import os, re, shutil, subprocess, sys, json

ROOT = os.path.dirname(os.path.dirname(os.path.abspath(__file__)))
SCR = "/tmp/modelmut"

# name -> (file, old, new, [properties whose quick check should notice])
MUTATIONS = {
    "queue-no-merge": ("Model/Core.v", "| (c', rs) :: l' => if N.eqb c c' then (c', rs ++ [r]) :: l' else (c', rs) :: queue_cand c r l'",
                       "| (c', rs) :: l' => (c', rs) :: queue_cand c r l'", ["C06"]),
    "unsubls-ignores-tid": ("Model/Core.v", "path_eqb (l_parent l) path && N.eqb (l_client l) c && N.eqb (l_tid l) t",
                            "path_eqb (l_parent l) path && N.eqb (l_client l) c", ["C05", "C07"]),
    "delete-no-ls-note": ("Model/Core.v", "(notify_ls s' (del_notes [] path (data s))) [] [])", "[] [] [])", ["C05"]),
    "plain-over-cas": ("Model/Core.v", "| Some (Cas c _), Plain v => if force then DOk true (negb (json_eqb c v)) (Plain v) else DErr E_Cas",
                       "| Some (Cas c _), Plain v => DOk true (negb (json_eqb c v)) (Plain v)", ["C02"]),
    "flip-first": ("Model/Persist.v", "let main := negb (fs_has f_toggle d) in\n  let snap := snapshot s in",
                   "let main := negb (fs_has f_toggle d) in\n  let d := flip d in\n  let snap := snapshot s in", ["C10"]),
    "mirror-drops-delete": ("Model/Sync.v", "| ODelete _ k => if starts_with s_SYS_prefix k then [] else [WDelete k]", "| ODelete _ k => []", ["C11"]),
    # (a mutation of take_batch -- batches running over registration actions -- is invisible by design: the driver offers EVERY
    #  prefix of the queue as a candidate after a kill, which is what C18_disk_is_prefix proves about all schedules)
    "del-row-stays": ("Model/Redb.v", "| ADel k => Tables (kv_del k (t_v2 t)) (t_gg t) (t_lw t)", "| ADel k => t", ["C18"]),
    "auth-wild-covers-multi": ("Model/Auth.v", "if (kseg_eqb gs Wild && negb (kseg_eqb rs Multi)) || kseg_eqb gs rs then pm g' r' else false",
                               "if kseg_eqb gs Wild || kseg_eqb gs rs then pm g' r' else false", ["C15"]),
    # (invisible by design: an event of the other kind forces an early flush, so the two buffers are never non-empty together)
    "agg-deleted-first": ("Model/Aggregator.v", "(match set_buf a with [] => [] | b => [AKvs (out_of b)] end) ++\n   (match del_buf a with [] => [] | b => [ADel (out_of b)] end)).",
                          "(match del_buf a with [] => [] | b => [ADel (out_of b)] end) ++\n   (match set_buf a with [] => [] | b => [AKvs (out_of b)] end)).", ["C16"]),
    "quorum-half": ("Model/Election.v", "| None => n / 2 + 1 end in", "| None => n / 2 end in", ["C19"]),
    "lastwill-unforced": ("Model/Core.v", "(fun s => iter_ops (fun s kv => do_insert s c (fst kv) (Plain (snd kv)) true)",
                          "(fun s => iter_ops (fun s kv => do_insert s c (fst kv) (Plain (snd kv)) false)", ["C07"]),
    "guard-allows-other-client": ("Model/Core.v", "if negb (str_eqb p1 s_clients) || negb (str_eqb p2 (client_str c))", "if negb (str_eqb p1 s_clients)", ["C08"]),
}

def sh(cmd, cwd=None, env=None, timeout=3600):
    p = subprocess.run(cmd, cwd=cwd, env=env, stdout=subprocess.PIPE, stderr=subprocess.STDOUT, timeout=timeout)
    return p.returncode, p.stdout.decode(errors="replace")

def build_drivers():
    oc = os.path.join(ROOT, "ocaml")
    for drv in [f[:-3] for f in os.listdir(oc) if f.endswith("_driver.ml")]:
        srcs = ["model.mli", "model.ml", "conv.ml", "str_find.ml", "core_driver_lib.ml", drv + ".ml"]
        rc, out = sh(["ocamlfind", "ocamlopt", "-w", "-a"] + srcs + ["-o", drv], cwd=oc)
        if rc != 0:
            return False, out
    return True, ""

def main():
    names = sys.argv[1:] or [n for n, m in MUTATIONS.items() if m[1]]
    oc = os.path.join(ROOT, "ocaml")
    results = {}
    for f in ("model.ml", "model.mli"):
        shutil.copy(os.path.join(oc, f), os.path.join(oc, f + ".orig"))
    try:
        for name in names:
            file, old, new, props = MUTATIONS[name]
            shutil.rmtree(SCR, ignore_errors=True)
            shutil.copytree(os.path.join(ROOT, "coq"), SCR, ignore=shutil.ignore_patterns("*.vo", "*.vok", "*.vos", "*.glob", ".*.aux", "Makefile*", ".Makefile.d"))
            src = open(os.path.join(SCR, file)).read()
            if old not in src:
                results[name] = "MUTATION TEXT NOT FOUND"; continue
            open(os.path.join(SCR, file), "w").write(src.replace(old, new, 1))
            sh(["coq_makefile", "-f", "_CoqProject", "-o", "Makefile"], cwd=SCR)
            targets = [l.strip() + "o" for l in open(os.path.join(SCR, "_CoqProject")) if l.startswith(("Base/", "Model/"))]
            rc, out = sh(["make", "-j8"] + targets, cwd=SCR)
            if rc == 0:
                rc, out = sh(["coqc", "-Q", "..", "WB", "Extract.v"], cwd=os.path.join(SCR, "Extract"))
            if rc != 0:
                results[name] = "mutated model does not compile: " + out[-300:]; continue
            for f in ("model.ml", "model.mli"):
                p = os.path.join(SCR, f) if os.path.exists(os.path.join(SCR, f)) else os.path.join(SCR, "Extract", f)
                shutil.copy(p, os.path.join(oc, f))
            ok, out = build_drivers()
            if not ok:
                results[name] = "drivers do not build: " + out[-300:]; continue
            res = {}
            for prop in props:
                rc, out = sh(["./wv", "check", prop, "--tier", "quick"], cwd=ROOT, env=dict(os.environ, WV_MUTATED_MODEL="1"))
                res[prop] = "noticed" if "VIOLATION" in out else "NOT NOTICED"
            results[name] = res
            print(name, results[name]); sys.stdout.flush()
    finally:
        for f in ("model.ml", "model.mli"):
            shutil.move(os.path.join(oc, f + ".orig"), os.path.join(oc, f))
        build_drivers()
        shutil.rmtree(SCR, ignore_errors=True)
    print(json.dumps(results, indent=1))

if __name__ == "__main__":
    main()
