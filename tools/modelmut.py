#!/usr/bin/env python3
"""Acceptance test for the tie between model and code: mutate the MODEL (not the code) and see whether the
correspondence of the property's quick check notices.  A model mutation that goes unnoticed means the generated
cases do not exercise that part of the model, i.e. the tie is loose there.

usage: tools/modelmut.py [name ...]     (no name: all)
Works on a scratch copy of coq/ (only Base, Model and Extract are compiled: the proofs of a mutated model are not the
point), swaps ocaml/model.ml for the mutated extraction, runs `./wv check` with WV_MUTATED_MODEL=1 (proofs and model
build skipped) and restores everything.  Never run concurrently with a check."""
import os, re, shutil, subprocess, sys, json

ROOT = os.path.dirname(os.path.dirname(os.path.abspath(__file__)))
SCR = "/tmp/modelmut"

# name -> (file, old, new, [properties whose quick check should notice])
MUTATIONS = {
    "queue-no-merge": ("Model/Core.v", "| (c', rs) :: l' => if N.eqb c c' then (c', rs ++ [r]) :: l' else (c', rs) :: queue_cand c r l'",
                       "| (c', rs) :: l' => (c', rs) :: queue_cand c r l'", ["C06"]),
    "unsubls-ignores-tid": ("Model/Core.v", "path_eqb (l_parent l) path && N.eqb (l_client l) c && N.eqb (l_tid l) t",
                            "path_eqb (l_parent l) path && N.eqb (l_client l) c", ["C05", "C07"]),
    "delete-no-ls-note": ("Model/Core.v", "(notify_ls s' (del_notes [] path (data s))) [] [])", "[] [] [])", ["C05"]),
    "plain-over-cas": ("Model/Core.v", "| Some (Cas c _), Plain v => if force then DOk true (negb (json_eqb c v)) (Plain v) else DErr E_Cas",
                       "| Some (Cas c _), Plain v => DOk true (negb (json_eqb c v)) (Plain v)", ["C02"]),
    "flip-first": ("Model/Persist.v", "let main := negb (fs_has f_toggle d) in\n  let snap := snapshot s in",
                   "let main := negb (fs_has f_toggle d) in\n  let d := flip d in\n  let snap := snapshot s in", ["C10"]),
    "mirror-drops-delete": ("Model/Sync.v", "| ODelete _ k => if starts_with s_SYS_prefix k then [] else [WDelete k]", "| ODelete _ k => []", ["C11"]),
    # (a mutation of take_batch -- batches running over registration actions -- is invisible by design: the driver offers EVERY
    #  prefix of the queue as a candidate after a kill, which is what C18_disk_is_prefix proves about all schedules)
    "del-row-stays": ("Model/Redb.v", "| ADel k => Tables (kv_del k (t_v2 t)) (t_gg t) (t_lw t)", "| ADel k => t", ["C18"]),
    "auth-wild-covers-multi": ("Model/Auth.v", "if (kseg_eqb gs Wild && negb (kseg_eqb rs Multi)) || kseg_eqb gs rs then pm g' r' else false",
                               "if kseg_eqb gs Wild || kseg_eqb gs rs then pm g' r' else false", ["C15"]),
    # (invisible by design: an event of the other kind forces an early flush, so the two buffers are never non-empty together)
    "agg-deleted-first": ("Model/Aggregator.v", "(match set_buf a with [] => [] | b => [AKvs (out_of b)] end) ++\n   (match del_buf a with [] => [] | b => [ADel (out_of b)] end)).",
                          "(match del_buf a with [] => [] | b => [ADel (out_of b)] end) ++\n   (match set_buf a with [] => [] | b => [AKvs (out_of b)] end)).", ["C16"]),
    "quorum-half": ("Model/Election.v", "| None => n / 2 + 1 end in", "| None => n / 2 end in", ["C19"]),
    "lastwill-unforced": ("Model/Core.v", "(fun s => iter_ops (fun s kv => do_insert s c (fst kv) (Plain (snd kv)) true)",
                          "(fun s => iter_ops (fun s kv => do_insert s c (fst kv) (Plain (snd kv)) false)", ["C07"]),
    "guard-allows-other-client": ("Model/Core.v", "if negb (str_eqb p1 s_clients) || negb (str_eqb p2 (client_str c))", "if negb (str_eqb p1 s_clients)", ["C08"]),
    # ---- second batch ----
    "quiet-ignored": ("Model/Session.v", "[SPState t p (PDel (match q with Some true => [] | _ => l end))]", "[SPState t p (PDel l)]", ["C13"]),
    "sub-ack-after-events": ("Model/Session.v", "| MSubscribe _ _ _ _ | MPSubscribe _ _ _ _ _ | MSubscribeLs _ _ => (w', ans ++ route_events w' out, Continue)",
                             "| MSubscribe _ _ _ _ | MPSubscribe _ _ _ _ _ | MSubscribeLs _ _ => (w', route_events w' out ++ ans, Continue)", ["C13"]),
    "v0-serves-cget": ("Model/Session.v", "match m with MCGet _ _ | MCSet _ _ _ _ | MLock _ _ | MAcquireLock _ _ | MReleaseLock _ _ => true | _ => false end.",
                       "match m with MCSet _ _ _ _ | MLock _ _ | MAcquireLock _ _ | MReleaseLock _ _ => true | _ => false end.", ["C13"]),
    "waithb-checks-member": ("Model/Election.v", "      | HbReq id => (set_ph s (Done (Follower id)), [])\n      | Garbage => (set_ph s (Done Failed), [])\n      | _ => (s, [])\n      end\n  | Requesting",
                             "      | HbReq id => if is_part_of_cluster s id then (set_ph s (Done (Follower id)), []) else (s, [])\n      | Garbage => (set_ph s (Done Failed), [])\n      | _ => (s, [])\n      end\n  | Requesting", ["C19"]),
    "dup-votes-count": ("Model/Election.v", "(set_ph s (Requesting v' (filter (fun x => negb (str_eqb x id)) rem) (id :: voters)), [])",
                        "(set_ph s (Requesting v' rem (id :: voters)), [])", ["C19"]),
    "prio-strict": ("Model/Election.v", "Definition prio_ge (theirs mine : Z) : bool := Z.leb theirs mine.", "Definition prio_ge (theirs mine : Z) : bool := Z.ltb theirs mine.", ["C19"]),
    "ls-auth-on-parent": ("Model/Auth.v", "match parent with Some p => p ++ [slash; ch_qmark] | None => [ch_qmark] end.", "match parent with Some p => p | None => [ch_qmark] end.", ["C15"]),
    "publish-needs-read": ("Model/Auth.v", "| MSet _ k _ | MCSet _ k _ _ | MSPubInit _ k | MPublish _ k _\n  | MLock _ k | MAcquireLock _ k | MReleaseLock _ k => Some (PWrite, k)",
                           "| MPublish _ k _ => Some (PRead, k)\n  | MSet _ k _ | MCSet _ k _ _ | MSPubInit _ k\n  | MLock _ k | MAcquireLock _ k | MReleaseLock _ k => Some (PWrite, k)", ["C15"]),
    "no-flush-on-kind-change": ("Model/Aggregator.v", "let '(a2, out) := if (match del_buf a1 with [] => false | _ => true end) || already_buffered a1 kvs",
                                "let '(a2, out) := if already_buffered a1 kvs", ["C16"]),
    "sub-multi-zero-levels": ("Model/Match.v", "  | [], [] => true\n  | Multi :: _, _ :: _ => true\n  | Wild :: p', _ :: k' => sub_match p' k'",
                              "  | [], [] => true\n  | Multi :: _, _ => true\n  | Wild :: p', _ :: k' => sub_match p' k'", ["C04", "C03"]),
    "checksum-not-compared": ("Model/Persist.v", "| Some (FJson j), Some (FSum j') => if json_eqb j j' then Some j else None", "| Some (FJson j), Some (FSum j') => Some j", ["C10", "C09"]),
    "fallback-without-gglw": ("Model/Persist.v", "          | Some (gg, lw) => Some (apply_gglw (core_of n) gg lw, flip d)\n          | None => None",
                              "          | Some (gg, lw) => Some (apply_gglw (core_of n) gg lw, flip d)\n          | None => Some (core_of n, flip d)", ["C10"]),
    "cas-tag-any-number": ("Model/Entry.v", "match u64_of_lit lit with Some n => Cas v n | None => Plain j end", "match digits_val lit 0 with Some n => Cas v n | None => Plain j end", ["C09"]),
    "mirror-sys-pdelete": ("Model/Sync.v", "| OPDelete _ p => if starts_with s_SYS_prefix p then [] else [WPDelete p]", "| OPDelete _ p => [WPDelete p]", ["C11"]),
    "end-mirror-unforced": ("Model/Sync.v", "[WSet (fst kv) (snd kv) true]) lw.", "[WSet (fst kv) (snd kv) false]) lw.", ["C11"]),
    "promote-skips-wills": ("Model/Sync.v", "let f1 := apply_gglw f (all_grave_goods f) (all_last_wills f) in", "let f1 := apply_gglw f (all_grave_goods f) [] in", ["C12"]),
    "recover-skips-wills": ("Model/Redb.v", "  fold_left (fun s cl => fold_left (fun s kv => fst (do_insert s 0 (fst kv) (Plain (snd kv)) true)) (snd cl) s) (t_lw t) s1.\n\n(* a whole run",
                            "  s1.\n\n(* a whole run", ["C18"]),
    "internal-delete-clears-table": ("Model/Redb.v", "if starts_with s_SYS_prefix k then (if N.eqb c 0 then [] else reg_del k) else [ADel k].", "if starts_with s_SYS_prefix k then reg_del k else [ADel k].", ["C18"]),
    # ---- third batch: the REST model, the new client commands, the repaired import ----
    "rest-ls-auth-on-parent": ("Model/Rest.v", "| RLs parent => (PRead, ls_pattern parent)", "| RLs parent => (PRead, match parent with Some p => p | None => ls_pattern None end)", ["C15"]),
    "rest-export-needs-write": ("Model/Rest.v", "| RExport => (PRead, s_hash_pat)", "| RExport => (PWrite, s_hash_pat)", ["C15"]),
    "rest-invalid-token-401": ("Model/Rest.v", "| TInvalid => Some 403", "| TInvalid => Some 401", ["C15"]),
    "rest-writes-as-server": ("Model/Rest.v", "Definition rest_cid : cid := 254.", "Definition rest_cid : cid := 0.", ["C08"]),
    "rest-missing-is-204": ("Model/Rest.v", "else if N.eqb code 5 then 404", "else if N.eqb code 5 then 204", ["C01"]),
    "import-reaches-sys": ("Model/Core.v", "let other := strip_sys s_SYS other0 in", "let other := other0 in", ["C08", "C01"]),
    "cget-async-sends-get": ("Model/Client.v", "| CCGetAsync k => (plain, MCGet t k, Ticket t)", "| CCGetAsync k => (plain, MGet t k, Ticket t)", ["C20"]),
    "lock-async-awaits": ("Model/Client.v", "| CLockAsync k => (plain, MLock t k, Ticket t)", "| CLockAsync k => (plain, MAcquireLock t k, Ticket t)", ["C20"]),
    "two-race-winners": ("Model/Core.v", "      else if N.eqb vc n then bump v n true (negb (json_eqb c v))\n      else DErr E_CasVersionMismatch",
                         "      else if N.leb vc (n + 1) then bump v n true (negb (json_eqb c v))\n      else DErr E_CasVersionMismatch", ["C02"]),
    "ticket-unsub-needs-callback": ("Model/Client.v", "      (CState n (ack c) (state c) (cstate_ c) (pstate c) (lsstate c) (cb_remove tid (sub c)) (cb_remove tid (psub c)) (subls c),\n       MUnsubscribe tid, Ticket tid)",
                                    "      (CState n (ack c) (state c) (cstate_ c) (pstate c) (lsstate c) (cb_remove tid (sub c)) (cb_remove tid (psub c)) (subls c),\n       MUnsubscribeLs tid, Ticket tid)", ["C20"]),
}

def sh(cmd, cwd=None, env=None, timeout=3600):
    p = subprocess.run(cmd, cwd=cwd, env=env, stdout=subprocess.PIPE, stderr=subprocess.STDOUT, timeout=timeout)
    return p.returncode, p.stdout.decode(errors="replace")

def build_drivers():
    oc = os.path.join(ROOT, "ocaml")
    for drv in [f[:-3] for f in os.listdir(oc) if f.endswith("_driver.ml")]:
        srcs = ["model.mli", "model.ml", "conv.ml", "str_find.ml", "core_driver_lib.ml", drv + ".ml"]
        rc, out = sh(["ocamlfind", "ocamlopt", "-w", "-a"] + srcs + ["-o", drv], cwd=oc)
        if rc != 0:
            return False, out
    return True, ""

def main():
    names = sys.argv[1:] or [n for n, m in MUTATIONS.items() if m[1]]
    oc = os.path.join(ROOT, "ocaml")
    results = {}
    for f in ("model.ml", "model.mli"):
        shutil.copy(os.path.join(oc, f), os.path.join(oc, f + ".orig"))
    try:
        for name in names:
            file, old, new, props = MUTATIONS[name]
            shutil.rmtree(SCR, ignore_errors=True)
            shutil.copytree(os.path.join(ROOT, "coq"), SCR, ignore=shutil.ignore_patterns("*.vo", "*.vok", "*.vos", "*.glob", ".*.aux", "Makefile*", ".Makefile.d"))
            src = open(os.path.join(SCR, file)).read()
            if old not in src:
                results[name] = "MUTATION TEXT NOT FOUND"; continue
            open(os.path.join(SCR, file), "w").write(src.replace(old, new, 1))
            sh(["coq_makefile", "-f", "_CoqProject", "-o", "Makefile"], cwd=SCR)
            targets = [l.strip() + "o" for l in open(os.path.join(SCR, "_CoqProject")) if l.startswith(("Base/", "Model/"))]
            rc, out = sh(["make", "-j8"] + targets, cwd=SCR)
            if rc == 0:
                rc, out = sh(["coqc", "-Q", "..", "WB", "Extract.v"], cwd=os.path.join(SCR, "Extract"))
            if rc != 0:
                results[name] = "mutated model does not compile: " + out[-300:]; continue
            for f in ("model.ml", "model.mli"):
                p = os.path.join(SCR, f) if os.path.exists(os.path.join(SCR, f)) else os.path.join(SCR, "Extract", f)
                shutil.copy(p, os.path.join(oc, f))
            ok, out = build_drivers()
            if not ok:
                results[name] = "drivers do not build: " + out[-300:]; continue
            res = {}
            for prop in props:
                rc, out = sh(["./wv", "check", prop, "--tier", "quick"], cwd=ROOT, env=dict(os.environ, WV_MUTATED_MODEL="1"))
                res[prop] = "noticed" if "VIOLATION" in out else "NOT NOTICED"
            results[name] = res
            print(name, results[name]); sys.stdout.flush()
    finally:
        for f in ("model.ml", "model.mli"):
            shutil.move(os.path.join(oc, f + ".orig"), os.path.join(oc, f))
        build_drivers()
        shutil.rmtree(SCR, ignore_errors=True)
    print(json.dumps(results, indent=1))

if __name__ == "__main__":
    main()
