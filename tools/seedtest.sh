#!/bin/bash
# usage: tools/seedtest.sh <patch.diff> <prop> [<prop> ...]   -- applies a seeded change to /repo, runs the quick checks, undoes it
set -u
patch="$(readlink -f "$1")"; shift
cd /repo || exit 2
if ! git apply --check "$patch" 2>/dev/null; then echo "PATCH DOES NOT APPLY: $patch"; exit 2; fi
git apply "$patch"
for p in "$@"; do
  (cd /verif && ./wv check "$p" --tier quick 2>&1 | tail -4 | sed "s/^/[$p] /")
done
git -C /repo checkout -- .
git -C /repo status --short | grep -v '^??' | head
