#!/usr/bin/env python3
"""Regenerates MANIFEST.json from the table below (claimed properties) -- run after adding a check."""
import json, os
ROOT = os.path.dirname(os.path.dirname(os.path.abspath(__file__)))
CORE_NOTE = ("Trusted: Coq 8.16.1 kernel (no axioms: every property theorem prints `Closed under the global context`), "
             "ExtrOcamlBasic extraction, OCaml/Rust/python glue, and the hand-written Gallina model Model/Core.v (the code is modelled, not verified; "
             "the tie is the behavioural correspondence run on every check against the real `Worterbuch` value driven request by request through the `verif` hook). "
             "Requests are applied one at a time (the core is a single-consumer task); tokio scheduling, channel back-pressure and hashbrown iteration order are not modelled "
             "(multi-element outputs compared up to permutation).")
CLAIMS = {
 "C01": ("Refinement theorem: every finite history of get/cget/pget/ls/pls/len/set/cset/delete/pdelete/import requests from any clients, from the empty store, "
         "is a trace of the map specification Spec/MapSpec.v (C01_run_refines, by induction over the operation list from the one-step theorem C01_step_refines); "
         "a request answered with an error leaves the map unchanged (and for set/cset/pdelete/import the whole state: C01_rejected_write_is_identity); ls is exact (C01_ls_exact). "
         "Hypotheses: no version overflow (F17), imported trees have distinct regular segment names. Not yet proved in Coq and covered by the correspondence + MapSpec oracle only: entry count, pls. "
         "Correspondence: exhaustive short histories + seeded random long histories on the real core vs the extracted model, and an independent python MapSpec oracle on the implementation's answers.",
         CORE_NOTE, "Coq refinement proof (induction over histories, tree invariants) + extracted-model differential check + MapSpec oracle"),
 "C02": ("Theorems: C02_cset_rule (accepted iff carried version = current version, then +1, else CasVersionMismatch and identity), C02_set_never_replaces_cas, and for every operation list "
         "(= every interleaving of any number of clients at request granularity) C02_no_lost_update (version grows by exactly the number of acknowledged csets), C02_versions_monotone, C02_one_winner. "
         "Boundary u64::MAX excluded by hypothesis and exhibited as C02_overflow_refuted (known finding F17). Correspondence: all interleavings of cget->cset client programs (2-4 clients, 1-3 rounds, one/two keys, disturbers), random stale/future/boundary versions. "
         "PARTIAL: atomicity of a request under the multi-threaded tokio runtime is an assumption of the theorem.",
         CORE_NOTE + " The client library's try_update loop is not modelled.", "Coq proof over all operation lists + exhaustive interleaving correspondence"),
 "C04": ("Theorems over the model for all patterns/keys/trees of any depth: C04_pget_is_filter (ncollect_matches returns exactly the entries satisfying store_match), "
         "C04_pdelete_is_filter (ndelete_matches removes exactly those and returns them), C04_store_vs_doc / C04_zero_multi_is_F2 (store relation = documented relation + exactly the class F2), "
         "C04_sub_eq_doc, C04_one_relation; refuted-witness theorems for F2 and F3. Tied to the code by the exhaustive enumeration the property names (patterns over {a,b,'',?,#} x keys over {a,b,''} to depth 3 quick / 4 thorough) "
         "on the real core vs the extracted model, plus an independent oracle of the documented relation. PARTIAL: the subscriber-tree traversal (add_matches) is covered by correspondence, its Coq characterisation is stated for the relation sub_match only.",
         CORE_NOTE, "Coq proof (nested-tree induction) + exhaustive extracted-model differential check"),
 "C03": ("Theorems: C03_routing (the subscriber-tree traversal add_matches returns exactly the subscribers registered at positions P with sub_match P key, any tree/key/depth), C03_routing_is_documented, "
         "C03_notify_exact (one accepted change produces, per registered matching subscriber, exactly the event of that change, suppressed iff unique and unchanged), C03_psubscribe (fresh channel, registration at the pattern, snapshot = pget at that moment, refused psubscribe is the identity), C03_F2_refuted. "
         "PARTIAL: the history-level statement (queue = snapshot ++ one event per later accepted matching change, nothing after unsubscribe) is decided by the correspondence (exhaustive short histories with a subscription inserted at every position x unique x live-only, random long ones) and the independent event-specification oracle incl. the fold = pget check, not yet by a Coq induction. Socket-side forwarding order is runtime and not modelled.",
         CORE_NOTE, "Coq proof of routing/emission content + extracted-model differential check + event-spec oracle"),
 "C05": ("Theorems: C05_ls_exact, C05_ls_none_iff_nothing_below (ls on a well-formed clean tree = distinct next segments of the stored keys below the parent; NoSuchValue iff nothing at or below), C05_pls_union, C05_notification_routing, C05_import_refuted (known finding F18b). "
         "PARTIAL: 'after every request the last list an ls-subscriber received equals ls' is decided by the correspondence (ls-subscriptions on root/existing/not-yet-existing parents at every position of exhaustive short histories, random long ones; projection count + last list) and the ls oracle, not yet by a Coq invariant.",
         CORE_NOTE, "Coq proof of ls/pls exactness + extracted-model differential check + ls oracle"),
 "C06": ("Theorems over the lock table as a function key path -> (holder, FIFO of waiting clients with their pending acquire requests): C06_lock_ok_iff_free_or_mine, C06_acquire (fresh id, confirmed at once iff free or mine, else queued), C06_fifo_queue, C06_release (only the holder frees; hand-over to the first waiter confirms exactly its requests; a foreign release keeps the holder, dequeues and cancels the caller). "
         "PARTIAL: 'each request confirmed at most once over a whole history' and 'a session end releases/cancels everything of the client' are decided by the correspondence (every sequence <= 3/4 over 3 clients x 2 nested keys x {lock,acquire,release,disconnect}, random long ones, oneshot receivers polled after every request) and the independent LockSpec oracle.",
         CORE_NOTE + " extended_monitoring = false.", "Coq step theorems on the lock map + exhaustive extracted-model differential check + LockSpec oracle"),
 "C07": ("Theorems: C07_publish_streams_die_with_session (any non-crashing session end), C07_burial_touches_no_table / C07_last_will_touches_no_table; the model's do_disconnected is the ordered composition of guarded pdelete / forced set requests under the client's id, so C01/C04/C08 theorems apply to each. "
         "PARTIAL: the closed form (state after = lastwill . bury . drop_sys) and the removal of subscriptions, ls-subscriptions and locks are decided by the correspondence (all disconnect orders of three clients with overlapping registrations, protected/malformed/re-registered registrations, random histories; projection = full dump incl. $SYS, all queues, lock confirmations, probes) and the independent session-end oracle.",
         CORE_NOTE + " extended_monitoring = false.", "Coq table-bookkeeping theorems + extracted-model differential check + session-end oracle"),
 "C08": ("Theorems: C08_guard_literal (for a literal key under $SYS an ordinary client passes the guard exactly for $SYS/clients/<own id>/{graveGoods,lastWill,clientName}[/..], else ReadOnlyKey), C08_refused_is_identity (a refused set/cset/delete/pdelete/spub-init changes nothing at all), "
         "refuted-witness theorems C08_pdelete_wildcard_refuted (F4) and C08_publish_refuted (F5). Correspondence: sentinels under $SYS + internal observer; every key/pattern shape reaching $SYS (first segment $SYS/?/#/user, depth 3-4) x 11 request kinds incl. grave goods and last wills at disconnect; oracle: protected keys unchanged and unobserved except server bookkeeping, F4/F5 as known findings.",
         CORE_NOTE, "Coq proof of the guard table + exhaustive extracted-model differential check + $SYS oracle"),
 "C14": ("Layer 1 (message <-> JSON value), full proof for every variant: C14_roundtrip_client (23 variants), C14_roundtrip_server (8), C14_roundtrip_sync (LeaderSyncMessage/ClientWriteCommand/StateSync incl. the stored node tree) for all ids/versions in range, arbitrary keys and arbitrary nested values; C14_u64_text (decimal printer/reader round trip for every u64); "
         "C14_sync_F8_refuted (known finding F8: plain null / plain {\"Cas\":[x,n]} inside a StateSync). Layer 2: C14_single_line (the compact writer never emits a line break, full proof). "
         "NOT modelled (named): serde_json's tokenizer and float printing/parsing, UTF-8 validation -- exercised by the correspondence: every generated message goes through the real from_str -> to_string -> from_str and the text is compared byte for byte with the extracted model's print(enc(dec)); a quarter of the inputs are malformed and the model's decoder must accept/reject like serde's derive.",
         "Trusted: Coq kernel (no axioms), extraction, OCaml JSON text parser (glue), the hand-written model Model/Codec.v of the derive(Serialize, Deserialize) semantics (tie = byte-exact correspondence on every run). Numbers above u64::MAX / floats are not generated as literals the model would have to re-print.",
         "Coq round-trip proofs per message type + byte-exact differential check against serde"),
 "C15": ("Theorems: the containment decided by auth.rs::pattern_matches is sound for each relation by which a served request selects keys -- C15_sound_doc, C15_sound_store, C15_sound_sub (any granted well-formed pattern g, any requested pattern r, any key, any depth), C15_sound_key (literal keys), C15_authorize (served iff some grant of that privilege contains the request), C15_table_total (every request kind that returns/changes/removes keys is checked; only spub, unsubscribe, unsubscribeLs, the handshake messages are not). "
         "Correspondence: real pattern_matches vs model for every pattern pair over {a,b,?,#} to depth 3 (quick) / 4 (thorough) + sampled pairs with empty/unicode segments; brute-force containment oracle over keys to depth 5 under all three relations as failing-input search; JwtClaims::authorize on random grant sets. "
         "PARTIAL: token validation (jsonwebtoken: signature, expiry) is trusted; 'no request is served before a valid token' and the privilege/pattern table per request kind are properties of the session handler, modelled in Model/Auth.v auth_requirement but validated only through the session engine.",
         "Trusted: Coq kernel (no axioms), extraction, glue, Model/Auth.v (tie: exhaustive differential check through the `verif` re-export of auth::pattern_matches).",
         "Coq soundness proofs of the containment + exhaustive differential check + brute-force oracle"),
 "C09": ("Theorems: C09_node_roundtrip / C09_entry_roundtrip (the stored tree, every value, plain/CAS kind and CAS version up to u64::MAX survive the file representation, outside the exactly characterised class F8), C09_registrations_roundtrip, "
         "C09_load_flush (for every server state and every previous directory content: load(flush) = lastwills . gravegoods (user part of the store, $SYS stripped), directory unchanged by the load), C09_F8_refuted. "
         "Correspondence: generated stores (segments named t/v, tag look-alike values, nested objects, big/fractional numbers, CAS versions to u64::MAX, registrations) -> real flush -> directory listing compared byte for byte with the model -> real load -> dump; hand-laid v1 / v2 / v3 directories in both toggle states with two different snapshots and broken slots. "
         "PARTIAL: the text layer (serde_json parse/print of the files, sha256) is abstracted in the theorem and exercised only by the correspondence; the legacy v2/v1 loaders are modelled and compared, not covered by a theorem.",
         "Trusted: Coq kernel (no axioms), extraction, glue, Model/Persist.v + Model/Entry.v (tie: directory contents and reloaded state compared on every run through the `verif` hooks json_flush_synchronous / json_load).",
         "Coq round-trip and load-after-flush proofs + differential check on real directories"),
 "C10": ("Theorems for every directory content, server state and crash point: C10_crash_before_flip_keeps_active_slot (a flush dying at any of the 16 crash points before the flip leaves the selector and the four files of the active slot untouched), C10_crash_recovers_last_completed (the next start then recovers exactly what a start without that flush would have: store and registrations of the last completed snapshot from one slot), "
         "C10_completed_flush_is_selected and C10_crash_after_flip_is_complete (a flush that completes or dies after the flip has switched to a slot holding its own store and its own registrations with valid checksums). These hold for the repaired protocol (fix commits 665300d, c036057, 633943b; the pre-fix code violated C10 at 15 of 17 crash points: corpus/F9-demonstration-*). "
         "PARTIAL: the composition into an invariant over arbitrary flush/crash/restart chains is decided by the correspondence (complete enumeration of crash points for histories of 1-4 flushes, two-crash chains, random multi-flush histories; directory listing and recovered state vs model) and the recovery oracle, not yet by a Coq induction. Process-crash model only (completed operations persist in order); two concurrent flushes are outside the model.",
         "Trusted: as C09, plus the crash-point hook in v3.rs (simulated kill = early return at a crash point; a torn write leaves the first half of the data).",
         "Coq proof of the flush protocol steps at every crash point + exhaustive crash-point enumeration against the real code"),
 "C16": ("Theorems over all schedules (= all lists of event arrivals and clock advances, incl. stale timers after an early flush): C16_content (batches concatenated in arrival order ++ what is still buffered = the arrived events in arrival order, hence the same per-key sequence of set/deleted events as the un-aggregated subscription; hypothesis: one incoming event names a key at most once), C16_step_content with the invariant 'never both buffers non-empty, each key at most once', "
         "C16_delay + C16_delay_invariant_all_schedules (every buffered event is covered by a trigger task due within the interval; after time has passed nothing buffered arrived an interval ago or earlier). "
         "Correspondence: the real PStateAggregator on tokio's paused clock, every sequence of <= 3/4 events x arrival gaps {0,d/2,d,d+1}, random schedules; batches with virtual timestamps vs model; independent content/delay oracle. "
         "PARTIAL: the order of a due timer vs a ready receive at the same instant and client back-pressure are runtime (outside the model); the unbatched first event of aggregate_loop is modelled in the session engine only.",
         "Trusted: Coq kernel (no axioms), extraction, glue, Model/Aggregator.v (tie: `verif` re-export of PStateAggregator driven on a paused clock).",
         "Coq invariant proofs over all schedules + paused-clock differential check"),
}
def chk(pid, text, note, technique):
    return {"property_id": pid, "quick_cmd": f"./wv check {pid} --tier quick", "thorough_cmd": f"./wv check {pid} --tier thorough",
            "evidence_file": f"/verif/evidence/{pid}.json", "replay_cmd_template": "./wv replay {path}", "engine": "coq-model+correspondence",
            "level_claimed": {"category": "proof", "text": text, "design_ref": f"DESIGN.md section 5 {pid}"}, "level_note": note, "technique": technique}
NA_REASON = {}
def main():
    na_default = "check not built yet (in progress; DESIGN.md section 5 gives the design); not claimed until its theorems and correspondence exist"
    hooks = json.load(open(os.path.join(ROOT, "hooks.json")))
    m = {"version": 1, "setup_cmd": "./wv setup",
         "hooks": hooks,
         "engines": [{"name": "coq-model+correspondence", "path": "/verif/coq, /verif/ocaml, /verif/harness, /verif/lib", "serves_properties": sorted(CLAIMS),
                      "kind_free_text": "hand-written executable Gallina model with machine-checked theorems (Coq 8.16.1), extracted to OCaml, run against the real Rust code on generated cases by a Rust harness (feature `verif`); python driver with independent specification oracles"}],
         "checks": [chk(p, *CLAIMS[p]) for p in sorted(CLAIMS)],
         "notes": "fix: commits in /repo are recorded in known_findings.json (status fixed); unrepaired defects are listed there with status known.",
         "not_applicable": [{"property_id": f"C{n:02d}", "reason": NA_REASON.get(f"C{n:02d}", na_default)} for n in range(1, 21) if f"C{n:02d}" not in CLAIMS]}
    json.dump(m, open(os.path.join(ROOT, "MANIFEST.json"), "w"), indent=1)
if __name__ == "__main__":
    main()
