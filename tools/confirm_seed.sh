#!/bin/bash
# usage: tools/confirm_seed.sh <worktree> <outdir(with patch.diff, demo.rs)> <file to paste demo into> <test name filter> [append]
# Confirms: patch compiles, existing lib tests pass with the patch, demo passes without and fails with the patch.
# default: the demo goes inside the file's final `mod test { .. }`; `append`: the demo is a module of its own, appended to the file.
wt="$1"; out="$2"; file="$3"; filt="$4"; mode="${5:-inside}"
cd "$wt" || exit 2
git checkout -q -- . ; res="$out/confirm.txt"; : > "$res"
paste() {
  if [ "$mode" = append ]; then cat "$out/demo.rs" >> "$file"
  else head -n -1 "$file" > /tmp/paste.$$; cat "$out/demo.rs" >> /tmp/paste.$$; echo "}" >> /tmp/paste.$$; cp /tmp/paste.$$ "$file"; rm -f /tmp/paste.$$; fi; }
git apply "$out/patch.diff" && echo "patch applies" >> "$res"
cargo test --offline -p ${PKG:-worterbuch} --lib 2>&1 | grep -E "^test result|error" | head -3 | sed 's/^/with patch, existing lib tests: /' >> "$res"
paste
cargo test --offline -p ${PKG:-worterbuch} --lib "$filt" 2>&1 | grep -E "^test result|error\[" | head -3 | sed 's/^/with patch + demo: /' >> "$res"
git checkout -q -- .
paste
cargo test --offline -p ${PKG:-worterbuch} --lib "$filt" 2>&1 | grep -E "^test result|error\[" | head -3 | sed 's/^/without patch + demo: /' >> "$res"
git checkout -q -- .
cat "$res"
