#!/bin/bash
# usage: tools/confirm_demo_sh.sh <worktree> <outdir(with patch.diff, demo.sh)>   -- shell demos (two server processes)
wt="$1"; out="$2"
cd "$wt" || exit 2
git checkout -q -- . ; res="$out/confirm.txt"; : > "$res"
git apply "$out/patch.diff" && echo "patch applies" >> "$res"
cargo test --offline -p worterbuch --lib 2>&1 | grep -E "^test result|error" | head -3 | sed 's/^/with patch, existing lib tests: /' >> "$res"
bash "$out/demo.sh" 2>&1 | tail -3 | sed 's/^/with patch, demo: /' >> "$res"
git checkout -q -- .
bash "$out/demo.sh" 2>&1 | tail -3 | sed 's/^/without patch, demo: /' >> "$res"
cat "$res"
