"""Constants of the model, tied to the source on every run: the numeric error codes and the $SYS topic names are read
from /repo's source text and compared with the definitions in coq/Model/*.v (a changed constant that no generated case
happens to exercise would otherwise go unnoticed); every string constant of the model must spell the text in its comment."""
import os, re, glob
from common import ROOT, REPO

TOPICS = {"s_SYS": "SYSTEM_TOPIC_ROOT", "s_SYS_prefix": "SYSTEM_TOPIC_ROOT_PREFIX", "s_clients": "SYSTEM_TOPIC_CLIENTS",
          "s_graveGoods": "SYSTEM_TOPIC_GRAVE_GOODS", "s_lastWill": "SYSTEM_TOPIC_LAST_WILL", "s_clientName": "SYSTEM_TOPIC_CLIENT_NAME",
          "s_protocol": "SYSTEM_TOPIC_CLIENTS_PROTOCOL", "s_address": "SYSTEM_TOPIC_CLIENTS_ADDRESS",
          "s_subscriptions": "SYSTEM_TOPIC_SUBSCRIPTIONS", "s_locks": "SYSTEM_TOPIC_LOCKS"}
# file names of the JSON persistence: (model constant, source file that must contain the literal)
FILES = {"f_toggle": "worterbuch/src/persistence/json/v3.rs", "f_store_a": "worterbuch/src/persistence/json/v3.rs", "f_store_b": "worterbuch/src/persistence/json/v3.rs",
         "f_gglw_a": "worterbuch/src/persistence/json/v3.rs", "f_gglw_b": "worterbuch/src/persistence/json/v3.rs", "sfx_sum": "worterbuch/src/persistence/json/v3.rs",
         "f2_store_a": "worterbuch/src/persistence/json/v2.rs", "f2_store_b": "worterbuch/src/persistence/json/v2.rs",
         "f2_gglw_a": "worterbuch/src/persistence/json/v2.rs", "f2_gglw_b": "worterbuch/src/persistence/json/v2.rs",
         "f1_json": "worterbuch/src/persistence/json/v1.rs", "f1_sha": "worterbuch/src/persistence/json/v1.rs"}

def model_consts():
    nums, strs, bad = {}, {}, []
    for f in sorted(glob.glob(os.path.join(ROOT, "coq", "Model", "*.v"))):
        txt = open(f).read()
        for m in re.finditer(r"Definition (E_\w+) : N := (\d+)\.", txt):
            if m.group(1) in nums and nums[m.group(1)] != int(m.group(2)):
                bad.append(f"{m.group(1)} is defined twice in the model with different values")
            nums[m.group(1)] = int(m.group(2))
        for m in re.finditer(r"Definition (\w+) : str := \[([0-9;]*)\]%N\.(?: \(\* (.*?) \*\))?", txt):
            b = bytes(int(x) for x in m.group(2).split(";") if x)
            strs[m.group(1)] = b.decode("utf-8", "replace")
            if m.group(3) is not None and m.group(3) != strs[m.group(1)]:
                bad.append(f"{os.path.basename(f)}: {m.group(1)} spells {strs[m.group(1)]!r}, its comment says {m.group(3)!r}")
    return nums, strs, bad

def source_consts():
    lib = open(os.path.join(REPO, "worterbuch-common", "src", "lib.rs")).read()
    m = re.search(r"pub enum ErrorCode \{(.*?)\}", lib, re.S)
    codes = {n: int(v) for n, v in re.findall(r"(\w+) = (\d+),", m.group(1))} if m else {}
    topics = dict(re.findall(r'pub const (SYSTEM_TOPIC_\w+): &str = "([^"]*)";', lib))
    return codes, topics

# which constants the model of a property uses
NO_CODES = {"C09", "C10", "C14", "C16", "C19"}          # persist, codec (codes are data there), aggregator, election
NO_TOPICS = {"C10", "C14", "C15", "C16", "C19"}
USES_FILES = {"C09", "C10", "C12"}

def check(prop):
    """-> list of mismatches (empty: the constants the model of this property uses are those of the source)"""
    nums, strs, bad = model_consts()
    codes, topics = source_consts()
    if prop in NO_CODES: nums = {}
    tmap = {} if prop in NO_TOPICS else TOPICS
    fmap = FILES if prop in USES_FILES else {}
    if not codes and nums: bad.append("enum ErrorCode not found in worterbuch-common/src/lib.rs")
    for name, val in nums.items():
        rust = name[2:]
        if rust not in codes: bad.append(f"the model's {name} has no counterpart in enum ErrorCode")
        elif codes[rust] != val: bad.append(f"ErrorCode::{rust} = {codes[rust]} in the source, {name} = {val} in the model")
    for mname, rname in tmap.items():
        if mname not in strs: bad.append(f"model constant {mname} not found")
        elif rname not in topics: bad.append(f"{rname} not found in worterbuch-common/src/lib.rs")
        elif topics[rname] != strs[mname]: bad.append(f"{rname} = {topics[rname]!r} in the source, {mname} = {strs[mname]!r} in the model")
    for mname, rel in fmap.items():
        p = os.path.join(REPO, rel)
        if mname not in strs: bad.append(f"model constant {mname} not found")
        elif not os.path.exists(p) or ('"' + strs[mname]) not in open(p).read() and (strs[mname] + '"') not in open(p).read():
            bad.append(f"the file name {strs[mname]!r} ({mname}) does not occur in {rel}")
    return bad, {"error_codes_compared": len(nums), "topic_names_compared": len(tmap), "file_names_compared": len(fmap), "string_constants_spelled": len(strs)}
