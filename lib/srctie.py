"""Constants of the model, tied to the source on every run: the numeric error codes and the $SYS topic names are read
from /repo's source text and compared with the definitions in coq/Model/*.v (a changed constant that no generated case
happens to exercise would otherwise go unnoticed); every string constant of the model must spell the text in its comment."""
import os, re, glob
from common import ROOT, REPO

TOPICS = {"s_SYS": "SYSTEM_TOPIC_ROOT", "s_SYS_prefix": "SYSTEM_TOPIC_ROOT_PREFIX", "s_clients": "SYSTEM_TOPIC_CLIENTS",
          "s_graveGoods": "SYSTEM_TOPIC_GRAVE_GOODS", "s_lastWill": "SYSTEM_TOPIC_LAST_WILL", "s_clientName": "SYSTEM_TOPIC_CLIENT_NAME",
          "s_protocol": "SYSTEM_TOPIC_CLIENTS_PROTOCOL", "s_address": "SYSTEM_TOPIC_CLIENTS_ADDRESS",
          "s_subscriptions": "SYSTEM_TOPIC_SUBSCRIPTIONS", "s_locks": "SYSTEM_TOPIC_LOCKS"}
# file names of the JSON persistence: (model constant, source file that must contain the literal)
FILES = {"f_toggle": "worterbuch/src/persistence/json/v3.rs", "f_store_a": "worterbuch/src/persistence/json/v3.rs", "f_store_b": "worterbuch/src/persistence/json/v3.rs",
         "f_gglw_a": "worterbuch/src/persistence/json/v3.rs", "f_gglw_b": "worterbuch/src/persistence/json/v3.rs", "sfx_sum": "worterbuch/src/persistence/json/v3.rs",
         "f2_store_a": "worterbuch/src/persistence/json/v2.rs", "f2_store_b": "worterbuch/src/persistence/json/v2.rs",
         "f2_gglw_a": "worterbuch/src/persistence/json/v2.rs", "f2_gglw_b": "worterbuch/src/persistence/json/v2.rs",
         "f1_json": "worterbuch/src/persistence/json/v1.rs", "f1_sha": "worterbuch/src/persistence/json/v1.rs"}

def model_consts():
    nums, strs, bad = {}, {}, []
    for f in sorted(glob.glob(os.path.join(ROOT, "coq", "Model", "*.v"))):
        txt = open(f).read()
        for m in re.finditer(r"Definition (E_\w+) : N := (\d+)\.", txt):
            if m.group(1) in nums and nums[m.group(1)] != int(m.group(2)):
                bad.append(f"{m.group(1)} is defined twice in the model with different values")
            nums[m.group(1)] = int(m.group(2))
        for m in re.finditer(r"Definition (\w+) : str := \[([0-9;]*)\]%N\.(?: \(\* (.*?) \*\))?", txt):
            b = bytes(int(x) for x in m.group(2).split(";") if x)
            strs[m.group(1)] = b.decode("utf-8", "replace")
            if m.group(3) is not None and m.group(3) != strs[m.group(1)]:
                bad.append(f"{os.path.basename(f)}: {m.group(1)} spells {strs[m.group(1)]!r}, its comment says {m.group(3)!r}")
    return nums, strs, bad

def source_consts():
    lib = open(os.path.join(REPO, "worterbuch-common", "src", "lib.rs")).read()
    m = re.search(r"pub enum ErrorCode \{(.*?)\}", lib, re.S)
    codes = {n: int(v) for n, v in re.findall(r"(\w+) = (\d+),", m.group(1))} if m else {}
    topics = dict(re.findall(r'pub const (SYSTEM_TOPIC_\w+): &str = "([^"]*)";', lib))
    return codes, topics

# which constants the model of a property uses
NO_CODES = {"C09", "C10", "C14", "C16", "C19"}          # persist, codec (codes are data there), aggregator, election
NO_TOPICS = {"C10", "C14", "C15", "C16", "C19"}
USES_FILES = {"C09", "C10", "C12"}

STATUS = {"BAD_REQUEST": 400, "UNPROCESSABLE_ENTITY": 422, "CONFLICT": 409, "METHOD_NOT_ALLOWED": 405, "UNAUTHORIZED": 401, "NOT_FOUND": 404,
          "FORBIDDEN": 403, "INTERNAL_SERVER_ERROR": 500, "NO_CONTENT": 204}
USES_HTTP = {"C01", "C08", "C15"}

def http_tables():
    """(status per error code in the source, status per error code in Model/Rest.v http_status)"""
    err = open(os.path.join(REPO, "worterbuch-common", "src", "error.rs")).read()
    codes, _ = source_consts()
    m = re.search(r"impl From<&WorterbuchError> for ErrorCode \{(.*?)\n\}", err, re.S)
    var_code = {}
    for vs, name in re.findall(r"((?:WorterbuchError::\w+(?:\([^)]*\))?\s*\|?\s*)+)=>\s*\{?\s*ErrorCode::(\w+)", m.group(1) if m else ""):
        for var in re.findall(r"WorterbuchError::(\w+)", vs):
            if name in codes: var_code[var] = codes[name]
    m = re.search(r"impl From<WorterbuchError> for \(StatusCode, String\) \{(.*?)\n\}", err, re.S)
    body = m.group(1) if m else ""
    src = {}
    for vs, st in re.findall(r"((?:\|?\s*WorterbuchError::\w+(?:\([^)]*\))?\s*)+)=>\s*\{?\s*\(StatusCode::(\w+)", body):
        for var in re.findall(r"WorterbuchError::(\w+)", vs):
            if var in ("FeatureDisabled", "Other", "ServerResponse", "Unauthorized"): continue      # no code of their own / decided inside
            if var in var_code: src[var_code[var]] = STATUS.get(st)
    # Unauthorized: MissingToken -> 401, anything else -> 403 (the model: TNone -> 401, TInvalid / insufficient -> 403, code 14 -> 403)
    mu = re.search(r"WorterbuchError::Unauthorized\(ae\) => match &ae \{\s*AuthorizationError::MissingToken => \(StatusCode::(\w+).*?_ => \(StatusCode::(\w+)", body, re.S)
    if mu and "Unauthorized" in var_code: src[var_code["Unauthorized"]] = STATUS.get(mu.group(2))
    missing_token = STATUS.get(mu.group(1)) if mu else None
    rest = open(os.path.join(ROOT, "coq", "Model", "Rest.v")).read()
    md = re.search(r"Definition http_status \(code : N\) : N :=(.*?)\.\n", rest, re.S)
    model, default = {}, None
    if md:
        for cond, st in re.findall(r"if ((?:N\.eqb code \d+(?: \|\| )?)+) then (\d+)", md.group(1)):
            for c in re.findall(r"N\.eqb code (\d+)", cond): model[int(c)] = int(st)
        dm = re.search(r"else (\d+)\s*$", md.group(1).strip())
        default = int(dm.group(1)) if dm else None
    return src, model, default, missing_token

def check(prop):
    """-> list of mismatches (empty: the constants the model of this property uses are those of the source)"""
    nums, strs, bad = model_consts()
    codes, topics = source_consts()
    if prop in NO_CODES: nums = {}
    tmap = {} if prop in NO_TOPICS else TOPICS
    fmap = FILES if prop in USES_FILES else {}
    if not codes and nums: bad.append("enum ErrorCode not found in worterbuch-common/src/lib.rs")
    for name, val in nums.items():
        rust = name[2:]
        if rust not in codes: bad.append(f"the model's {name} has no counterpart in enum ErrorCode")
        elif codes[rust] != val: bad.append(f"ErrorCode::{rust} = {codes[rust]} in the source, {name} = {val} in the model")
    for mname, rname in tmap.items():
        if mname not in strs: bad.append(f"model constant {mname} not found")
        elif rname not in topics: bad.append(f"{rname} not found in worterbuch-common/src/lib.rs")
        elif topics[rname] != strs[mname]: bad.append(f"{rname} = {topics[rname]!r} in the source, {mname} = {strs[mname]!r} in the model")
    for mname, rel in fmap.items():
        p = os.path.join(REPO, rel)
        if mname not in strs: bad.append(f"model constant {mname} not found")
        elif not os.path.exists(p) or ('"' + strs[mname]) not in open(p).read() and (strs[mname] + '"') not in open(p).read():
            bad.append(f"the file name {strs[mname]!r} ({mname}) does not occur in {rel}")
    nhttp = 0
    if prop in USES_HTTP:
        src, model, default, missing_token = http_tables()
        if len(src) < 15: bad.append("the error -> HTTP status table of worterbuch-common/src/error.rs could not be read")
        for code, st in sorted(src.items()):
            ms = model.get(code, default)
            if ms != st: bad.append(f"error code {code} is answered with HTTP {st} in the source, {ms} in Model/Rest.v http_status")
        if missing_token != 401: bad.append(f"a missing token is answered with HTTP {missing_token} in the source, 401 in Model/Rest.v")
        nhttp = len(src)
    return bad, {"http_statuses_compared": nhttp, "error_codes_compared": len(nums), "topic_names_compared": len(tmap), "file_names_compared": len(fmap), "string_constants_spelled": len(strs)}
