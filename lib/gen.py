"""Generators of operation histories for the core engine, all randomness from one seeded PRNG."""
import random
from casefmt import Ops as O

SEGS = ["a", "b", "c", "", "é", "x y", "$SYS", "🙂", "clients"]
VALUES = [1, 2, 0, -1, "s", "", None, True, [1, 2], {"k": 1}, {"Cas": [1, 2]}, {"v": 1, "t": {}}, 1.5, 18446744073709551615,
          "line\nbreak", {"a": {"b": [None, {"c": "d"}]}}]

def uuid(c):
    return "00000000-0000-0000-0000-000000000000" if c == 0 else "00000000-0000-4000-8000-0000000000%02x" % c

class Gen:
    def __init__(self, seed, segs=None, depth=3, clients=(1, 2, 3), values=None, sys_bias=0.0, wild_in_keys=0.03):
        self.r = random.Random(seed)
        self.segs = segs or SEGS[:5]
        self.depth = depth
        self.clients = list(clients)
        self.values = values or VALUES
        self.sys_bias = sys_bias
        self.wild_in_keys = wild_in_keys
        self.used_keys = []

    def key(self):
        r = self.r
        if self.used_keys and r.random() < 0.6:
            return r.choice(self.used_keys)
        if r.random() < self.sys_bias:
            k = self.sys_key()
        else:
            n = r.randint(1, self.depth)
            segs = [r.choice(self.segs) for _ in range(n)]
            if r.random() < self.wild_in_keys:
                segs[r.randrange(n)] = r.choice(["?", "#"])
            k = "/".join(segs)
        self.used_keys.append(k)
        return k

    def sys_key(self):
        r = self.r
        c = r.choice(self.clients + [9])
        return r.choice([
            "$SYS", "$SYS/clients", "$SYS/version", "$SYS/uptime", f"$SYS/clients/{uuid(c)}",
            f"$SYS/clients/{uuid(c)}/graveGoods", f"$SYS/clients/{uuid(c)}/lastWill", f"$SYS/clients/{uuid(c)}/clientName",
            f"$SYS/clients/{uuid(c)}/protocol", f"$SYS/clients/{uuid(c)}/graveGoods/x", f"$SYS/clients/{uuid(c)}/address",
            "$SYS/sentinel", "$SYS/sentinel/deep"])

    def pattern(self):
        r = self.r
        if r.random() < self.sys_bias:
            return r.choice(["#", "?/#", "$SYS/#", "?/clients/#", "$SYS/?", "?/sentinel", "$SYS/clients/?/graveGoods", "?/?/?/graveGoods", "?", "$SYS/sentinel/#", "#/x"])
        n = r.randint(1, self.depth)
        segs = []
        for i in range(n):
            x = r.random()
            if x < 0.3: segs.append("?")
            elif x < 0.4 and (i == n - 1 or r.random() < 0.15): segs.append("#")
            else: segs.append(r.choice(self.segs))
        if r.random() < 0.3 and segs[-1] != "#":
            segs.append("#")
        return "/".join(segs)

    def value(self):
        return self.r.choice(self.values)

    def client(self):
        return self.r.choice(self.clients)

def tree_of(entries):
    """PersistedStore JSON from {key: ('P', v) | ('C', v, ver)}; keys split on '/'"""
    root = {}
    for k, e in entries.items():
        n = root
        for seg in k.split("/"):
            n = n.setdefault("t", {}).setdefault(seg, {})
        n["v"] = e[1] if e[0] == "P" else {"Cas": [e[1], e[2]]}
    return {"data": root}
