"""The short abstract specification the properties are judged against (python transcription of
coq/Spec/MapSpec.v): a finite map from key paths to entries.  It is evaluated on the
implementation's own answers (accepted / rejected), independent of the faithful model."""
from casefmt import xs, js, canon

def segs(k):
    return tuple(k.split("/"))

def wf_pat(p):
    return all(s != "#" for s in p[:-1])

def store_match(p, k):
    """the relation pget/pdelete use (doc relation + trailing # = zero or more levels)"""
    if not p:
        return not k
    if p[0] == "#":
        return len(p) == 1
    if not k:
        return False
    if p[0] == "?" or p[0] == k[0]:
        return store_match(p[1:], k[1:])
    return False

def doc_match(p, k):
    if not p:
        return not k
    if p == ("#",) or p == ["#"]:
        return len(k) >= 1
    if not k or p[0] == "#":
        return False
    if p[0] == "?" or p[0] == k[0]:
        return doc_match(p[1:], k[1:])
    return False

class MapSpec:
    def __init__(self):
        self.m = {}      # path tuple -> ('P', canon) | ('C', canon, ver)

    def copy(self):
        s = MapSpec(); s.m = dict(self.m); return s

    # --- writes, applied only when the implementation accepted them
    def set(self, k, v, force=False):
        self.m[segs(k)] = ("P", canon(v))
    def cset(self, k, v, ver, force=False):
        cur = self.m.get(segs(k))
        if force:
            self.m[segs(k)] = ("C", canon(v), (ver + 1) if (cur and cur[0] == "C") else 1)
        else:
            self.m[segs(k)] = ("C", canon(v), ver + 1)
    def delete(self, k):
        self.m.pop(segs(k), None)
    def pdelete(self, p):
        pp = segs(p)
        for k in [k for k in self.m if store_match(pp, k)]:
            del self.m[k]
    def imp(self, entries):
        for k, e in entries.items():
            if segs(k)[0] == "$SYS":
                continue          # an import does not reach $SYS (Spec/MapSpec.v write_effect OImport: strip_sys; repair of F29)
            if e[0] == "P":
                v = e[1]
                if v is None:
                    continue      # the import format itself: "v": null is "no value"
                # the import format itself: a value {"Cas":[x,n]} *is* a CAS entry (externally tagged variant)
                if (isinstance(v, dict) and list(v.keys()) == ["Cas"] and isinstance(v["Cas"], list) and len(v["Cas"]) == 2
                        and isinstance(v["Cas"][1], int) and not isinstance(v["Cas"][1], bool) and 0 <= v["Cas"][1] < 2**64):
                    self.m[segs(k)] = ("C", canon(v["Cas"][0]), v["Cas"][1])
                else:
                    self.m[segs(k)] = ("P", canon(v))
            else:
                self.m[segs(k)] = ("C", canon(e[1]), e[2])

    # --- reads
    def version(self, k):
        e = self.m.get(segs(k))
        return e[2] if e and e[0] == "C" else 0
    def get(self, k):
        e = self.m.get(segs(k)); return None if e is None else e[1]
    def pget(self, p):
        pp = segs(p)
        return {k: e[1] for k, e in self.m.items() if store_match(pp, k)}
    def ls(self, parent):
        pre = () if parent is None else segs(parent)
        kids = {k[len(pre)] for k in self.m if len(k) > len(pre) and k[:len(pre)] == pre}
        exists = kids or (pre in self.m) or parent is None
        return sorted(kids) if exists else None
    def pls(self, pat):
        if pat is None:
            return self.ls(None)
        pp = segs(pat)
        out = set()
        for k in self.m:
            for n in range(len(pp), len(k)):
                # parent = k[:n] must match pp exactly (no # allowed in pls)
                if n == len(pp) and all(a == "?" or a == b for a, b in zip(pp, k[:n])):
                    out.add(k[n])
        return sorted(out)

    def dump_token(self):
        """same format as the engines' `dump` line"""
        nodes = {(): ""}
        for k, e in self.m.items():
            for n in range(1, len(k) + 1):
                nodes.setdefault(k[:n], "")
            # a CAS entry with version 0 (only reachable through the file format, F8) reads like a plain one through cget
            nodes[k] = ("|P:" + "j" + e[1].encode().hex()) if (e[0] == "P" or e[2] == 0) else ("|C%d:" % e[2] + "j" + e[1].encode().hex())
        items = sorted((("-" if not p else xs("/".join(p))) + t) for p, t in nodes.items())
        return "dump len=%d nodes=[%s]" % (len(self.m), ";".join(items))

    def load_dump(self, r):
        """resynchronise from the result token of a `dump` line"""
        inner = r[r.index("nodes=[") + 7:-1]
        self.m = {}
        for item in inner.split(";"):
            if "|" in item:
                p, e = item.split("|")
                path = tuple(bytes.fromhex(p[1:]).decode().split("/"))
                kind, tok = e.split(":")
                text = bytes.fromhex(tok[1:]).decode()
                self.m[path] = ("P", text) if kind == "P" else ("C", text, int(kind[1:]))
