"""C09/C10 oracle: what a restart may recover, evaluated on the implementation's own trace."""
import json
from casefmt import canon
from mapspec import MapSpec, segs, wf_pat, store_match
from coreops import res_of
from sysguard import dec_grave_goods, dec_last_will
from gen import uuid

def reach_bad(m, pat):
    p = segs(pat)
    if wf_pat(p): return False
    i = next(i for i, s in enumerate(p[:-1]) if s == "#")
    pre = p[:i]
    return any(len(k) >= len(pre) and all(a == "?" or a == b for a, b in zip(pre, k[:len(pre)])) for k in m)

def snapshot(sp):
    """(user part, grave goods, last wills) of a store state, as a flush captures it"""
    user = {k: e for k, e in sp.m.items() if k[0] != "$SYS"}
    ggs, lws = [], []
    for k, e in sorted(sp.m.items()):
        if len(k) == 4 and k[0] == "$SYS" and k[1] == "clients":
            v = json.loads(e[1])
            if k[3] == "graveGoods":
                g = dec_grave_goods(v)
                if g is not None: ggs += g
            elif k[3] == "lastWill":
                l = dec_last_will(v)
                if l is not None: lws += l
    return (user, ggs, lws)

def recover(snap):
    """the state a restart shows for a snapshot: user keys, grave goods buried, last wills set (as internal client)"""
    user, ggs, lws = snap
    sp = MapSpec(); sp.m = dict(user)
    for g in ggs:
        if g == "" or reach_bad(sp.m, g): continue
        sp.pdelete(g)
    for k, v in lws:
        ks = k.split("/")
        if k == "" or "?" in ks or "#" in ks: continue
        if len(ks) == 4 and ks[0] == "$SYS" and ks[1] == "clients" and ks[3] in ("graveGoods", "lastWill") and v is not None \
           and (dec_grave_goods(v) if ks[3] == "graveGoods" else dec_last_will(v)) is None: continue
        sp.m[segs(k)] = ("P", canon(v))
    return sp

def persist_oracle(ops, lines):
    """after every restart the state is recover(S) for S = the last completed flush or the flush in progress
    at the crash (never older, never mixed); nothing under $SYS survives except what last wills put there"""
    sp = MapSpec()
    completed = None          # snapshot of the last completed flush (None: none yet)
    inprogress = None         # snapshot of a flush that crashed since
    from coreops import mapspec_oracle
    for i, op in enumerate(ops):
        if i >= len(lines): return (i, "implementation stopped answering")
        r = res_of(lines[i])
        if r == "crash": return (i, "implementation crashed")
        kind = op[0]
        ok = not r.startswith("err")
        if kind == "set" and ok: sp.set(op[2], op[3])
        elif kind == "cset" and ok: sp.cset(op[2], op[3], op[4], op[5] if len(op) > 5 else False)
        elif kind == "del" and ok: sp.delete(op[2])
        elif kind == "pdel" and ok: sp.pdelete(op[2])
        elif kind == "import" and ok: sp.imp(op[1])
        elif kind == "dump":
            # dumps right after conn resynchronise $SYS bookkeeping; after restart they are checked below
            if ops[i - 1][0] in ("conn", "disc"):
                sp.load_dump(r)
            elif ops[i - 1][0] == "restart":
                cands = []
                if completed is not None: cands.append(("last completed flush", recover(completed)))
                else: cands.append(("no flush completed yet: empty", MapSpec()))
                if inprogress is not None: cands.append(("flush in progress at the crash", recover(inprogress)))
                hit = [n for n, c in cands if c.dump_token() == r]
                if not hit:
                    from casefmt import decode_tok
                    return (i, "state after restart is none of the allowed ones: got " + decode_tok(r) + " | allowed: " +
                            " | ".join(f"{n}: {decode_tok(c.dump_token())}" for n, c in cands))
                sp.load_dump(r)
                # a restart that recovered the flush in progress has made it the durable one (the selector points at it)
                if "flush in progress at the crash" in hit and "last completed flush" not in hit and "no flush completed yet: empty" not in hit:
                    completed = inprogress
                inprogress = None
            elif r != sp.dump_token():
                from casefmt import decode_tok
                return (i, f"state differs from the accepted writes: {decode_tok(r)} vs {decode_tok(sp.dump_token())}")
        elif kind == "flush":
            snap = snapshot(sp)
            if r == "flushed":
                completed = snap; inprogress = None
            else:
                inprogress = snap
        elif kind == "restart":
            pass
    return None
