"""session-engine operations"""
import json
from casefmt import xs

def jd(x):
    return json.dumps(x, ensure_ascii=False, separators=(",", ":"), sort_keys=True)

def R(o):
    k = o[0]
    if k == "badauth" and len(o) > 2: return f"badauth {o[1]} {o[2]} j{jd(o[3]).encode().hex()}"
    if k in ("open", "close", "badauth"): return f"{k} {o[1]}"
    if k == "send": return f"send {o[1]} x{jd(o[2]).encode().hex()}"
    if k == "raw": return f"raw {o[1]} x{(o[2] if isinstance(o[2], bytes) else o[2].encode()).hex()}"
    if k == "auth": return f"auth {o[1]} j{jd(o[2]).encode().hex()}"
    raise ValueError(k)

def parse_out(line):
    """-> list of (session, token)"""
    out = []
    for item in line.split(" "):
        if item:
            s, tok = item.split(":", 1)
            out.append((int(s), tok))
    return out

def decode_msg(tok):
    if tok.startswith("j"):
        return json.loads(bytes.fromhex(tok[1:]).decode())
    return tok


def align_closed(impl_lines, model_lines):
    """a server-side close may be noticed by the harness one step later than the step that caused it:
    move a lone `<s>:closed` of the implementation back to the step where the model has it"""
    out = list(impl_lines)
    for i in range(1, len(out)):
        for s, tok in parse_out(out[i]):
            if tok == "closed" and i - 1 < len(model_lines) and f"{s}:closed" in model_lines[i - 1].split(" ") and f"{s}:closed" not in out[i - 1].split(" "):
                if not any(x == s for x, t in parse_out(out[i]) if t != "closed"):
                    out[i] = " ".join(x for x in out[i].split(" ") if x != f"{s}:closed")
                    out[i - 1] = (out[i - 1] + " " + f"{s}:closed").strip()
    return out


def _tid(tok):
    if tok == "closed": return 10**30
    if tok.startswith("welcome"): return -1
    if tok.startswith("err:"): return int(tok.split(":")[1])
    try:
        m = decode_msg(tok)
        return next(iter(m.values())).get("transactionId", -1)
    except Exception:
        return -2

def canon_session_line(line):
    """messages of different transactions may be interleaved on the wire in any order (forwarding tasks vs the
    handler): per step and session, order by transaction id, keeping the arrival order within a transaction"""
    if line == "ok": return line
    items = parse_out(line)
    closing = {s for s, t in items if t == "closed"}
    # whether the cancellation of a closing session's own pending acquire still reaches its socket is a race
    items = [(s, t) for s, t in items if not (s in closing and t.startswith("err:") and t.endswith(":22"))]
    # the events one pattern delete / import causes for different keys leave the server in hash order: within a
    # transaction they are grouped by key (the order per key is kept: the sort is stable)
    def kname(tok):
        if not tok.startswith("j"): return ""
        try:
            m = decode_msg(tok)
            p = m.get("pState") if isinstance(m, dict) else None
            if p: return ",".join(sorted(kv["key"] for kv in (p.get("keyValuePairs") or p.get("deleted") or [])))
        except Exception:
            pass
        return ""
    items = sorted(items, key=lambda st: (st[0], _tid(st[1]), kname(st[1])))
    # a pattern delete that removes several children of one parent sends the parent's ls-subscriber one list per removal, in the
    # hash order of the children: the intermediate lists are not determined, the last one is (C05): only that one is compared
    def is_ls(tok):
        if not tok.startswith("j"): return False
        try: return "lsState" in decode_msg(tok)
        except Exception: return False
    kept = []
    for i, (s_, t_) in enumerate(items):
        if is_ls(t_) and i + 1 < len(items) and items[i + 1][0] == s_ and is_ls(items[i + 1][1]) and _tid(items[i + 1][1]) == _tid(t_):
            continue
        kept.append((s_, t_))
    return " ".join(f"{s}:{t}" for s, t in kept)
