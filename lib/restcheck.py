"""The REST front end (server/axum/mod.rs) against Model/Rest.v: case generation, running both sides, oracles.
Used by C15 (authorization over REST), C08 ($SYS over REST) and C01 (reads over REST equal the store)."""
import json, os, random
from casefmt import write_cases, read_obs, xs, js
from common import run_engine
from mapspec import MapSpec, store_match

def claims(p):
    return "j" + json.dumps({"sub": "u", "name": "n", "exp": 4102444800, "worterbuchPrivileges": p}).encode().hex()

PRIV = {"get": "read", "pget": "read", "ls": "read", "export": "read", "set": "write", "publish": "write", "import": "write", "delete": "delete", "pdelete": "delete"}
METHOD = {"get": "GET", "pget": "GET", "ls": "GET", "export": "GET", "set": "POST", "publish": "POST", "import": "POST", "delete": "DELETE", "pdelete": "DELETE"}

def rest_line(tok, endpoint, arg=None, body=None):
    path = endpoint if arg is None else f"{endpoint}/{arg}"
    return f"rest {tok} {METHOD[endpoint]} {xs(path)}" + (f" {js(body)}" if body is not None else "")

def needed_pattern(endpoint, arg):
    if endpoint == "ls": return (arg + "/?") if arg is not None else "?"
    if endpoint in ("export", "import"): return "#"
    return arg

def covers(g, pat):
    """grant g covers the requested key / pattern (the shapes used in the table: literals, a trailing ? or #)"""
    gs, ps = g.split("/"), pat.split("/")
    def cov(gs, ps):
        if not gs: return not ps
        if gs[0] == "#": return len(gs) == 1 and len(ps) >= 1
        if not ps: return False
        if gs[0] == "?": return ps[0] != "#" and cov(gs[1:], ps[1:])
        return gs[0] == ps[0] and cov(gs[1:], ps[1:])
    return cov(gs, ps)

REQS = [("set", "a/b", 1), ("get", "a/b", None), ("pget", "a/?", None), ("ls", "a", None), ("ls", None, None), ("publish", "a/p", 1), ("export", None, None),
        ("import", None, {"data": {"t": {"a": {"t": {"i": {"v": 7}}}}}}), ("get", "a/i", None), ("delete", "a/b", None), ("pdelete", "a/?", None), ("get", "a", None)]
GRANTS = {"ro": {"read": ["a/#"]}, "wo": {"write": ["a/#"]}, "do": {"delete": ["a/#"]}, "none": {}, "parent": {"read": ["a"]}, "kids": {"read": ["a/?"]},
          "all": {"read": ["#"], "write": ["#"], "delete": ["#"]}, "rw-all": {"read": ["#"], "write": ["#"]},
          "r-all": {"read": ["#"]}, "w-all": {"write": ["#"]}, "d-all": {"delete": ["#"]}}

def auth_table():
    cases = []
    for nm, gr in GRANTS.items():
        ops = ["cfg auth=1"] + [rest_line(claims(gr), e, a, b) for e, a, b in REQS]
        cases.append((f"rest-{nm}", ops, gr))
    full = claims(GRANTS["all"])
    for mode in ("none", "bad", f"expired:{full}", f"forged:{full}"):
        ops = ["cfg auth=1"] + [rest_line(mode, e, a, b) for e, a, b in REQS] + [rest_line(full, "pget", "#") if False else rest_line(full, "get", "a/b")]
        cases.append((f"rest-token-{mode.split(':')[0]}", ops, None))
    return cases

def check_auth_table(v, work):
    """-> stats; reports violations on v"""
    cases = auth_table()
    cpath = os.path.join(work, "rest-table.txt")
    write_cases(cpath, [(nm, ops) for nm, ops, _ in cases])
    impl, model = run_engine("rest", "rest_driver", cpath, work, tag="-rest")
    A, B = read_obs(impl), read_obs(model)
    served = refused = 0
    for nm, ops, gr in cases:
        lines = A.get(nm, [])
        if not lines or lines[0] != "ok" or len(lines) < len(ops):
            v.violation({"what": "the REST engine did not complete this case", "case": nm, "engine": "rest", "driver": "rest_driver", "ops": ops, "broken_obligation": "correspondence rest"}, no_input=True)
            return {}
        for i in range(1, len(ops)):
            status = lines[i].split(" ")[0]
            if gr is None:
                # no valid token: nothing is served -- 401 without a token, 403 with one that does not validate -- except the last request, which carries a good one
                last = (i == len(ops) - 1)
                if not last and status not in ("401", "403"):
                    v.violation({"what": f"REST request {ops[i].split(' ')[2:4]} was answered {lines[i][:80]} although it carried no valid token", "case": nm, "engine": "rest", "driver": "rest_driver", "ops": ops[:i + 1]})
                    return {}
                refused += (not last)
                continue
            e, a, b = REQS[i - 1]
            want_ok = any(covers(g, needed_pattern(e, a)) for g in gr.get(PRIV[e], []))
            if (status == "403") == want_ok or status in ("401",):
                v.violation({"what": f"with the grants {gr} the REST request {e} {a!r} was answered {lines[i][:80]}: it needs the {PRIV[e]} privilege on {needed_pattern(e, a)!r}",
                             "case": nm, "engine": "rest", "driver": "rest_driver", "ops": ops[:i + 1]})
                return {}
            served += want_ok; refused += (not want_ok)
        for i, (x, y) in enumerate(zip(lines, B.get(nm, []))):
            if x != y and not v.violations:
                v.violation({"what": "REST: model and server disagree; every request was refused exactly when its privilege was missing", "case": nm, "engine": "rest", "driver": "rest_driver",
                             "ops": ops[:i + 1], "impl": x, "model": y, "broken_obligation": "correspondence rest (Model/Rest.v rest_handle, rest_requirement)"}, no_input=True)
    return {"rest_requests_served": served, "rest_requests_refused": refused}

KEYS = ["a", "a/b", "a/c", "b", "a/b/c", "k"]
PATS = ["a/#", "a/?", "b", "a/?/c", "a/#/b", "#/a"]

def random_case(seed):
    r = random.Random(seed)
    ops = ["cfg auth=0"]
    val = lambda: r.choice([1, 2, "s", {"k": [1, 2]}, True, [1, "x"], 1.5, "ü"])
    for _ in range(r.randint(5, 30)):
        x = r.random(); k = r.choice(KEYS); p = r.choice(PATS)
        if x < 0.3: ops.append(rest_line("none", "set", k, val()))
        elif x < 0.45: ops.append(rest_line("none", "get", r.choice(KEYS + ["zz", "a//b", "a/?"])))
        elif x < 0.55: ops.append(rest_line("none", "pget", p))
        elif x < 0.63: ops.append(rest_line("none", "delete", k))
        elif x < 0.70: ops.append(rest_line("none", "pdelete", p))
        elif x < 0.78: ops.append(rest_line("none", "ls", r.choice([None, "a", "a/b", "zz"])))
        elif x < 0.84: ops.append(rest_line("none", "export"))
        elif x < 0.90: ops.append(rest_line("none", "import", None, {"data": {"t": {r.choice(["a", "i"]): {"t": {"x": {"v": val()}}, **({"v": val()} if r.random() < 0.5 else {})}}}}))
        elif x < 0.95: ops.append(rest_line("none", "set", r.choice(["$SYS/x", "$SYS/clients/nobody/graveGoods", "$SYS", "$SYSTEM/x"]), val()))
        else: ops.append(rest_line("none", "publish", k, val()))
    ops.append(rest_line("none", "pget", "a/#"))
    return ops

def store_oracle(ops, lines):
    """independent of the model: get / pget / delete / pdelete over REST answer from a key/value reference that is fed
    with what the server accepted (status 200)"""
    sp = MapSpec()
    for i, (op, line) in enumerate(zip(ops, lines)):
        if not op.startswith("rest "): continue
        t = op.split(" ")
        path = bytes.fromhex(t[3][1:]).decode()
        e, _, arg = path.partition("/")
        status, _, body = line.partition(" ")
        if e == "set" and status == "200": sp.set(arg, json.loads(bytes.fromhex(t[4][1:]).decode()))
        elif e == "get":
            want = sp.get(arg) if all(s not in ("?", "#") for s in arg.split("/")) else None
            if status == "200":
                if want is None or body != "j" + want.encode().hex(): return (i, f"GET get/{arg} answered {line[:120]}, the store holds {want}")
            elif status == "404" and want is not None: return (i, f"GET get/{arg} answered 404, the store holds {want}")
        elif e == "delete" and status == "200": sp.delete(arg)
        elif e == "pdelete" and status == "200": sp.pdelete(arg)
        elif e == "pget" and status == "200":
            want = sorted(f"{xs('/'.join(k))}=j{v_.encode().hex()}" for k, v_ in sp.pget(arg).items())
            if body != "kvs[" + ";".join(want) + "]": return (i, f"GET pget/{arg} answered {line[:200]}, the store holds {want}")
        elif e == "import" and status == "200":
            def walk(n, pre):
                if "v" in n and n["v"] is not None: sp.set("/".join(pre), n["v"])
                for k, c in (n.get("t") or {}).items(): walk(c, pre + [k])
            walk(json.loads(bytes.fromhex(t[4][1:]).decode())["data"], [])
    return None

def check_random(v, work, seed, n, tag="-restrnd"):
    cases = [(f"rr{i}", random_case(seed * 2750159 + i)) for i in range(n)]
    cpath = os.path.join(work, "rest-random.txt")
    write_cases(cpath, cases)
    impl, model = run_engine("rest", "rest_driver", cpath, work, tag=tag)
    A, B = read_obs(impl), read_obs(model)
    nreq = 0
    for nm, ops in cases:
        lines = A.get(nm, [])
        if not lines or lines[0] != "ok" or len(lines) < len(ops):
            v.violation({"what": "the REST engine did not complete this case", "case": nm, "engine": "rest", "driver": "rest_driver", "ops": ops, "broken_obligation": "correspondence rest"}, no_input=True)
            return {}
        nreq += len(ops) - 1
        bad = store_oracle(ops, lines)
        if bad:
            v.violation({"what": "REST: " + bad[1], "case": nm, "engine": "rest", "driver": "rest_driver", "ops": ops[:bad[0] + 1]})
            return {}
        for i, (x, y) in enumerate(zip(lines, B.get(nm, []))):
            if x != y and not v.violations:
                v.violation({"what": "REST: model and server disagree; every read answered from the store", "case": nm, "engine": "rest", "driver": "rest_driver",
                             "ops": ops[:i + 1], "impl": x[:600], "model": y[:600], "broken_obligation": "correspondence rest (Model/Rest.v over Model/Core.v)"}, no_input=True)
    return {"rest_histories": len(cases), "rest_requests": nreq}

def check_sys(v, work, known=None):
    """C08 over REST: no write through the REST front end changes a value under $SYS (a REST write acts under a client id
    made up for that one request); F4 (a pattern whose first segment is a wildcard) is reachable here too"""
    ops = ["cfg auth=0", rest_line("none", "get", "$SYS/version"),
           rest_line("none", "set", "$SYS/version", "evil"), rest_line("none", "delete", "$SYS/version"), rest_line("none", "pdelete", "$SYS/version"),
           rest_line("none", "pdelete", "$SYS/#"), rest_line("none", "set", "$SYS/clients/00000000-0000-4000-8000-000000000001/graveGoods", ["#"]),
           rest_line("none", "set", "$SYS", 1),
           # F29 (repaired): an import carried a $SYS subtree into the store: the user part is imported, $SYS is left alone
           rest_line("none", "import", None, {"data": {"t": {"u": {"v": 1}, "$SYS": {"t": {"version": {"v": "evil"}, "clients": {"t": {"00000000-0000-4000-8000-000000000001": {"t": {"graveGoods": {"v": ["#"]}}}}}}}}}}),
           rest_line("none", "get", "$SYS/version"), rest_line("none", "get", "u"), rest_line("none", "get", "$SYS/clients/00000000-0000-4000-8000-000000000001/graveGoods")]
    f4 = ["cfg auth=0", rest_line("none", "get", "$SYS/version"), rest_line("none", "pdelete", "?/version"), rest_line("none", "get", "$SYS/version")]
    cases = [("rest-sys", ops), ("rest-sys-f4", f4)]
    cpath = os.path.join(work, "rest-sys.txt")
    write_cases(cpath, cases)
    impl, model = run_engine("rest", "rest_driver", cpath, work, tag="-restsys")
    A, B = read_obs(impl), read_obs(model)
    la = A.get("rest-sys", [])
    if len(la) < len(ops) or la[0] != "ok":
        v.violation({"what": "the REST engine did not complete this case", "case": "rest-sys", "engine": "rest", "driver": "rest_driver", "ops": ops, "broken_obligation": "correspondence rest"}, no_input=True)
        return {}
    if not la[1].startswith("200 ") or la[9] != la[1]:
        v.violation({"what": f"a REST write changed $SYS/version: before {la[1][:80]}, after {la[9][:80]}", "case": "rest-sys", "engine": "rest", "driver": "rest_driver", "ops": ops, "observed": la})
        return {}
    if la[10] != "200 j31" or not la[11].startswith("404"):
        v.violation({"what": f"REST import: the user key reads {la[10][:40]} (expected 1), the imported grave-goods registration of another client reads {la[11][:60]} (expected 404)", "case": "rest-sys", "engine": "rest", "driver": "rest_driver", "ops": ops, "observed": la})
        return {}
    for i in range(2, 8):
        if la[i].startswith("200"):
            v.violation({"what": f"the REST write {ops[i].split(' ')[2:4]} on a protected key was served ({la[i][:60]})", "case": "rest-sys", "engine": "rest", "driver": "rest_driver", "ops": ops[:i + 1], "observed": la})
            return {}
    # compared with the model: statuses (the value of $SYS/version is the server's own)
    for nm, o in cases:
        for i, (x, y) in enumerate(zip(A.get(nm, []), B.get(nm, []))):
            if x.split(" ")[0] != y.split(" ")[0] and not v.violations:
                v.violation({"what": "REST ($SYS): model and server disagree", "case": nm, "engine": "rest", "driver": "rest_driver", "ops": o[:i + 1], "impl": x[:200], "model": y[:200],
                             "broken_obligation": "correspondence rest (Model/Rest.v)"}, no_input=True)
    lf = A.get("rest-sys-f4", [])
    if len(lf) >= 4 and lf[1].startswith("200") and lf[3].startswith("404") and known:
        known("F4", "the $SYS guard looks at the literal first segment: a client pdelete (or grave good) whose first segment is a wildcard deletes protected $SYS keys (worterbuch.rs:1487-1520, 918-924)")
    elif len(lf) >= 4 and not lf[3].startswith("200") and not v.violations:
        v.violation({"what": f"REST pdelete ?/version: $SYS/version answered {lf[3][:60]} afterwards", "case": "rest-sys-f4", "engine": "rest", "driver": "rest_driver", "ops": f4, "observed": lf})
    return {"rest_sys_writes_refused": 6}
