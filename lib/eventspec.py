"""Expected subscription events (python transcription of coq/Spec/EventSpec.v), evaluated on the
implementation's own trace."""
from casefmt import xs, js, canon
from mapspec import MapSpec, segs, wf_pat, store_match, doc_match
from coreops import res_of, events_of, ev_key, kvs_of

def jtok(text):
    return "j" + text.encode().hex()

def kv_tok(pairs):
    return "[" + ";".join(sorted(f"{xs(k)}={jtok(v)}" for k, v in pairs)) + "]"

def load_dump(sp, line):
    sp.load_dump(res_of(line))

class Sub:
    def __init__(self, inst, kind, pat, unique, live, c, t):
        self.inst, self.kind, self.pat, self.unique, self.live, self.c, self.t = inst, kind, pat, unique, live, c, t
        self.active = True
        self.fold = {} if (kind == "psub" and not live) else None
        self.publish_seen = False

def events_oracle(ops, lines, known=None):
    """returns None or (step, message); known: callback(id, text) for known-finding classes"""
    sp = MapSpec()
    subs = {}
    spub = {}
    ninst = 0
    for i, op in enumerate(ops):
        if i >= len(lines):
            return (i, "implementation stopped answering")
        r = res_of(lines[i])
        if r == "crash":
            return (i, "implementation crashed")
        ok = not r.startswith("err")
        kind = op[0]
        exp = []     # (inst, kind, payload)
        def emit(path, valtext, changed, deleted, publish=False):
            key = "/".join(path)
            for s in subs.values():
                if not s.active or not wf_pat(s.pat):
                    continue
                if not doc_match(tuple(s.pat), tuple(path)):
                    continue
                if not (changed or not s.unique):
                    continue
                if s.kind == "psub":
                    exp.append((s.inst, "PD" if deleted else "PV", kv_tok([(key, valtext)])))
                    if s.fold is not None:
                        if publish: s.publish_seen = True
                        elif deleted: s.fold.pop(key, None)
                        else: s.fold[key] = valtext
                else:
                    exp.append((s.inst, "D" if deleted else "V", jtok(valtext)))
        skip = False
        if kind == "set" and ok:
            old = sp.get(op[2]); new = canon(op[3])
            sp.set(op[2], op[3]); emit(segs(op[2]), new, old != new, False)
        elif kind == "cset" and ok:
            old = sp.get(op[2]); new = canon(op[3])
            sp.cset(op[2], op[3], op[4], op[5] if len(op) > 5 else False); emit(segs(op[2]), new, old != new, False)
        elif kind == "del" and ok:
            old = sp.get(op[2]); sp.delete(op[2]); emit(segs(op[2]), old, True, True)
        elif kind == "pdel" and ok:
            for k, val in sorted(sp.pget(op[2]).items()):
                emit(k, val, True, True)
            sp.pdelete(op[2])
        elif kind == "pub" and ok:
            emit(segs(op[1]), canon(op[2]), True, False, publish=True)
        elif kind == "spubinit" and ok:
            spub[(op[1], op[2])] = op[3]
        elif kind == "spub" and ok:
            emit(segs(spub[(op[1], op[2])]), canon(op[3]), True, False, publish=True)
        elif kind == "import" and ok:
            before = dict(sp.m)
            sp.imp(op[1])
            for k in sorted(sp.m):
                if segs("/".join(k)) in [segs(x) for x in op[1]] and op[1].get("/".join(k), (None, 0))[1] is not None:
                    e = sp.m[k]
                    emit(k, e[1], before.get(k) != e, False)
        elif kind in ("sub", "psub") and ok:
            inst = int(r.split(" ")[1])
            s = Sub(inst, kind, segs(op[3]), op[4], op[5], op[1], op[2])
            for o_ in subs.values():
                if o_.active and (o_.c, o_.t) == (op[1], op[2]): o_.orphan = True     # F24: its entry in Worterbuch.subscriptions is overwritten
            subs[inst] = s
            if not s.live and wf_pat(s.pat):
                if kind == "sub":
                    val = sp.get(op[3])
                    if val is not None:
                        exp.append((inst, "V", jtok(val)))
                else:
                    snap = {"/".join(k): v for k, v in sp.pget(op[3]).items()}
                    exp.append((inst, "PV", kv_tok(snap.items())))
                    s.fold = dict(snap)
        elif kind == "subls" and ok:
            pass
        elif kind == "unsub" and ok:
            for s in subs.values():
                if (s.c, s.t) == (op[1], op[2]): s.active = False
        elif kind in ("conn", "disc"):
            if kind == "disc":
                for s in subs.values():
                    if s.c == op[1]: s.active = False
                spub = {k: v for k, v in spub.items() if k[0] != op[1]}
            skip = True    # the $SYS bookkeeping and the burial are C07's business; a dump follows and resyncs
        elif kind == "dump":
            load_dump(sp, lines[i])
        got = events_of(lines[i])
        dead = [e for e in got if e[0] in subs and not subs[e[0]].active]
        if dead and all(getattr(subs[e[0]], "orphan", False) for e in dead):
            if known: known("F24", "a subscription keeps delivering after its unsubscribe/disconnect when a second subscribe was accepted under the same transaction id while it was active (Worterbuch.subscriptions keeps one pattern per id, worterbuch.rs:499,574)")
            got = [e for e in got if e not in dead]
            dead = []
        if dead:
            return (i, f"event {dead[0]} delivered to a subscription after its unsubscribe/disconnect")
        if skip:
            for e in got:
                s = subs.get(e[0])
                if s and s.fold is not None and e[1] in ("PV", "PD"):
                    for k, val in kvs_of(e[2]).items():
                        if e[1] == "PV": s.fold[k] = val
                        else: s.fold.pop(k, None)
            continue
        wfgot = [e for e in got if e[0] not in subs or wf_pat(subs[e[0]].pat)]
        a = sorted(wfgot, key=lambda e: (e[0], ev_key(e)))
        b = sorted(exp, key=lambda e: (e[0], ev_key(e)))
        if a != b:
            return (i, f"events delivered {a} differ from the events the accepted change implies {b}")
    # fold check
    for s in subs.values():
        if s.active and s.fold is not None and not s.publish_seen and wf_pat(s.pat):
            want = {"/".join(k): v for k, v in sp.pget("/".join(s.pat)).items()}
            if s.fold != want:
                diffkeys = set(s.fold.items()) ^ set(want.items())
                def f2(k):
                    kk = segs(k)
                    return s.pat[-1] == "#" and doc_match(tuple(s.pat[:-1]), kk)
                if all(f2(k) for k, _ in diffkeys):
                    if known: known("F2", "folding the events of a subscription to `K/#` misses later changes of the key K itself, which pget `K/#` returns (store.rs:588-591 vs subscribers.rs:204-206)")
                else:
                    return (len(ops) - 1, f"folding the events of subscription {s.inst} ({'/'.join(s.pat)}) gives {s.fold}, pget gives {want}")
    return None


def ls_of(line):
    """-> {inst: (count, [names])} from the ` | ls ` section"""
    from coreops import names_of
    parts = line.split(" | ")
    out = {}
    if len(parts) >= 3:
        for tok in parts[2][3:].split(" "):
            if tok:
                inst, count, names = tok.split(":", 2)
                out[int(inst)] = (int(count), names_of(names))
    return out

def ls_oracle(ops, lines, known=None):
    """at every quiescent point the last list an ls-subscriber received equals what ls returns"""
    from coreops import mapspec_oracle
    sp = MapSpec()
    lsubs = {}   # inst -> dict(parent, c, t, active, last, stale)
    for i, op in enumerate(ops):
        if i >= len(lines):
            return (i, "implementation stopped answering")
        r = res_of(lines[i])
        if r == "crash":
            return (i, "implementation crashed")
        ok = not r.startswith("err")
        kind = op[0]
        before = {inst: sp.ls(s["parent"]) for inst, s in lsubs.items()}
        if kind == "set" and ok: sp.set(op[2], op[3])
        elif kind == "cset" and ok: sp.cset(op[2], op[3], op[4], op[5] if len(op) > 5 else False)
        elif kind == "del" and ok: sp.delete(op[2])
        elif kind == "pdel" and ok: sp.pdelete(op[2])
        elif kind == "import" and ok: sp.imp(op[1])
        elif kind == "dump": load_dump(sp, lines[i])
        elif kind == "subls" and ok:
            inst = int(r.split(" ")[1])
            lsubs[inst] = {"parent": op[3], "c": op[1], "t": op[2], "active": True, "last": None, "stale": False}
        elif kind == "unsubls" and ok:
            for s in lsubs.values():
                if (s["c"], s["t"]) == (op[1], op[2]): s["active"] = False
        elif kind == "disc":
            for s in lsubs.values():
                if s["c"] == op[1]: s["active"] = False
        got = ls_of(lines[i])
        for inst, (count, names) in got.items():
            s = lsubs.get(inst)
            if s is None:
                continue
            if not s["active"]:
                return (i, f"ls notification delivered to ls-subscription {inst} after its unsubscribe/disconnect")
            s["last"] = names; s["stale"] = False
        if kind in ("conn", "disc"):
            continue          # $SYS bookkeeping: the following dump resynchronises the spec
        for inst, s in lsubs.items():
            if not s["active"]:
                continue
            now = sp.ls(s["parent"])
            if kind == "import" and ok and inst not in got and (before.get(inst) != now):
                s["stale"] = True
                if known: known("F18b", "import changes the children of a parent without notifying its ls-subscribers (worterbuch.rs:678-708)")
            if s["stale"]:
                continue
            if s["last"] != (now or []):
                return (i, f"ls-subscription {inst} on parent {s['parent']!r}: last list received {s['last']}, ls returns {now}")
    return None
