"""rendering of persistence-engine operations"""
from casefmt import xs, js
from coreops import render

def R(o):
    k = o[0]
    if k == "flush": return f"flush {o[1]}"
    if k in ("restart", "fs"): return k
    if k == "writejson": return f"writejson {xs(o[1])} {js(o[2])}"
    if k == "writesum": return f"writesum {xs(o[1])} {js(o[2])}"
    if k == "writeraw": return f"writeraw {xs(o[1])} x{o[2].encode().hex()}"
    if k == "touch": return f"touch {xs(o[1])}"
    if k == "rmfile": return f"rmfile {xs(o[1])}"
    return render(o)
