"""Shared machinery of the checks: builds, running both engines, verdicts, evidence."""
import fcntl, hashlib, json, os, re, subprocess, sys, time

ROOT = os.path.dirname(os.path.dirname(os.path.abspath(__file__)))
REPO = "/repo"
COQ = os.path.join(ROOT, "coq")
OCAML = os.path.join(ROOT, "ocaml")
HARNESS = os.path.join(ROOT, "harness")
WORK = os.path.join(ROOT, "work")
WBH = os.path.join(HARNESS, "target", "debug", "wbh")
ENV = dict(os.environ, CARGO_NET_OFFLINE="true", CARGO_TARGET_DIR=os.path.join(HARNESS, "target"))

ALLOWED_AXIOMS = {
    # standard-library axioms a proof file may pull in; each use is reported in the evidence
    "functional_extensionality_dep", "Eqdep.Eq_rect_eq.eq_rect_eq", "eq_rect_eq",
    "proof_irrelevance", "classic", "JMeq_eq", "propositional_extensionality",
}
FORBIDDEN = re.compile(r"\b(Admitted|admit|Axiom|Axioms|Parameter|Parameters|Conjecture|Hypothesis|Variable|Unset Guard|bypass_check|type-in-type|impredicative-set|Admit Obligations|native_compute)\b")

TRUSTED_BASE = [
    "Coq 8.16.1 kernel (coqc); vm_compute for witness lemmas; no native_compute",
    "extraction: Require Extraction + ExtrOcamlBasic only (bool/option/unit/list/prod/sumbool/sumor mapped to OCaml natives, andb/orb/fst/snd inlined); no Extract Constant / Extract Inductive of our own; positive/N/Z stay extracted inductives; OCaml 4.13.1 ocamlfind ocamlopt",
    "hand-written OCaml glue ocaml/conv.ml + *_driver.ml (case parsing, JSON text <-> model json, printing)",
    "Rust harness /verif/harness (path dependency on /repo with feature `verif`), python driver lib/*.py (generators, canonicalisation, diff)",
    "the hand-written Gallina model coq/Model/*.v: the code is modelled, not verified directly; the tie is the behavioural correspondence run on every check",
    "not modelled: tokio scheduling, channel back-pressure, real time, hashbrown iteration order (outputs compared up to permutation), serde_json tokenizer/number printing, UTF-8 validation",
]


def sh(cmd, cwd=None, timeout=3600, env=None, input=None):
    p = subprocess.run(cmd, cwd=cwd, env=env or ENV, stdout=subprocess.PIPE, stderr=subprocess.STDOUT,
                       timeout=timeout, text=True, input=input, shell=isinstance(cmd, str))
    return p.returncode, p.stdout


class Lock:
    def __init__(self, name):
        os.makedirs(WORK, exist_ok=True)
        self.path = os.path.join(WORK, name + ".lock")
    def __enter__(self):
        self.f = open(self.path, "w")
        fcntl.flock(self.f, fcntl.LOCK_EX)
    def __exit__(self, *a):
        fcntl.flock(self.f, fcntl.LOCK_UN)
        self.f.close()


def build_harness():
    """cargo build of the harness against /repo's current working tree"""
    with Lock("cargo"):
        lock_src = os.path.join(REPO, "Cargo.lock")
        lock_dst = os.path.join(HARNESS, "Cargo.lock")
        try:
            if open(lock_src).read() != (open(lock_dst).read() if os.path.exists(lock_dst) else ""):
                open(lock_dst, "w").write(open(lock_src).read())
        except OSError:
            pass
        rc, out = sh(["cargo", "build", "--offline"], cwd=HARNESS, timeout=3000)
        return rc == 0, out


def build_server():
    """the worterbuch server binary of /repo's current working tree (C11/C12 start it the way the orchestrator does)"""
    with Lock("cargo-server"):
        rc, out = sh(["cargo", "build", "--offline", "-p", "worterbuch", "--bin", "worterbuch", "--target-dir", os.path.join(HARNESS, "target-bin")], cwd=REPO, timeout=3400)
        return rc == 0, out


def coq_files():
    files = []
    for line in open(os.path.join(COQ, "_CoqProject")):
        line = line.strip()
        if line.endswith(".v"):
            files.append(line)
    return files


def build_model(full=False):
    """make the Coq development (full .vo build), extract, compile the OCaml drivers"""
    with Lock("coq"):
        # always regenerated: a _CoqProject copied into place keeps its old time stamp, and make would not notice it
        sh(["coq_makefile", "-f", "_CoqProject", "-o", "Makefile"], cwd=COQ)
        if full:
            sh(["make", "clean"], cwd=COQ)
        rc, out = sh(["timeout", "1200", "make", "-j16"], cwd=COQ, timeout=1300)
        if rc != 0:
            return False, out
        ext_v = os.path.join(COQ, "Extract", "Extract.v")
        ml = os.path.join(OCAML, "model.ml")
        newest_vo = max(os.path.getmtime(os.path.join(COQ, f + "o")) for f in coq_files() if f.startswith(("Base/", "Model/")))
        # the extraction is redone whenever the model sources differ from those it was made from (a digest, not only the
        # time stamps: files copied into place keep their old ones)
        h = hashlib.sha256()
        for f in sorted(f for f in coq_files() if f.startswith(("Base/", "Model/"))) + ["Extract/Extract.v"]:
            h.update(f.encode()); h.update(open(os.path.join(COQ, f), "rb").read())
        digest, stamp = h.hexdigest(), os.path.join(OCAML, "model.src.sha256")
        same = os.path.exists(stamp) and open(stamp).read().strip() == digest
        if not os.path.exists(ml) or not same or os.path.getmtime(ml) < max(newest_vo, os.path.getmtime(ext_v)):
            rc, out2 = sh(["coqc", "-Q", "..", "WB", "Extract.v"], cwd=os.path.join(COQ, "Extract"), timeout=600)
            out += out2
            if rc != 0:
                return False, out
            for f in ("model.ml", "model.mli"):
                os.replace(os.path.join(COQ, "Extract", f), os.path.join(OCAML, f))
            open(stamp, "w").write(digest + "\n")
        for drv in [f[:-3] for f in os.listdir(OCAML) if f.endswith("_driver.ml")]:
            exe = os.path.join(OCAML, drv)
            srcs = ["model.mli", "model.ml", "conv.ml", "str_find.ml", "core_driver_lib.ml", drv + ".ml"]
            if not os.path.exists(exe) or os.path.getmtime(exe) < max(os.path.getmtime(os.path.join(OCAML, s)) for s in srcs):
                rc, out2 = sh(["ocamlfind", "ocamlopt", "-w", "-a"] + srcs + ["-o", drv], cwd=OCAML, timeout=600)
                out += out2
                if rc != 0:
                    return False, out
        return True, out


def deps_of(vfile):
    """transitive closure of project .v files a property file depends on"""
    seen = []
    def visit(f):
        if f in seen:
            return
        seen.append(f)
        txt = open(os.path.join(COQ, f)).read()
        for m in re.finditer(r"From WB Require (?:Import|Export) (.*?)\.(?=\s)", txt, re.S):
            for mod in m.group(1).split():
                p = mod.replace(".", "/") + ".v"
                if os.path.exists(os.path.join(COQ, p)):
                    visit(p)
    visit(vfile)
    return seen


def strip_comments(txt):
    out, depth, i = [], 0, 0
    while i < len(txt):
        if txt.startswith("(*", i):
            depth += 1; i += 2
        elif txt.startswith("*)", i) and depth > 0:
            depth -= 1; i += 2
        else:
            if depth == 0:
                out.append(txt[i])
            i += 1
    return "".join(out)


def check_proofs(prop_id, thorough=False):
    """recompile Properties/<id>.v (dependencies from cache), read Print Assumptions, grep the closure.
    returns dict(ok, theorems=[{name, assumptions}], obligations, discharged, log, broken)"""
    vfile = f"Properties/{prop_id}.v"
    res = {"ok": False, "theorems": [], "obligations": 0, "discharged": 0, "broken": None, "log": ""}
    ok, out = build_model(full=thorough)
    res["log"] = out[-4000:]
    closure = deps_of(vfile)
    n_obl = 0
    for f in closure:
        txt = strip_comments(open(os.path.join(COQ, f)).read())
        n_obl += len(re.findall(r"^\s*(?:Theorem|Lemma|Example|Corollary|Fact)\s", txt, re.M))
        m = FORBIDDEN.search(txt)
        if m and not (m.group(1) in ("Variable", "Hypothesis") and "Section" in txt):
            res["broken"] = f"forbidden construct `{m.group(1)}` in {f}"
            return res
    res["obligations"] = n_obl
    if not ok:
        m = re.search(r'File "\./([^"]+)", line (\d+)', out)
        res["broken"] = f"Coq build failed at {m.group(1)}:{m.group(2)}" if m else "Coq build failed"
        return res
    with Lock("coq"):
        rc, out = sh(["coqc", "-Q", ".", "WB", vfile], cwd=COQ, timeout=1200)
    res["log"] = out[-4000:]
    if rc != 0:
        res["broken"] = f"{vfile} does not compile: " + out.strip().splitlines()[-1][:200]
        return res
    txt = strip_comments(open(os.path.join(COQ, vfile)).read())
    names = re.findall(r"Print Assumptions\s+([A-Za-z0-9_']+)\s*\.", txt)
    stated = re.findall(r"^\s*Theorem\s+([A-Za-z0-9_']+)", txt, re.M)
    blocks = re.split(r"(?=Closed under the global context|Axioms:)", out)
    blocks = [b for b in blocks if b.startswith(("Closed under", "Axioms:"))]
    if len(blocks) != len(names) or set(stated) - set(names):
        res["broken"] = f"{vfile}: Print Assumptions missing for a theorem"
        return res
    for name, blk in zip(names, blocks):
        if blk.startswith("Closed under"):
            ax = []
        else:
            ax = re.findall(r"^([A-Za-z0-9_.']+)\s*:", blk, re.M)
        bad = [a for a in ax if a.split(".")[-1] not in ALLOWED_AXIOMS and a not in ALLOWED_AXIOMS]
        res["theorems"].append({"name": name, "assumptions": ax or "Closed under the global context"})
        if bad:
            res["broken"] = f"theorem {name} depends on non-allow-listed axioms {bad}"
            return res
    if thorough:
        with Lock("coq"):
            rc, out = sh(["coqchk", "-silent", "-o", "-Q", ".", "WB", f"WB.Properties.{prop_id}"], cwd=COQ, timeout=3000)
        res["coqchk"] = out.strip()[-1500:]
        if rc != 0:
            res["broken"] = "coqchk failed on " + vfile
            return res
    res["ok"] = True
    res["discharged"] = n_obl
    return res


def run_engine(engine, driver, cases_path, workdir, tag=""):
    """run the Rust harness and the extracted model on a case file -> (impl_obs_path, model_obs_path)"""
    impl = os.path.join(workdir, f"impl{tag}.out")
    model = os.path.join(workdir, f"model{tag}.out")
    for p in (impl, model):
        if os.path.exists(p):
            os.remove(p)
    p1 = subprocess.Popen([WBH, engine, cases_path, impl], env=ENV, stdout=subprocess.PIPE, stderr=subprocess.STDOUT)
    p2 = subprocess.Popen([os.path.join(OCAML, driver), cases_path, model], env=dict(ENV, OCAMLRUNPARAM="l=8G"),
                          stdout=subprocess.PIPE, stderr=subprocess.STDOUT, preexec_fn=lambda: __import__("resource").setrlimit(__import__("resource").RLIMIT_STACK, (-1, -1)))
    o1 = p1.communicate(timeout=3000)[0]
    o2 = p2.communicate(timeout=3000)[0]
    if p1.returncode != 0 or not os.path.exists(impl):
        raise RuntimeError("harness failed: " + o1.decode()[-2000:])
    if p2.returncode != 0 or not os.path.exists(model):
        raise RuntimeError("model driver failed: " + o2.decode()[-2000:])
    _retry_harness_failures(engine, cases_path, impl, workdir, tag)
    return impl, model


def _retry_harness_failures(engine, cases_path, impl, workdir, tag):
    """a case whose engine task died (socket set-up timing under load: the line HARNESS-FAILURE) is run again on its
    own, with few threads; what the property says is decided on the repeated run"""
    from casefmt import read_obs, write_cases
    obs = read_obs(impl)
    failed = [n for n, l in obs.items() if l and l[0] == "HARNESS-FAILURE"]
    if not failed:
        return
    cases = {}
    cur = None
    for line in open(cases_path).read().split("\n"):
        if line.startswith("case "): cur = line[5:]; cases[cur] = []
        elif line == "end": cur = None
        elif cur is not None: cases[cur].append(line)
    for attempt in range(2):
        if not failed: break
        sub = os.path.join(workdir, f"retry{tag}.txt"); out = os.path.join(workdir, f"retry{tag}.out")
        write_cases(sub, [(n, cases[n]) for n in failed])
        subprocess.run([WBH, engine, sub, out], env=dict(ENV, WBH_THREADS="2"), stdout=subprocess.PIPE, stderr=subprocess.STDOUT, timeout=3000)
        if os.path.exists(out):
            again = read_obs(out)
            for n in list(failed):
                if again.get(n) and again[n][0] != "HARNESS-FAILURE":
                    obs[n] = again[n]; failed.remove(n)
    with open(impl, "w") as f:
        for n, l in obs.items():
            f.write(f"case {n}\n" + "".join(x + "\n" for x in l) + "end\n")


def load_known(prop_id):
    path = os.path.join(ROOT, "known_findings.json")
    if not os.path.exists(path):
        return []
    return [k for k in json.load(open(path))["findings"] if k["property"] == prop_id]


class Verdict:
    """collects what a check found and turns it into stdout lines, exit code and evidence"""
    def __init__(self, prop_id, tier, seed, level="proof"):
        self.prop, self.tier, self.seed, self.level = prop_id, tier, seed, level
        self.t0 = time.time()
        self.violations = []      # (replay_path, no_input)
        self.known_lines = []
        self.cov = {}
        self.assumptions = []
        os.makedirs(os.path.join(ROOT, "replay"), exist_ok=True)

    def replay_file(self, payload):
        h = hashlib.sha1(json.dumps(payload, sort_keys=True, default=str).encode()).hexdigest()[:12]
        path = os.path.join(ROOT, "replay", f"{self.prop}-{h}.json")
        payload = dict(payload, property=self.prop)
        json.dump(payload, open(path, "w"), indent=1, default=str)
        return path

    def violation(self, payload, no_input=False):
        self.violations.append((self.replay_file(payload), no_input))

    def known(self, finding_id, what):
        """a failure the oracle classifies as a recorded finding: suppressed only if known_findings.json lists it as known for this
        property (a `fixed` entry suppresses nothing: if the failure is back it is a violation)"""
        listed = [k for k in load_known(self.prop) if k.get("id") == finding_id and k.get("status") == "known"]
        if not listed:
            key = ("unlisted", finding_id)
            if key not in getattr(self, "_unlisted", set()):
                self._unlisted = getattr(self, "_unlisted", set()) | {key}
                self.violation({"what": f"failure of class {finding_id}, which known_findings.json does not list as known for {self.prop}: {what}"})
            return
        line = f"KNOWN-FINDING: property={self.prop} {finding_id}: {what}"
        if line not in self.known_lines:
            self.known_lines.append(line)

    def finish(self):
        wall = time.time() - self.t0
        ev = {"property_id": self.prop, "tier": self.tier, "seed": self.seed, "level": self.level,
              "coverage": self.cov, "assumptions": self.assumptions, "wall_s": round(wall, 2),
              "violations": len(self.violations)}
        # (a run of tools/modelmut.py -- the model swapped for a mutated one on purpose -- is no evidence about the code)
        evdir = os.path.join(ROOT, "work", "modelmut-evidence") if os.environ.get("WV_MUTATED_MODEL") else os.path.join(ROOT, "evidence")
        os.makedirs(evdir, exist_ok=True)
        json.dump(ev, open(os.path.join(evdir, f"{self.prop}.json"), "w"), indent=1, default=str)
        for l in self.known_lines:
            print(l)
        for path, no_input in self.violations[:10]:
            print(f"VIOLATION property={self.prop} replay={path}" + (" no-failing-input-found" if no_input else ""))
        print(f"[{self.prop}] tier={self.tier} seed={self.seed} wall={wall:.1f}s "
              f"evaluations={self.cov.get('evaluations')} violations={len(self.violations)} known={len(self.known_lines)}")
        sys.stdout.flush()
        return 1 if self.violations else 0


def compare_obs(impl_path, model_path, project=None):
    """line-by-line comparison per case; project(line) reduces a line to what the property talks about.
    returns (n_cases, n_steps, [ (case, step, impl_line, model_line) ])"""
    from casefmt import read_obs
    a, b = read_obs(impl_path), read_obs(model_path)
    diffs = []
    steps = 0
    for name, la in a.items():
        lb = b.get(name, [])
        steps += len(la)
        n = max(len(la), len(lb))
        for i in range(n):
            x = la[i] if i < len(la) else "<missing>"
            y = lb[i] if i < len(lb) else "<missing>"
            if project:
                x, y = project(x), project(y)
            if x != y:
                diffs.append((name, i, x, y))
                break
    return len(a), steps, diffs, a, b
