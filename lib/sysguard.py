"""python transcription of check_for_read_only_key and the registration decoders (oracle side)"""
from gen import uuid

def check_read_only(key, c):
    """None if allowed, else error code"""
    if key == "":
        return 25
    if c == 0:
        return None
    path = key.split("/")
    if path[0] != "$SYS":
        return None
    if len(path) <= 3 or path[1] != "clients" or path[2] != uuid(c):
        return 9
    if path[3] in ("graveGoods", "lastWill", "clientName"):
        return None
    return 9

def dec_grave_goods(v):
    if isinstance(v, list) and all(isinstance(x, str) for x in v):
        return v
    return None

def dec_last_will(v):
    if not isinstance(v, list):
        return None
    out = []
    for x in v:
        if isinstance(x, dict) and isinstance(x.get("key"), str) and "value" in x:
            out.append((x["key"], x["value"]))
        elif isinstance(x, list) and len(x) == 2 and isinstance(x[0], str):
            out.append((x[0], x[1]))
        else:
            return None
    return out

def is_protected(key, c):
    """a key under $SYS that client c must not be able to change"""
    path = key.split("/")
    if path[0] != "$SYS":
        return False
    if len(path) > 3 and path[1] == "clients" and path[2] == uuid(c) and path[3] in ("graveGoods", "lastWill", "clientName"):
        return False
    return True
