"""C12 -- promoting a follower loses nothing that was replicated."""
import json, os, re
from casefmt import decode_tok
from common import *
from mapspec import MapSpec
import c11

ID = "C12"
NEEDS_SERVER = True

def untok(t): return bytes.fromhex(t[1:]).decode()

def promotion_oracle(ops, lines, known=None):
    """independent of the model: what the promoted node must serve is computed from what the follower held at the last
    quiescent point -- its user keys, minus everything the grave goods of the clients connected to the old leader match,
    plus their last wills (forced); before the promotion the C11 oracle applies"""
    bad = c11.convergence_oracle(ops, lines, known)
    if bad: return bad
    for i, op in enumerate(ops):
        if not op.startswith("promote "): continue
        f = op.split(" ")[1]
        # the follower's dump at the last quiescent point
        j = max(k for k in range(i) if ops[k] == f"dump {f}")
        d = c11.parse_dump(lines[j])
        if lines[i] != "ok": return (i, f"the promoted node did not come up ({lines[i]})")
        after = c11.parse_dump(lines[i + 1]) if i + 1 < len(lines) else None
        if d is None or after is None: return (i, "dump failed around the promotion")
        sp = MapSpec()
        for item in filter(None, d[0].split(";")):
            k, rest = item.split("=", 1); kind, val = rest.split(":", 1)
            sp.m[tuple(untok(k).split("/"))] = ("P", untok(val)) if kind == "P" else ("C", untok(val), int(kind[1:]))
        ggs, lws = [], []
        for item in filter(None, d[1].split(";")):
            k, val = item.split("=", 1)
            body = json.loads(untok(val))
            if k.endswith("/graveGoods") and isinstance(body, list): ggs += [p for p in body if isinstance(p, str)]
            if k.endswith("/lastWill") and isinstance(body, list): lws += [kv for kv in body if isinstance(kv, dict)]
        # shutdown applies them once, restore applies them again: idempotent
        for _ in range(2):
            for p in ggs:
                if all(s != "#" for s in p.split("/")[:-1]): sp.pdelete(p)
            for kv in lws:
                try: sp.m[tuple(kv["key"].split("/"))] = ("P", json.dumps(kv["value"], separators=(",", ":"), sort_keys=True, ensure_ascii=False))
                except Exception: pass
        want = sorted(f"x{'/'.join(k).encode().hex()}=" + (f"P:j{e[1].encode().hex()}" if e[0] == "P" or e[2] == 0 else f"C{e[2]}:j{e[1].encode().hex()}") for k, e in sp.m.items() if k[0] != "$SYS")
        got = sorted(filter(None, after[0].split(";")))
        if got != want:
            return (i + 1, f"the promoted node serves {decode_tok(';'.join(got))[:500]}; the follower held {decode_tok(d[0])[:400]} with registrations {decode_tok(d[1])[:300]}, so it should serve {decode_tok(';'.join(want))[:500]}")
    return None

def run(v, tier, seed):
    c11.run(v, tier, seed, prop=ID, promote=True, oracle=promotion_oracle)
