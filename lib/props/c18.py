"""C18 -- incremental (ReDB) persistence recovers a prefix of what was applied."""
import json, os, random, re
from casefmt import write_cases, read_obs, xs, js, decode_tok
from common import *
from mapspec import MapSpec
import c11

ID = "C18"
NEEDS_SERVER = True
KEYS = ["a", "a/b", "a/c", "b", "g/x", "g/y/z", "w/1", "c", "é"]
PATS = ["a/#", "a/?", "g/#", "w/?", "b"]      # none of them covers a last-will key of another client (own<c>/.., lwz<c>):
# at SIGTERM the sessions may or may not be ended one by one before the shutdown applies all registrations at once, and
# the two orders differ exactly when one client's grave goods cover another client's last will
gg = lambda c: f"$SYS/clients/@CID{c}@/graveGoods"
lw = lambda c: f"$SYS/clients/@CID{c}@/lastWill"

def untok(t): return bytes.fromhex(t[1:]).decode()

def gen_case(seed):
    r = random.Random(seed)
    ops = ["node ReDB"]
    connected = set()
    lastval = {}
    def val(): return r.choice([1, 2, "s", {"k": [1]}, True, [1, "x"]])
    def phase(n):
        for _ in range(n):
            c = r.choice(sorted(connected)) if connected else None
            x = r.random()
            if c is None or x < 0.1:
                cands = [i for i in (1, 2, 3) if i not in connected]
                if cands:
                    i = r.choice(cands); connected.add(i); ops.append(f"conn {i}"); continue
                c = r.choice(sorted(connected))
            if x < 0.40:
                k = r.choice(KEYS); vv = lastval.get(k, val()) if r.random() < 0.3 else val(); lastval[k] = vv
                ops.append(f"set {c} {xs(k)} {js(vv)}")
            elif x < 0.58:
                # (a third of the writes repeat the value last written to that key: the kind or the version changes, the value does not)
                k = r.choice(KEYS); vv = lastval.get(k, val()) if r.random() < 0.4 else val(); lastval[k] = vv
                ops.append(f"cset {c} {xs(k)} {js(vv)} {r.choice([0, 0, 1, 1, 2])}")
            elif x < 0.62: ops.append(f"del {c} {xs(r.choice(KEYS))}")
            elif x < 0.66: ops.append(f"{r.choice(['churn', 'churnd'])} {c} {r.randint(2, 12)} {xs(r.choice(['a/b', 'b', 'g/x']))}")
            elif x < 0.72: ops.append(f"pdel {c} {xs(r.choice(PATS))}")
            elif x < 0.80: ops.append(f"set {c} {xs(gg(c))} {js([r.choice(PATS + [f'own{c}/#']) for _ in range(r.randint(0, 2))])}")
            elif x < 0.815: ops.append(f"del {c} {xs(r.choice([gg(c), lw(c)]))}")            # a registration is withdrawn (F28)
            elif x < 0.82:
                o = r.choice(sorted(connected))
                # ... through a pattern: the own key, or (first segment a wildcard: F4) somebody's
                ops.append(f"pdel {c} {xs(r.choice([gg(c), lw(c), '?/clients/@CID%d@/graveGoods' % o, '?/clients/?/lastWill']))}")
            elif x < 0.92: ops.append(f"set {c} {xs(lw(c))} {js([{'key': r.choice([f'own{c}/x', f'own{c}/y/z', f'lwz{c}']), 'value': val()} for _ in range(r.randint(0, 2))])}")
            else:
                connected.discard(c); ops.append(f"disc {c}")
    phase(r.randint(3, 18))
    for _ in range(r.choice([0, 0, 1, 2])):                    # clean restarts in between
        ops += ["settle", "dump leader", "stop", "start", "dump leader"]
        connected.clear()
        phase(r.randint(2, 10))
    ops += ["settle", "dump leader"]
    if r.random() < 0.6:
        if not connected:
            connected.add(1); ops.append("conn 1")
        c = r.choice(sorted(connected))
        ops += [f"burst {c} {r.randint(1, 40)} {xs('p')} {r.choice([0, 50, 200, 500, 1000, 3000])}", "kill", "start", "dump leader"]
    else:
        ops += ["stop", "start", "dump leader"]
    return ops

def expected_after_restart(dump_line):
    """the user keys a server must hold after a stop at the point of this dump and a start: what it held, with the
    grave goods of the connected clients buried and their last wills published; -> {key: (kind, value text, version)}"""
    d = c11.parse_dump(dump_line)
    sp = MapSpec()
    for item in filter(None, d[0].split(";")):
        k, rest = item.split("=", 1); kind, val = rest.split(":", 1)
        sp.m[tuple(untok(k).split("/"))] = ("P", untok(val)) if kind == "P" else ("C", untok(val), int(kind[1:]))
    ggs, lws = [], []
    for item in filter(None, d[1].split(";")):
        k, val = item.split("=", 1); body = json.loads(untok(val))
        if k.endswith("/graveGoods") and isinstance(body, list): ggs += [p for p in body if isinstance(p, str)]
        if k.endswith("/lastWill") and isinstance(body, list): lws += [kv for kv in body if isinstance(kv, dict)]
    for p in ggs: sp.pdelete(p)
    for kv in lws: sp.m[tuple(kv["key"].split("/"))] = ("P", json.dumps(kv["value"], separators=(",", ":"), sort_keys=True, ensure_ascii=False))
    return {"/".join(k): e for k, e in sp.m.items() if k[0] != "$SYS"}

def parse_user(dump_line):
    d = c11.parse_dump(dump_line)
    out = {}
    for item in filter(None, d[0].split(";")):
        k, rest = item.split("=", 1); kind, val = rest.split(":", 1)
        out[untok(k)] = ("P", untok(val)) if kind == "P" else ("C", untok(val), int(kind[1:]))
    return out

def prefix_oracle(ops, lines, known=None):
    """the property, on the implementation's trace: after stop+start everything is back; after kill+start the state is
    the quiescent state plus a PREFIX of the burst (keys p/0 .. p/(j-1): no gap, nothing out of order), with the
    registrations of that point applied; values and kinds as they were; CAS versions: known finding F13"""
    last_dump = None
    burst = None
    for i, (op, line) in enumerate(zip(ops, lines)):
        if op.startswith("dump"):
            if c11.parse_dump(line) is None: return (i, f"dump failed: {line[:100]}")
        if op.startswith("burst"): burst = int(op.split(" ")[2])
        if op in ("stop", "kill"): how = op
        if op == "start":
            if line != "ok": return (i, f"the server did not come up again ({line})")
            if i + 1 >= len(lines): continue
            got = parse_user(lines[i + 1])
            want = expected_after_restart(lines[last_dump])
            pkeys = sorted(int(k.split("/")[1]) for k in got if k.startswith("p/") and k.count("/") == 1 and k.split("/")[1].isdigit()) if how == "kill" else []
            if how == "kill":
                if pkeys != list(range(len(pkeys))):
                    return (i + 1, f"after the kill the recovered burst keys are {pkeys}: not a prefix of the {burst} sets sent in order")
                for n in pkeys:
                    if got[f"p/{n}"] != ("P", str(n)): return (i + 1, f"recovered p/{n} = {got[f'p/{n}']}, it was set to {n}")
                got = {k: e for k, e in got.items() if not (k.startswith("p/") and k.count("/") == 1 and k.split("/")[1].isdigit())}
                want = {k: e for k, e in want.items() if not (k.startswith("p/") and k.count("/") == 1)}
                if not pkeys:
                    continue      # nothing of the burst arrived: the cut may lie before it (a pause does not make the writer catch up under load); membership in the model's prefix set is checked by the comparison
            if set(got) != set(want) or any(got[k][:2] != want[k][:2] for k in got):
                if len(got) + len(want) > 40:
                    miss = sorted(k for k in want if k not in got)[:10]; extra = sorted(k for k in got if k not in want)[:10]
                    diff = sorted(k for k in want if k in got and got[k] != want[k])[:10]
                    return (i + 1, f"recovered after {how}: {len(got)} keys, held before (registrations applied): {len(want)} keys; lost: {miss}, not held before: {extra}, different value/kind/version: {diff}")
                return (i + 1, f"recovered after {how}: {got}; held before (registrations applied): {want}")
            vdiff = [k for k in got if got[k][0] == "C" and got[k][2] != want[k][2]]
            if vdiff:
                if all(got[k][2] == 1 for k in vdiff):
                    if known: known("F13", "ReDB persists a CAS entry with the version of the request and reloads it with a forced insert: every CAS value comes back with version 1 (worterbuch.rs:402-407, redb/mod.rs restore_entries)")
                else:
                    return (i + 1, f"recovered CAS versions {[(k, got[k][2], want[k][2]) for k in vdiff]} (recovered, before)")
        if op.startswith("dump"): last_dump = i
    return None

def run(v, tier, seed):
    work = os.path.join(WORK, ID); os.makedirs(work, exist_ok=True)
    n = 24 if tier == "quick" else 500
    cases = [("F13-cas-version", ["node ReDB", "conn 1", f"cset 1 {xs('k')} {js(1)} 0", f"cset 1 {xs('k')} {js(2)} 1", f"cset 1 {xs('k')} {js(3)} 2", "settle", "dump leader", "stop", "start", "dump leader"])]
    # F28 (repaired): a client registers grave goods and withdraws them by deleting the registration key; a key the pattern
    # covers is written AFTERWARDS, between two marker keys.  After a kill the recovered state must come from a prefix of
    # [m, +gg, -gg, x/a, n]: m and n without x/a is none of them -- it is what the server recovered before the repair, when the
    # withdrawn entry stayed in the ReDB registration table and was applied at the start
    f28 = ["node ReDB", "conn 1", "conn 2", f"set 2 {xs('m')} {js(1)}", f"set 1 {xs(gg(1))} {js(['x/#'])}", f"del 1 {xs(gg(1))}",
           f"set 2 {xs('x/a')} {js(1)}", f"set 2 {xs('n')} {js(1)}", "settle", "dump leader", "kill", "start", "dump leader"]
    f28lw = ["node ReDB", "conn 1", "conn 2", f"set 2 {xs('m')} {js(1)}", f"set 1 {xs(lw(1))} {js([{'key': 'w', 'value': 'bye'}])}", f"del 1 {xs(lw(1))}",
             f"set 2 {xs('n')} {js(1)}", "settle", "dump leader", "kill", "start", "dump leader"]
    cases += [("F28-withdrawn-grave-goods", f28), ("F28-withdrawn-last-will", f28lw)]
    # a write that keeps the value but changes the kind of the entry (plain -> CAS by a cset, CAS -> plain by a forced last will) or
    # bumps its version is a change like any other: it must reach the database
    cases.append(("same-value-kind-change", ["node ReDB", "conn 1", "conn 2", f"set 2 {xs('k')} {js('same')}", f"cset 2 {xs('k')} {js('same')} 0",
                                             f"cset 2 {xs('j')} {js(1)} 0", f"set 1 {xs(lw(1))} {js([{'key': 'j', 'value': 1}])}", f"cset 2 {xs('v')} {js('x')} 0", f"cset 2 {xs('v')} {js('x')} 1",
                                             "disc 1", "settle", "dump leader", "stop", "start", "dump leader"]))
    # long bursts: the writer wakes up with hundreds of changes queued (its channel holds 1000) and folds them into one
    # transaction; after a clean stop every one of them must be there, after a kill a gap-free prefix
    rb = random.Random(seed * 49979687)
    for i in range(2 if tier == "quick" else 12):
        nb = rb.randint(1500, 3000)
        cases.append((f"big{i}", ["node ReDB", "conn 1", f"set 1 {xs('a/b')} {js(1)}", "conn 2", f"burst 2 {nb} {xs('p')} 0", f"set 2 {xs('z')} {js(1)}",
                                   f"del 1 {xs('a/b')}", "settle", "dump leader", "stop", "start", "dump leader"]))
    for i in range(1 if tier == "quick" else 12):
        nb = rb.randint(300, 600)          # (the model recovers every prefix: quadratic)
        cases.append((f"bigkill{i}", ["node ReDB", "conn 1", f"set 1 {xs('a/b')} {js(1)}", "settle", "dump leader", "conn 2",
                                       f"burst 2 {nb} {xs('p')} {rb.choice([1000, 3000, 6000, 10000, 20000, 40000])}", "kill", "start", "dump leader"]))
    cases += [(f"r{i}", gen_case(seed * 67867967 + i)) for i in range(n)]
    cpath = os.path.join(work, "cases.txt")
    write_cases(cpath, cases)
    impl, model = run_engine("cluster", "redb_driver", cpath, work)
    A, B = read_obs(impl), read_obs(model)
    diffs, nsteps, kills, stops, cuts = [], 0, 0, 0, []
    for nm, ops in cases:
        la, lb = A.get(nm, []), B.get(nm, [])
        nsteps += len(la)
        for i, op in enumerate(ops):
            x = la[i] if i < len(la) else "<missing>"; y = lb[i] if i < len(lb) else "<missing>"
            if op.startswith("dump"):
                ux = c11.parse_dump(x)
                cands = [c11.parse_dump(c.strip()) for c in y.split(" || ")]
                if ux is None or all(c is None or c[0] != ux[0] for c in cands):
                    diffs.append((nm, i, x, y)); break
            elif x != y:
                diffs.append((nm, i, x, y)); break
    nontrivial = set()
    for nm, ops in cases:
        lines = A.get(nm, [])
        kills += sum(1 for o in ops if o == "kill"); stops += sum(1 for o in ops if o == "stop")
        if "kill" in ops and lines and c11.parse_dump(lines[-1]):
            j = sum(1 for k in parse_user(lines[-1]) if k.startswith("p/")); b = next((int(o.split(" ")[2]) for o in ops if o.startswith("burst")), 0)
            if b: cuts.append((j, b))
            if 0 < j < b: nontrivial.add(nm)
        bad = prefix_oracle(ops, lines, known=v.known)
        if bad:
            step, msg = bad
            v.violation({"what": msg, "case": nm, "engine": "cluster", "driver": "redb_driver", "ops": ops[:step + 1], "ops_readable": [decode_tok(o) for o in ops[:step + 1]]})
            if len(v.violations) >= 3: break
    if diffs and not v.violations:
        nm, step, x, y = diffs[0]
        ops = dict(cases)[nm]
        if nm.startswith("F28-"):
            # the corpus case of a repaired defect: the failing input is known
            v.violation({"what": "a grave goods / last will registration that had been withdrawn (its key deleted) was applied at the start after a kill: the recovered state is no prefix of what the server had applied (F28 is back)",
                         "case": nm, "engine": "cluster", "driver": "redb_driver", "ops": ops[:step + 1], "ops_readable": [decode_tok(o) for o in ops[:step + 1]],
                         "recovered": decode_tok(x)[:1500], "allowed": decode_tok(y)[:3000]})
            diffs = diffs[1:]
    if diffs and not v.violations:
        nm, step, x, y = diffs[0]
        ops = dict(cases)[nm]
        v.violation({"what": "ReDB model and the real server disagree (the recovered state is none of the states the model allows for the cuts the writer can produce); the prefix property held on every observed trace", "case": nm, "engine": "cluster", "driver": "redb_driver",
                     "ops": ops[:step + 1], "ops_readable": [decode_tok(o) for o in ops[:step + 1]], "step": step, "impl": decode_tok(x)[:1500], "model": decode_tok(y)[:3000], "disagreeing_cases": len(diffs),
                     "broken_obligation": "correspondence cluster/C18 (Model/Redb.v actions_of / apply_all / recover / recover_tables)"}, no_input=True)
    samples = [{"case": nm, "ops": [decode_tok(o) for o in ops], "observed": [decode_tok(l)[:300] for l in A.get(nm, [])]} for nm, ops in cases if nm in nontrivial][:2] or \
              [{"case": cases[0][0], "ops": [decode_tok(o) for o in cases[0][1]], "observed": [decode_tok(l)[:300] for l in A.get(cases[0][0], [])]}]
    v.cov.update({"evaluations": len(cases), "distinct_nontrivial": len(nontrivial), "steps": nsteps, "disagreements": len(diffs), "kills": kills, "samples": samples, "clean_restarts": stops, "cuts_observed(recovered of burst)": cuts[:40],
                  "rule": f"a standalone server (child process of the freshly built binary, WORTERBUCH_PERSISTENCE_MODE=ReDB) driven over TCP: {n} random histories of set / cset / delete / pdelete, registration and re-registration of grave goods and last wills, session ends, clean stop-and-start cycles; at the end either a clean stop, or a burst of 1..40 sets sent back to back followed 0..3 ms later by SIGKILL; plus long bursts (the writer wakes up with hundreds of queued changes) of 1500..3000 sets followed by a clean stop, resp. of 300..600 sets followed by SIGKILL 1..40 ms later; then a start on the same database file and a dump (REST export); the recovered state must be one of the states the model allows -- recover(apply(prefix j of the queued actions)) for some j -- and, independently, the quiescent state with its registrations applied plus a gap-free prefix of the burst; non-trivial = the kill fell inside the burst (0 < recovered < sent)",
                  "not_covered": "where the kill lands relative to the writer is decided by the scheduler: the theorem covers every cut, the check observes the ones that occur (see cuts_observed); redb's own atomic commit is trusted; the v1->v2 table migration; the SQLite and Turso backends"})
