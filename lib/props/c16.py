"""C16 -- aggregated pattern subscriptions batch events without losing or reordering them."""
import itertools, os, random
from casefmt import write_cases, read_obs, xs, js, decode_tok
from common import *

ID = "C16"

def R(a):
    if a[0] == "adv": return f"adv {a[1]}"
    return f"{a[0]} " + ";".join(f"{xs(k)}={js(v)}" for k, v in a[1])

def parse_line(l):
    """-> (t, [(kind, [(key, val)])])"""
    parts = l.split(" ")
    t = int(parts[0][2:])
    out = []
    for b in parts[1:]:
        if not b: continue
        kind, inner = b[:2], b[3:-1]
        out.append((kind, [tuple(x.split("=")) for x in inner.split(";")] if inner else []))
    return t, out

def agg_oracle(d, acts, lines):
    """content: per key the batches carry exactly the arrived set/deleted events in order;
    delay: at every observation point t, every event that arrived at or before t - d has been delivered
    (a timer fires somewhere inside a clock advance, so delivery is attributed to the end of the advance;
    the check is exact when the clock advances in steps of 1 ms)"""
    arrived = {}     # key -> [(kind, val, t_arrival)]
    delivered = {}   # key -> [(kind, val)]
    now = 0
    for a, l in zip(acts, lines):
        t, batches = parse_line(l)
        if a[0] == "adv":
            now += a[1]
        else:
            for k, v in a[1]:
                arrived.setdefault(xs(k), []).append(("PV" if a[0] == "kvs" else "PD", js(v), now))
        if t != now:
            return f"virtual clock mismatch at {a}: {t} vs {now}"
        for kind, kvs in batches:
            for k, v in kvs:
                delivered.setdefault(k, []).append((kind, v))
        for k, evs in arrived.items():
            got = delivered.get(k, [])
            if got != [(x, y) for x, y, _ in evs][:len(got)]:
                return f"key {decode_tok(k)}: delivered {[(x, decode_tok(y)) for x, y in got]} is not a prefix of arrived {[(x, decode_tok(y)) for x, y, _ in evs]}"
            for i, (x, y, ta) in enumerate(evs):
                if ta + d <= now and i >= len(got):
                    return f"key {decode_tok(k)}: event ({x}, {decode_tok(y)}) that arrived at {ta} is still not delivered at {now} (interval {d})"
        for k in delivered:
            if k not in arrived: return f"delivered an event for {decode_tok(k)} that never arrived"
    return None

def run(v, tier, seed):
    work = os.path.join(WORK, ID); os.makedirs(work, exist_ok=True)
    d = 10
    cases = []
    evs = [("kvs", [("a", 1)]), ("kvs", [("a", 2)]), ("del", [("a", 2)]), ("kvs", [("b", 1)]), ("del", [("b", 1)]), ("kvs", [("a", 3), ("c", 1)])]
    gaps = [0, d // 2, d, d + 1]
    n = 0
    L = 3 if tier == "quick" else 4
    for m in range(1, L + 1):
        for es in itertools.product(evs, repeat=m):
            for gs in itertools.product(gaps, repeat=m):
                acts = []
                for e, g in zip(es, gs):
                    acts.append(e)
                    if g: acts.append(("adv", g))
                acts += [("adv", d), ("adv", d), ("adv", 1)]
                cases.append((f"x{n}", d, acts)); n += 1
    rnd = random.Random(seed)
    nrand = 300 if tier == "quick" else 10000
    for i in range(nrand):
        dd = rnd.choice([1, 5, 10, 50])
        acts = []
        for _ in range(rnd.randint(5, 60)):
            x = rnd.random()
            if x < 0.45: acts.append(("kvs", [(rnd.choice("abcd"), rnd.randint(0, 3))] if rnd.random() < 0.8 else [(k, rnd.randint(0, 3)) for k in rnd.sample("abcd", 3)]))
            elif x < 0.65: acts.append(("del", [(rnd.choice("abcd"), rnd.randint(0, 3))]))
            else:
                g = rnd.choice([1, dd // 2 or 1, dd, dd + 1, 3 * dd])
                acts += [("adv", 1)] * g if (i % 2 == 0 and g <= 20) else [("adv", g)]
        acts += [("adv", dd), ("adv", dd), ("adv", 1)]
        cases.append((f"r{i}", dd, acts))
    cpath = os.path.join(work, "cases.txt")
    write_cases(cpath, [(nm, [f"interval {dd}"] + [R(a) for a in acts]) for nm, dd, acts in cases])
    impl, model = run_engine("agg", "agg_driver", cpath, work)
    A, B = read_obs(impl), read_obs(model)
    diffs = [(nm, i) for nm, _, _ in cases for i, (x, y) in enumerate(zip(A[nm], B[nm])) if x != y]
    nontrivial, samples, nb = set(), [], 0
    for nm, dd, acts in cases:
        lines = A[nm][1:]
        bad = agg_oracle(dd, acts, lines)
        b = sum(len(parse_line(l)[1]) for l in lines)
        nb += b
        if b >= 2: nontrivial.add(tuple(map(str, acts)))
        if bad:
            v.violation({"what": bad, "case": nm, "engine": "agg", "driver": "agg_driver", "ops": [f"interval {dd}"] + [R(a) for a in acts], "ops_readable": [str(a) for a in acts]})
            if len(v.violations) >= 3: break
        if len(samples) < 2 and b >= 3 and nm.startswith("r"):
            samples.append({"interval_ms": dd, "actions": [str(a) for a in acts[:12]], "observed": [decode_tok(l) for l in lines[:12]]})
    if diffs and not v.violations:
        nm, i = diffs[0]
        dd, acts = next((d_, a_) for n_, d_, a_ in cases if n_ == nm)
        v.violation({"what": "model and implementation disagree; content and delay hold on every observed run", "case": nm, "engine": "agg", "driver": "agg_driver",
                     "ops": [f"interval {dd}"] + [R(a) for a in acts[:i]], "impl": decode_tok(A[nm][i]), "model": decode_tok(B[nm][i]), "disagreeing_cases": len(set(n_ for n_, _ in diffs)),
                     "broken_obligation": "correspondence agg/C16 (Model/Aggregator.v arrive, advance)"}, no_input=True)
    v.cov.update({"evaluations": len(cases), "distinct_nontrivial": len(nontrivial), "disagreements": len(diffs), "batches_observed": nb,
                  "rule": f"the real PStateAggregator on tokio's paused clock: every sequence of <= {L} events over 6 event shapes (repeated key, set/delete alternation, multi-key) x arrival gaps in {{0, d/2, d, d+1}} (exhaustive, {n} schedules) + {nrand} random schedules with intervals 1/5/10/50 ms and bursts; batches with their virtual timestamps compared with the model; oracle: per key the delivered events are the arrived ones in order, each delivered within the interval; non-trivial = at least two batches",
                  "samples": samples, "exhaustive": True,
                  "runtime_note": "the order in which tokio runs a due timer task and a ready receive at the same instant is not modelled; arrivals and clock advances alternate, so it cannot show in these runs"})
