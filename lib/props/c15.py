"""C15 -- with authorization on, a client reaches only keys its token grants."""
import itertools, json, os, random
from casefmt import write_cases, read_obs, xs
from common import *
from mapspec import doc_match, store_match, wf_pat

ID = "C15"

def seqs(alpha, maxlen):
    for n in range(1, maxlen + 1):
        for t in itertools.product(alpha, repeat=n):
            yield list(t)

def sub_match(p, k):
    if not p: return not k
    if not k: return False
    if p[0] == "#": return True
    if p[0] == "?" or p[0] == k[0]: return sub_match(p[1:], k[1:])
    return False

def run(v, tier, seed):
    work = os.path.join(WORK, ID); os.makedirs(work, exist_ok=True)
    depth = 3 if tier == "quick" else 4
    pats = list(seqs(["a", "b", "?", "#"], depth))
    pairs = [(g, r) for g in pats for r in pats]
    # wider alphabet / empty segments, sampled
    rnd = random.Random(seed)
    extra = [([rnd.choice(["a", "b", "", "?", "#", "é"]) for _ in range(rnd.randint(1, 5))],
              [rnd.choice(["a", "b", "", "?", "#", "é"]) for _ in range(rnd.randint(1, 5))]) for _ in range(5000 if tier == "quick" else 50000)]
    pairs += extra
    lines = [f"pm {xs('/'.join(g))} {xs('/'.join(r))}" for g, r in pairs]
    # authorize: grant sets x privilege x requested pattern
    az = []
    for _ in range(2000 if tier == "quick" else 20000):
        gr = lambda: [ "/".join(rnd.choice(pats)) for _ in range(rnd.randint(0, 3)) ]
        privs = {}
        for p in ("read", "write", "delete"):
            x = rnd.random()
            if x < 0.7: privs[p] = gr()
            elif x < 0.85: privs[p] = None
        claims = {"sub": "s", "name": "n", "exp": 4102444800, "worterbuchPrivileges": privs}
        priv = rnd.choice(["read", "write", "delete"])
        req = "/".join(rnd.choice(pats))
        az.append((claims, priv, req))
        lines.append(f"authz {priv} j{json.dumps(claims).encode().hex()} {xs(req)}")
    per = 5000
    cases = [(f"b{j}", lines[j:j + per]) for j in range(0, len(lines), per)]
    cpath = os.path.join(work, "cases.txt")
    write_cases(cpath, cases)
    impl, model = run_engine("auth", "auth_driver", cpath, work)
    A, B = read_obs(impl), read_obs(model)
    a = [l for nm, _ in cases for l in A[nm]]
    b = [l for nm, _ in cases for l in B[nm]]
    diffs = sum(1 for x, y in zip(a, b) if x != y)
    # failing-input search: brute-force containment over keys up to depth 5 for every accepted pair with a well-formed grant
    keys = [k for k in seqs(["a", "b", "c"], 5)]
    accepted = 0
    nontrivial = set()
    samples = []
    checked_keys = 0
    for i, (g, r) in enumerate(pairs):
        if a[i] != "1":
            continue
        accepted += 1
        if not wf_pat(g):
            continue
        if len(g) > 1 or len(r) > 1: nontrivial.add((tuple(g), tuple(r)))
        # only keys up to the depth that can distinguish (len(g), len(r) <= 5)
        for k in keys:
            if len(k) > max(len(g), len(r)) + 1: continue
            checked_keys += 1
            for rel, name in ((doc_match, "documented relation"), (store_match, "store relation (pget/pdelete)"), (sub_match, "event routing relation")):
                if rel(tuple(r), tuple(k)) and not rel(tuple(g), tuple(k)):
                    v.violation({"what": f"the grant {'/'.join(g)!r} is accepted as covering the request {'/'.join(r)!r}, but the request reaches key {'/'.join(k)!r} which the grant does not match ({name})",
                                 "grant": "/".join(g), "request": "/".join(r), "key": "/".join(k)})
                    break
            if len(v.violations) >= 3: break
        if len(v.violations) >= 3: break
        if len(samples) < 3 and len(g) >= 2 and len(r) >= 2 and g != r:
            samples.append({"grant": "/".join(g), "request": "/".join(r), "accepted": True})
    # authorize must be "some grant of that privilege matches"
    base = len(pairs)
    for j, (claims, priv, req) in enumerate(az):
        want = any(a_pm(g, req, pairs, a) for g in (claims["worterbuchPrivileges"].get(priv) or []))
        got = a[base + j]
        if got != ("ok" if want else "denied"):
            v.violation({"what": f"authorize({priv}, {req!r}) answered {got} with grants {claims['worterbuchPrivileges']}", "claims": claims, "privilege": priv, "request": req})
            break
    # ---- the request table on a real session: which privilege, on which pattern, each request kind is checked against ----
    tstats = request_table(v, work)
    if not v.violations:
        import restcheck
        tstats.update(restcheck.check_auth_table(v, work))
    if diffs and not v.violations:
        i = next(i for i, (x, y) in enumerate(zip(a, b)) if x != y)
        v.violation({"what": "model and implementation disagree; every accepted containment is sound on all keys explored", "line": lines[i], "impl": a[i], "model": b[i],
                     "broken_obligation": "correspondence auth/C15 (Model/Auth.v pm, authorize)"}, no_input=True)
    v.cov.update({"evaluations": len(lines), "distinct_nontrivial": len(nontrivial), "disagreements": diffs, "accepted_pairs": accepted, "keys_checked": checked_keys,
                  "rule": f"pattern_matches(granted, requested) of the real code vs the model for every pair of patterns over {{a,b,?,#}} up to depth {depth} ({len(pats)}^2 pairs, exhaustive) + sampled pairs with empty/unicode segments to depth 5; for every accepted pair with a well-formed grant a brute-force containment check over all keys over {{a,b,c}} up to depth 5 under the three matching relations; authorize() for random grant sets x privilege x request; non-trivial = accepted pair with a pattern of more than one segment",
                  "samples": samples, "exhaustive": True, **tstats,
                  "request_table_rule": "a real in-process server with authorization required, one session per grant set (only read / only write / only delete on a/#, a parent-only read grant, a children-only read grant, nothing), every request kind sent once on keys and patterns under a/: each answer must be Unauthorized exactly when the privilege the documentation assigns to the kind (ls: read on <parent>/?) is not granted, and all messages are compared with the session model; four sessions presenting an expired token, a token signed with another key, an unsigned token (alg none) and garbage, and sessions sending a request before any token: each is ended without being served; the same over the REST front end (Model/Rest.v): every endpoint (get, pget, ls, set, publish, delete, pdelete, export, import) under eleven grant sets, and without a token / with a garbage, expired or forged token (401 resp. 403, nothing served)",
                  "not_covered_here": "token validation (jsonwebtoken: signature, expiry) is the library's; random request sequences with authorization are part of C13"})

KIND_PRIV = {"get": "read", "cGet": "read", "subscribe": "read", "pGet": "read", "pSubscribe": "read", "ls": "read", "pLs": "read", "subscribeLs": "read",
             "set": "write", "cSet": "write", "sPubInit": "write", "publish": "write", "lock": "write", "acquireLock": "write", "releaseLock": "write",
             "delete": "delete", "pDelete": "delete"}
E_UNAUTHORIZED = 14

def request_table(v, work):
    from sessionops import R, parse_out, decode_msg, canon_session_line, align_closed
    grantsets = {"ro": {"read": ["a/#"]}, "wo": {"write": ["a/#"]}, "do": {"delete": ["a/#"]}, "none": {},
                 "parent": {"read": ["a"]}, "kids": {"read": ["a/?"]}, "all": {"read": ["#"], "write": ["#"], "delete": ["#"]}}
    reqs = [("set", {"key": "a/b", "value": 1}), ("cSet", {"key": "a/c", "value": 1, "version": 0}), ("get", {"key": "a/b"}), ("cGet", {"key": "a/c"}), ("pGet", {"requestPattern": "a/?"}),
            ("subscribe", {"key": "a/b", "unique": False}), ("pSubscribe", {"requestPattern": "a/?", "unique": False}), ("ls", {"parent": "a"}), ("pLs", {"parentPattern": "a"}),
            ("subscribeLs", {"parent": "a"}), ("sPubInit", {"key": "a/s"}), ("publish", {"key": "a/p", "value": 1}), ("lock", {"key": "a/l"}), ("releaseLock", {"key": "a/l"}),
            ("acquireLock", {"key": "a/l"}), ("releaseLock", {"key": "a/l"}), ("delete", {"key": "a/b"}), ("pDelete", {"requestPattern": "a/?", "quiet": None}), ("get", {"key": "a"}), ("ls", {"parent": None})]
    cases = []
    for nm, gr in grantsets.items():
        ops = [("open", 0), ("auth", 0, {"sub": "u", "name": "n", "exp": 4102444800, "worterbuchPrivileges": gr})]
        for t, (kind, body) in enumerate(reqs, start=1):
            ops.append(("send", 0, {kind: {"transactionId": t, **body}}))
        cases.append((f"table-{nm}", ops))
    # tokens the server must refuse: expired, signed with another key, unsigned ("alg":"none"), garbage -- the session ends, and
    # a request sent before any token ends it too (no request is served before a valid token)
    full = {"sub": "u", "name": "n", "exp": 4102444800, "worterbuchPrivileges": {"read": ["#"], "write": ["#"], "delete": ["#"]}}
    refused = []
    for mode in ("expired", "forged", "noalg", None):
        ops = [("open", 0), ("open", 1), ("badauth", 0, mode, full) if mode else ("badauth", 0), ("send", 0, {"get": {"transactionId": 1, "key": "a"}}),
               ("send", 1, {"set": {"transactionId": 1, "key": "a", "value": 1}})]
        refused.append((f"token-{mode or 'garbage'}", ops))
    cpath = os.path.join(work, "table.txt")
    write_cases(cpath, [(nm, ["cfg auth=1"] + [R(o) for o in ops]) for nm, ops in cases + refused])
    impl, model = run_engine("session", "session_driver", cpath, work, tag="-table")
    A, B = read_obs(impl), read_obs(model)
    A = {nm: align_closed(A[nm], B.get(nm, [])) for nm in A}
    A = {nm: [canon_session_line(l) if l != 'ok' else l for l in A[nm]] for nm in A}
    B = {nm: [canon_session_line(l) if l != 'ok' else l for l in B[nm]] for nm in B}
    for nm, ops in refused:
        flat = " ".join(A[nm][1:])
        if "0:closed" not in flat or "state" in "".join(str(decode_msg(t)) for l in A[nm][1:] for s_, t in parse_out(l) if s_ == 0 and t.startswith("j") and "state" in decode_msg(t)):
            v.violation({"what": f"{nm}: a session that presented a refused token was not ended, or was served", "case": nm, "engine": "session", "driver": "session_driver",
                         "ops": ["cfg auth=1"] + [R(x) for x in ops], "observed": A[nm]})
            return {"request_table_requests": 0}
        if "1:closed" not in flat or any(decode_msg(t).get("ack") for l in A[nm][1:] for s_, t in parse_out(l) if s_ == 1 and t.startswith("j")):
            v.violation({"what": f"{nm}: a request sent before any token was served, or its session was not ended", "case": nm, "engine": "session", "driver": "session_driver",
                         "ops": ["cfg auth=1"] + [R(x) for x in ops], "observed": A[nm]})
            return {"request_table_requests": 0}
        for i, (x, y) in enumerate(zip(A[nm], B.get(nm, []))):
            if x != y and not v.violations:
                v.violation({"what": "refused tokens: session model and server disagree", "case": nm, "engine": "session", "driver": "session_driver",
                             "ops": ["cfg auth=1"] + [R(o) for o in ops[:i]], "impl": x, "model": y, "broken_obligation": "correspondence session/C15 (Model/Session.v authorize_session)"}, no_input=True)
    denied = served = 0
    for nm, ops in cases:
        gr = grantsets[nm[6:]]
        lines = A[nm][1:]
        for i, o in enumerate(ops):
            if o[0] != "send": continue
            kind, body = next(iter(o[2].items()))
            pat = body.get("key") or body.get("requestPattern") or None
            if kind in ("ls", "subscribeLs"): pat = (body["parent"] + "/?") if body.get("parent") else "?"
            if kind == "pLs": pat = body["parentPattern"] + "/?"
            want_ok = any(doc_covers(g, pat) for g in gr.get(KIND_PRIV[kind], []))
            got = [t for s_, t in parse_out(lines[i])]
            unauth = f"err:{body['transactionId']}:{E_UNAUTHORIZED}" in got
            denied += unauth; served += (not unauth)
            if unauth == want_ok:
                v.violation({"what": f"with the grants {gr} the request {kind} {body} was {'refused as unauthorized' if unauth else 'served'}: it needs the {KIND_PRIV[kind]} privilege on {pat!r}",
                             "case": nm, "engine": "session", "driver": "session_driver", "ops": ["cfg auth=1"] + [R(x) for x in ops[:i + 1]], "ops_readable": [str(x) for x in ops[:i + 1]]})
                return {"request_table_requests": served + denied}
        for i, (x, y) in enumerate(zip(A[nm], B.get(nm, []))):
            if x != y and not v.violations:
                v.violation({"what": "request table: session model and server disagree; every request was refused exactly when its privilege was missing", "case": nm, "engine": "session", "driver": "session_driver",
                             "ops": ["cfg auth=1"] + [R(o) for o in ops[:i]], "impl": [(s_, decode_msg(t)) for s_, t in parse_out(x)], "model": [(s_, decode_msg(t)) for s_, t in parse_out(y)],
                             "broken_obligation": "correspondence session/C15 (Model/Auth.v auth_requirement, Model/Session.v handle)"}, no_input=True)
    return {"request_table_requests": served + denied, "request_table_refused": denied, "request_table_served": served}

def doc_covers(g, pat):
    """does the grant cover the requested key / pattern: every key the request can reach is matched by the grant
    (patterns here are of the two shapes used in the table: a literal key, or literal/?)"""
    gs, ps = g.split("/"), pat.split("/")
    def cov(gs, ps):
        if not gs: return not ps
        if gs[0] == "#": return len(gs) == 1 and len(ps) >= 1
        if not ps: return False
        if gs[0] == "?": return ps[0] != "#" and cov(gs[1:], ps[1:])
        return gs[0] == ps[0] and cov(gs[1:], ps[1:])
    return cov(gs, ps)

def a_pm(g, req, pairs, a, _cache={}):
    if not _cache:
        for (gg, rr), x in zip(pairs, a):
            _cache[("/".join(gg), "/".join(rr))] = x == "1"
    return _cache.get((g, req), False)
