"""C15 -- with authorization on, a client reaches only keys its token grants."""
import itertools, json, os, random
from casefmt import write_cases, read_obs, xs
from common import *
from mapspec import doc_match, store_match, wf_pat

ID = "C15"

def seqs(alpha, maxlen):
    for n in range(1, maxlen + 1):
        for t in itertools.product(alpha, repeat=n):
            yield list(t)

def sub_match(p, k):
    if not p: return not k
    if not k: return False
    if p[0] == "#": return True
    if p[0] == "?" or p[0] == k[0]: return sub_match(p[1:], k[1:])
    return False

def run(v, tier, seed):
    work = os.path.join(WORK, ID); os.makedirs(work, exist_ok=True)
    depth = 3 if tier == "quick" else 4
    pats = list(seqs(["a", "b", "?", "#"], depth))
    pairs = [(g, r) for g in pats for r in pats]
    # wider alphabet / empty segments, sampled
    rnd = random.Random(seed)
    extra = [([rnd.choice(["a", "b", "", "?", "#", "é"]) for _ in range(rnd.randint(1, 5))],
              [rnd.choice(["a", "b", "", "?", "#", "é"]) for _ in range(rnd.randint(1, 5))]) for _ in range(5000 if tier == "quick" else 50000)]
    pairs += extra
    lines = [f"pm {xs('/'.join(g))} {xs('/'.join(r))}" for g, r in pairs]
    # authorize: grant sets x privilege x requested pattern
    az = []
    for _ in range(2000 if tier == "quick" else 20000):
        gr = lambda: [ "/".join(rnd.choice(pats)) for _ in range(rnd.randint(0, 3)) ]
        privs = {}
        for p in ("read", "write", "delete"):
            x = rnd.random()
            if x < 0.7: privs[p] = gr()
            elif x < 0.85: privs[p] = None
        claims = {"sub": "s", "name": "n", "exp": 4102444800, "worterbuchPrivileges": privs}
        priv = rnd.choice(["read", "write", "delete"])
        req = "/".join(rnd.choice(pats))
        az.append((claims, priv, req))
        lines.append(f"authz {priv} j{json.dumps(claims).encode().hex()} {xs(req)}")
    per = 5000
    cases = [(f"b{j}", lines[j:j + per]) for j in range(0, len(lines), per)]
    cpath = os.path.join(work, "cases.txt")
    write_cases(cpath, cases)
    impl, model = run_engine("auth", "auth_driver", cpath, work)
    A, B = read_obs(impl), read_obs(model)
    a = [l for nm, _ in cases for l in A[nm]]
    b = [l for nm, _ in cases for l in B[nm]]
    diffs = sum(1 for x, y in zip(a, b) if x != y)
    # failing-input search: brute-force containment over keys up to depth 5 for every accepted pair with a well-formed grant
    keys = [k for k in seqs(["a", "b", "c"], 5)]
    accepted = 0
    nontrivial = set()
    samples = []
    checked_keys = 0
    for i, (g, r) in enumerate(pairs):
        if a[i] != "1":
            continue
        accepted += 1
        if not wf_pat(g):
            continue
        if len(g) > 1 or len(r) > 1: nontrivial.add((tuple(g), tuple(r)))
        # only keys up to the depth that can distinguish (len(g), len(r) <= 5)
        for k in keys:
            if len(k) > max(len(g), len(r)) + 1: continue
            checked_keys += 1
            for rel, name in ((doc_match, "documented relation"), (store_match, "store relation (pget/pdelete)"), (sub_match, "event routing relation")):
                if rel(tuple(r), tuple(k)) and not rel(tuple(g), tuple(k)):
                    v.violation({"what": f"the grant {'/'.join(g)!r} is accepted as covering the request {'/'.join(r)!r}, but the request reaches key {'/'.join(k)!r} which the grant does not match ({name})",
                                 "grant": "/".join(g), "request": "/".join(r), "key": "/".join(k)})
                    break
            if len(v.violations) >= 3: break
        if len(v.violations) >= 3: break
        if len(samples) < 3 and len(g) >= 2 and len(r) >= 2 and g != r:
            samples.append({"grant": "/".join(g), "request": "/".join(r), "accepted": True})
    # authorize must be "some grant of that privilege matches"
    base = len(pairs)
    for j, (claims, priv, req) in enumerate(az):
        want = any(a_pm(g, req, pairs, a) for g in (claims["worterbuchPrivileges"].get(priv) or []))
        got = a[base + j]
        if got != ("ok" if want else "denied"):
            v.violation({"what": f"authorize({priv}, {req!r}) answered {got} with grants {claims['worterbuchPrivileges']}", "claims": claims, "privilege": priv, "request": req})
            break
    if diffs and not v.violations:
        i = next(i for i, (x, y) in enumerate(zip(a, b)) if x != y)
        v.violation({"what": "model and implementation disagree; every accepted containment is sound on all keys explored", "line": lines[i], "impl": a[i], "model": b[i],
                     "broken_obligation": "correspondence auth/C15 (Model/Auth.v pm, authorize)"}, no_input=True)
    v.cov.update({"evaluations": len(lines), "distinct_nontrivial": len(nontrivial), "disagreements": diffs, "accepted_pairs": accepted, "keys_checked": checked_keys,
                  "rule": f"pattern_matches(granted, requested) of the real code vs the model for every pair of patterns over {{a,b,?,#}} up to depth {depth} ({len(pats)}^2 pairs, exhaustive) + sampled pairs with empty/unicode segments to depth 5; for every accepted pair with a well-formed grant a brute-force containment check over all keys over {{a,b,c}} up to depth 5 under the three matching relations; authorize() for random grant sets x privilege x request; non-trivial = accepted pair with a pattern of more than one segment",
                  "samples": samples, "exhaustive": True,
                  "not_covered_here": "token validation (jsonwebtoken) and the session automaton (no service before a token; the request table) are exercised by the session engine, see C13"})

def a_pm(g, req, pairs, a, _cache={}):
    if not _cache:
        for (gg, rr), x in zip(pairs, a):
            _cache[("/".join(gg), "/".join(rr))] = x == "1"
    return _cache.get((g, req), False)
