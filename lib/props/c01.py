"""C01 -- reads return exactly what the accepted writes imply."""
import itertools, os, random
from casefmt import write_cases, decode_tok, read_obs
from common import *
from coreops import *
from gen import Gen

ID = "C01"
CORPUS = [
    ("F1-rejected-cset-leaves-no-nodes", [("cset", 1, "a/b", 1, 5), ("ls", "a"), ("ls", None), ("dump",), ("set", 1, "c", 1), ("del", 1, "c"), ("dump",)]),
    ("F1-rejected-set-on-cas", [("cset", 1, "k", 1, 0), ("set", 1, "k", 2), ("set", 1, "k/x/y", 2), ("dump",), ("cset", 1, "k/x", 1, 3), ("dump",), ("pdel", 1, "k/#"), ("dump",)]),
    ("F18-import-valueless-leaf", [("import", {"c/c": ("P", None), "b": ("P", None), "b/b": ("C", {"k": 1}, 7)}), ("dump",), ("ls", "c"), ("pdel", 3, "b"), ("dump",)]),
    ("empty-segments", [("set", 1, "a//b", 1), ("set", 1, "/", 2), ("set", 1, "", 3), ("ls", ""), ("ls", "a/"), ("pget", "?/?"), ("pget", "#"), ("pls", "?"), ("dump",)]),
    ("wildcards-in-keys", [("set", 1, "a/?", 1), ("set", 1, "#", 1), ("get", "a/#"), ("del", 1, "?"), ("cset", 1, "?/b", 1, 0), ("dump",)]),
]

def exhaustive_alphabet():
    keys = ["a", "a/b", "b"]
    ops = []
    for k in keys:
        ops += [("set", 1, k, 1), ("set", 2, k, 2), ("cset", 1, k, 1, 0), ("cset", 2, k, 2, 1), ("cset", 1, k, 3, 2), ("del", 1, k)]
    ops += [("pdel", 1, p) for p in ["a/#", "?", "#", "a/?", "?/b"]]
    ops += [("import", {"a/b": ("P", 9)}), ("import", {"b": ("C", 9, 4), "a": ("P", 1)})]
    return ops

READ_TAIL = [("pget", "#"), ("pget", "a/#"), ("pget", "?"), ("pget", "?/?"), ("ls", None), ("ls", "a"), ("ls", "a/b"), ("ls", "b"),
             ("pls", None), ("pls", "?"), ("pls", "a"), ("cget", "a"), ("cget", "a/b"), ("cget", "b"), ("get", "a"), ("len",)]

def random_case(g, n):
    r = g.r
    ops = []
    for _ in range(n):
        x = r.random()
        if x < 0.22: ops.append(("set", g.client(), g.key(), g.value()))
        elif x < 0.40:
            k = g.key()
            ops.append(("cset", g.client(), k, g.value(), r.choice([0, 0, 1, 1, 2, 3, 5, 18446744073709551615])))
        elif x < 0.50: ops.append(("del", g.client(), g.key()))
        elif x < 0.58: ops.append(("pdel", g.client(), g.pattern()))
        elif x < 0.62:
            ents = {}
            for _ in range(r.randint(1, 4)):
                k = g.key()
                if "?" in k.split("/") or "#" in k.split("/") or k == "": continue
                ents[k] = ("P", g.value()) if r.random() < 0.6 else ("C", g.value(), r.randint(1, 9))
            ops.append(("import", ents))
        elif x < 0.68: ops.append(("get", g.key()))
        elif x < 0.74: ops.append(("cget", g.key()))
        elif x < 0.82: ops.append(("pget", g.pattern()))
        elif x < 0.88: ops.append(("ls", r.choice([None, g.key()])))
        elif x < 0.92: ops.append(("pls", r.choice([None, g.pattern()])))
        elif x < 0.95: ops.append(("len",))
        else: ops.append(("dump",))
    ops.append(("dump",))
    return ops

def run(v, tier, seed):
    work = os.path.join(WORK, ID); os.makedirs(work, exist_ok=True)
    cases = list(CORPUS)
    alpha = exhaustive_alphabet()
    bound = 2 if tier == "quick" else 3
    n_exh = 0
    for n in range(1, bound + 1):
        for t in itertools.product(alpha, repeat=n):
            ops = []
            for o in t:
                ops += [o, ("dump",)]
            cases.append((f"x{n_exh}", ops + READ_TAIL)); n_exh += 1
    nrand = 1500 if tier == "quick" else 30000
    for i in range(nrand):
        g = Gen(seed * 1000003 + i, depth=3, sys_bias=0.05)
        cases.append((f"r{i}", random_case(g, g.r.randint(10, 120))))
    cpath = os.path.join(work, "cases.txt")
    write_cases(cpath, [(n, [render(o) for o in ops]) for n, ops in cases])
    impl, model = run_engine("core", "core_driver", cpath, work)
    ncases, nsteps, diffs, A, B = compare_obs(impl, model, project=res_of)
    hist, nontrivial, samples = {}, set(), []
    acc = rej = 0
    for name, ops in cases:
        lines = A.get(name, [])
        bad = mapspec_oracle(ops, lines)
        kinds = set()
        for o, l in zip(ops, lines):
            hist[o[0]] = hist.get(o[0], 0) + 1
            if o[0] in ("set", "cset", "del", "pdel", "import"):
                if res_of(l).startswith("err"): rej += 1; kinds.add("rej")
                else: acc += 1; kinds.add("acc")
        if {"acc", "rej"} <= kinds:
            nontrivial.add(tuple(map(str, ops)))
        if bad:
            step, msg = bad
            def fails(cand):
                wc = os.path.join(work, "shrink.txt")
                write_cases(wc, [("s", [render(o) for o in cand])])
                i2, _ = run_engine("core", "core_driver", wc, work, tag="-shrink")
                return mapspec_oracle(cand, read_obs(i2)["s"]) is not None
            small = shrink(ops[:step + 1], fails)
            v.violation({"what": msg, "case": name, "ops": [render(o) for o in small], "ops_readable": [str(o) for o in small],
                         "original_length": len(ops), "spec": "MapSpec (lib/mapspec.py = coq/Spec/MapSpec.v)"})
            if len(v.violations) >= 3: break
        if len(samples) < 2 and name.startswith("r"):
            samples.append({"case": name, "ops": [str(o) for o in ops[:12]], "observed": [decode_tok(res_of(l)) for l in lines[:12]]})
    if diffs and not v.violations:
        name, step, x, y = diffs[0]
        ops = dict(cases)[name]
        v.violation({"what": "model and implementation disagree; MapSpec accepts every observed trace", "case": name,
                     "ops": [render(o) for o in ops[:step + 1]], "step": step, "impl": decode_tok(x), "model": decode_tok(y),
                     "disagreeing_cases": len(diffs), "broken_obligation": "correspondence core/C01 (Model/Core.v step, projection: request results + dump)"}, no_input=True)
    # the same store behind the REST front end (server/axum/mod.rs, Model/Rest.v): random histories of HTTP requests
    rstats = {}
    if not v.violations:
        import restcheck
        rstats = restcheck.check_random(v, work, seed, 40 if tier == "quick" else 600)
    v.cov.update({"evaluations": ncases, "distinct_nontrivial": len(nontrivial), "steps": nsteps, "disagreements": len(diffs), **rstats,
                  "rest_rule": "random histories of REST requests (set, get, pget, delete, pdelete, ls, export, import, publish, writes to $SYS keys) on a real in-process server: HTTP status and body of every answer compared with Model/Rest.v; oracle: get / pget answer from a key/value reference fed with the accepted writes",
                  "rule": f"corpus + every sequence of <= {bound} writes over a {len(alpha)}-op alphabet (each followed by a full dump, then {len(READ_TAIL)} reads) + {nrand} seeded random histories of 10-120 requests (3-level keys with empty/unicode segments, wildcards, $SYS keys, imports); non-trivial = contains an accepted and a rejected write",
                  "samples": samples, "op_histogram": hist, "accepted_writes": acc, "rejected_writes": rej, "exhaustive_sequences": n_exh})
