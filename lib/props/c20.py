"""C20 -- the client library pairs answers with calls and sends what it was given."""
import json, os, random, re
from casefmt import write_cases, read_obs, xs, js, decode_tok
from common import *
from mapspec import MapSpec

ID = "C20"
KEYS = ["a", "a/b", "a/c", "b", "a/b/c", "k"]
PATS = ["a/#", "a/?", "b", "a/?/c"]
DELAY = 150

def split_line(line):
    parts = line.split(" | ")
    while len(parts) < 3: parts.append("")
    return parts[0].strip(), [m for m in parts[1].split(" ") if m], [e for e in parts[2].split(" ") if e]

def msg_json(m):
    """'0:S>j7b..' -> (conn, dir, json or text)"""
    conn, rest = m.split(":", 1)
    d, tok = rest[0], rest[2:]
    if tok.startswith("j"):
        try: return int(conn), d, json.loads(bytes.fromhex(tok[1:]).decode())
        except Exception: pass
    return int(conn), d, tok

def tid_of(v):
    if isinstance(v, dict):
        body = next(iter(v.values()))
        if isinstance(body, dict): return body.get("transactionId", -1)
    return -1

def canon(line):
    """per connection: what the client sent, then what it received, each ordered by transaction id (messages of different
    transactions travel through different tasks); stripped lines arrive sorted already"""
    res, msgs, evs = split_line(line)
    if res.startswith("spub:"): res = "spub:*/" + res.split("/")[1]      # how many of the concurrent spub calls resolve is F16 (oracle)
    keyed = []
    # a pattern delete that removes several children of one parent sends the parent's ls-subscriber one list per removal, in the
    # hash order of the children: the intermediate lists are not determined, the last one is (C05), so only that one is compared
    def is_ls(m):
        c, d, v = msg_json(m)
        return (c, tid_of(v)) if d == "S" and isinstance(v, dict) and "lsState" in v else None
    msgs = [m for i, m in enumerate(msgs) if is_ls(m) is None or i + 1 == len(msgs) or is_ls(msgs[i + 1]) != is_ls(m)]
    def ls_sub(e):
        sub, body = e.split(":", 1)
        return sub if body[:1] == "L" else None
    evs = [e for i, e in enumerate(evs) if ls_sub(e) is None or i + 1 == len(evs) or ls_sub(evs[i + 1]) != ls_sub(e)]
    parsed = [msg_json(m) for m in msgs]
    if res == "ok" and msgs and all(tid_of(v) in (-1, None) for _, _, v in parsed if isinstance(v, dict)) and any(d == "C" and isinstance(v, dict) and next(iter(v)) in ("set", "publish") for _, d, v in parsed):
        # the pause after a buffer burst: the sleeping tasks of different keys wake up in an order the timer wheel decides, so the
        # order of the resulting events is not compared; what was sent (and acknowledged) is
        keep = [m for m, (c, d, v) in zip(msgs, parsed) if d == "C" or (isinstance(v, dict) and next(iter(v)) in ("ack", "err"))]
        return res + " | " + " ".join(sorted(keep)) + " | "
    for i, m in enumerate(msgs):
        c, d, v = msg_json(m)
        t_ = tid_of(v)
        # events of one pdelete / import for different keys leave the server in hash order: per-key order is kept, keys are grouped
        kname = ""
        if isinstance(v, dict) and "pState" in v:
            kname = ",".join(sorted(kv["key"] for kv in (v["pState"].get("keyValuePairs") or v["pState"].get("deleted") or [])))
        keyed.append(((c, d, t_ if t_ is not None else -1, kname), i if t_ not in (-1, None) else 0, m))
    keyed.sort(key=lambda x: (x[0], x[1], x[2]))
    def ekey(e):
        sub, body = e.split(":", 1)
        return (sub, body[1:] if body[:1] in "PX" else "")
    evs2 = [e for _, e in sorted(enumerate(evs), key=lambda ie: (ie[1].split(":", 1)[0], ekey(ie[1])[1] if ie[1].split(":", 1)[1][:1] in "PX" else "", ie[0]))]
    if res.startswith("spub:"):
        # concurrent publishes on one stream reach the server in the order the tasks were scheduled: the events are compared as a multiset
        evs2 = sorted(evs)
    return res + " | " + " ".join(m for _, _, m in keyed) + " | " + " ".join(evs2)

class Tracker:
    """transaction ids the library will hand out (one per command, also for commands that name an existing id)"""
    def __init__(self): self.next = {}; self.pending = {}
    def connect(self, h): self.next[h] = 1
    def take(self, h, n=1):
        t = self.next[h]; self.next[h] += n; return t

def gen_case(seed):
    r = random.Random(seed)
    tr = Tracker()
    ops = ["connect 0", "connect 1"]
    tr.connect(0); tr.connect(1)
    subs = []            # (handle, tid, kind)
    buffers = {}         # name -> (handle, set of (kind, key) pending)
    streams = []
    val = lambda: r.choice([1, 2, "s", None, {"k": [1, 2]}, True])
    for _ in range(r.randint(6, 28)):
        h = r.randrange(2); x = r.random(); k = r.choice(KEYS)
        if x < 0.16: tr.take(h); ops.append(f"call {h} set {xs(k)} {js(val())}")
        elif x < 0.24: tr.take(h); ops.append(f"call {h} get {xs(k)}")
        elif x < 0.30: tr.take(h); ops.append(f"call {h} cget {xs(k)}")
        elif x < 0.36: tr.take(h); ops.append(f"call {h} cset {xs(k)} {js(val())} {r.choice([0, 0, 1, 2])}")
        elif x < 0.41: tr.take(h); ops.append(f"call {h} pget {xs(r.choice(PATS))}")
        elif x < 0.46: tr.take(h); ops.append(f"call {h} delete {xs(k)}")
        elif x < 0.49: tr.take(h); ops.append(f"call {h} pdelete {xs(r.choice(PATS))} {r.randint(0, 1)}")
        elif x < 0.53: tr.take(h); ops.append(f"call {h} ls {r.choice(['-', xs('a'), xs('a/b'), xs('zz')])}")
        elif x < 0.56: tr.take(h); ops.append(f"call {h} publish {xs(k)} {js(val())}")
        elif x < 0.62:
            t = tr.take(h); kind = r.choice(["subscribe", "psubscribe", "subls"])
            tk = r.choice(["", "", "_async"])        # the ticket API: no local event stream, the caller only gets the id
            if kind == "subscribe": ops.append(f"call {h} subscribe{tk} {xs(k)} {r.randint(0, 1)} {r.randint(0, 1)}")
            elif kind == "psubscribe": ops.append(f"call {h} psubscribe{tk} {xs(r.choice(PATS))} {r.randint(0, 1)} {r.randint(0, 1)}")
            else: ops.append(f"call {h} subls{tk} {r.choice(['-', xs('a'), xs('a/b')])}")
            subs.append((h, t, kind))
        elif x < 0.70 and subs:
            sh, t, kind = subs.pop(r.randrange(len(subs)))
            tr.take(sh)
            if kind == "subls": ops.append(f"call {sh} {r.choice(['unsubls', 'unsubls_async'])} {t}")
            else: ops.append(f"call {sh} {r.choice(['unsubscribe', 'unsubscribe_async'])} {t}")
        elif x < 0.73:
            tr.take(h); a = r.choice(["set_async", "get_async", "cset_async", "publish_async", "cget_async", "pget_async", "delete_async", "pdelete_async",
                                      "ls_async", "pls_async", "lock_async", "release_async", "spubinit_async"])
            if a in ("set_async", "publish_async"): ops.append(f"call {h} {a} {xs(k)} {js(val())}")
            elif a == "cset_async": ops.append(f"call {h} {a} {xs(k)} {js(val())} {r.choice([0, 0, 1, 2])}")
            elif a == "pget_async": ops.append(f"call {h} {a} {xs(r.choice(PATS))}")
            elif a == "pdelete_async": ops.append(f"call {h} {a} {xs(r.choice(PATS))} {r.randint(0, 1)}")
            elif a in ("ls_async", "pls_async"): ops.append(f"call {h} {a} {r.choice(['-', xs('a'), xs('a/b')])}")
            elif a in ("lock_async", "release_async"): ops.append(f"call {h} {a} {xs(r.choice(['l', 'l/m']))}")
            else: ops.append(f"call {h} {a} {xs(k)}")
        elif x < 0.76:
            t = tr.take(h); ops.append(f"call {h} spubinit {xs(k)}"); streams.append((h, t))
        elif x < 0.79 and streams:
            sh, t = r.choice(streams)
            if r.random() < 0.3:
                n = r.randint(2, 5); tr.take(sh, n); ops.append(f"parspub {sh} {t} {n}")
            elif r.random() < 0.3:
                tr.take(sh); ops.append(f"call {sh} spub_async {t} {js(val())}")
            else:
                tr.take(sh); ops.append(f"call {sh} spub {t} {js(val())}")
        elif x < 0.84:
            n = r.randint(2, 12); tr.take(h, 3 * n); ops.append(f"par {h} {n} {xs('p' + str(len(ops)))}")
        elif x < 0.95:
            name = f"b{h}"
            if name not in buffers:
                buffers[name] = (h, set()); ops.append(f"buffer {h} {name} {DELAY}")
            for _ in range(r.randint(1, 8)):
                kind = r.choice(["set", "set", "pub"]); key = r.choice(["k", "q", "a/b"])
                buffers[name][1].add((kind, key))
                ops.append(f"later {name} {kind} {xs(key)} {js(val())}")
            ops.append(f"sleep {DELAY * 3} {sum(len(pend) for _, pend in buffers.values())}")      # (the harness waits until that many have left)
            for nm, (bh, pend) in buffers.items():
                tr.take(bh, len(pend)); pend.clear()
        else: tr.take(h); ops.append(f"call {h} lock {xs(r.choice(['l', 'l/m']))}")
    ops.append(f"call 0 pget {xs('a/#')}")
    return ops

def overlap_case(seed):
    """a burst over many keys, and a second burst on the same keys while the flushes of the first are still on their way
    (they queue behind the command channel and wait for their acknowledgements)"""
    r = random.Random(seed)
    nk = r.randint(60, 400)
    ops = ["connect 0", f"buffer 0 b0 {DELAY}", f"lover b0 {nk} {xs('o')} {DELAY + r.choice([0, 1, 2, 3, 5, 8, 12])}", f"sleep {DELAY * 4}"]
    for i in r.sample(range(nk), 6):
        if i % 5: ops.append(f"call 0 get {xs(f'o/{i}')}")
    return ops

def overlap_oracle(ops, lines):
    """eventually: per kind and key, what is sent is a subsequence of what was handed over, in order, and it ends with
    the latest value handed over; nothing else is sent by the buffer"""
    handed, sent = {}, {}
    for op, line in zip(ops, lines):
        t = op.split(" ")
        if t[0] == "later": handed.setdefault((t[2], untok(t[3])), []).append(json.loads(untok(t[4])))
        if t[0] == "lover":
            for rnd in (0, 1):
                for i in range(int(t[2])): handed.setdefault(("pub" if i % 5 == 0 else "set", f"{untok(t[3])}/{i}"), []).append(rnd * 1000 + i)
        _, msgs, _ = split_line(line)
        for m in msgs:
            c, d, v = msg_json(m)
            if d == "C" and isinstance(v, dict) and next(iter(v)) in ("set", "publish"):
                kind = next(iter(v)); sent.setdefault(("set" if kind == "set" else "pub", v[kind]["key"]), []).append(v[kind]["value"])
    for k, hs in handed.items():
        ss = sent.get(k, [])
        if not ss or ss[-1] != hs[-1]:
            return (len(ops) - 1, f"send buffer: for {k} the values {hs} were handed over, sent were {ss}: the latest value was never sent")
        it = iter(hs)
        if not all(any(x == y for y in it) for x in ss):
            return (len(ops) - 1, f"send buffer: for {k} sent {ss} is not a subsequence of what was handed over {hs}")
    for k in sent:
        if k not in handed: return (len(ops) - 1, f"send buffer sent {k} which was never handed over")
    return None

def untok(t):
    return bytes.fromhex(t[1:]).decode()

def api_oracle(ops, lines, known=None):
    """independent reference for what the API must return and send:
    typed results against a key/value reference; every task of a concurrent batch gets its own values back;
    the buffer sends exactly one set / publish per buffered key with the latest value; after an unsubscribe
    (of either kind, awaited or not) the server sends nothing more for that subscription id"""
    sp = MapSpec()
    ended = set()        # (conn, tid)
    pending = {}         # buffer -> {(kind, key): value token}
    bufh = {}
    for i, (op, line) in enumerate(zip(ops, lines)):
        res, msgs, evs = split_line(line)
        t = op.split(" ")
        # nothing may arrive for an ended subscription
        for m in msgs:
            c, d, v = msg_json(m)
            if d == "S" and isinstance(v, dict):
                kind = next(iter(v))
                if kind in ("state", "pState", "lsState") and (c, tid_of(v)) in ended:
                    return (i, f"the server still sends {kind} for subscription {tid_of(v)} of connection {c} after its unsubscribe")
        if t[0] == "call":
            h, kind = int(t[1]), t[2]
            if res == "noanswer": return (i, f"call `{' '.join(t[2:4])}` never resolved")
            if kind == "set":
                if res == "ok": sp.set(untok(t[3]), json.loads(untok(t[4])))
            elif kind.endswith("_async") and kind in ("set_async", "cset_async", "delete_async", "pdelete_async"):
                # fire-and-forget: the caller only gets the id; whether the server accepted is read off its answer to that id
                if not res.startswith("tid:"): return (i, f"{kind} returned {decode_tok(res)} instead of its transaction id")
                ans = [v for c, d, v in map(msg_json, msgs) if c == h and d == "S" and isinstance(v, dict) and tid_of(v) == int(res[4:])]
                accepted = bool(ans) and "err" not in ans[0]
                if accepted and kind == "set_async": sp.set(untok(t[3]), json.loads(untok(t[4])))
                if accepted and kind == "cset_async": sp.cset(untok(t[3]), json.loads(untok(t[4])), int(t[5]))
                if accepted and kind == "delete_async": sp.delete(untok(t[3]))
                if accepted and kind == "pdelete_async": sp.pdelete(untok(t[3]))
            elif kind == "cset":
                if res == "ok": sp.cset(untok(t[3]), json.loads(untok(t[4])), int(t[5]))
            elif kind == "get":
                want = sp.get(untok(t[3]))
                exp = "none" if want is None else "val:j" + want.encode().hex()
                if res != exp: return (i, f"get {untok(t[3])!r} returned {decode_tok(res)}, the server holds {want}")
            elif kind == "cget":
                e = sp.m.get(tuple(untok(t[3]).split("/")))
                exp = "none" if e is None else f"cval:{e[2] if e[0] == 'C' else 0}:j" + e[1].encode().hex()
                if res != exp: return (i, f"cget {untok(t[3])!r} returned {decode_tok(res)}, the server holds {e}")
            elif kind == "delete":
                want = sp.get(untok(t[3]))
                if res.startswith("val:") or res == "none":
                    exp = "none" if want is None else "val:j" + want.encode().hex()
                    if res != exp: return (i, f"delete {untok(t[3])!r} returned {decode_tok(res)}, the server held {want}")
                    sp.delete(untok(t[3]))
            elif kind == "pget":
                want = sorted(f"{xs('/'.join(k))}=j{v.encode().hex()}" for k, v in sp.pget(untok(t[3])).items())
                if res != "kvs[" + ";".join(want) + "]": return (i, f"pget {untok(t[3])!r} returned {decode_tok(res)}, the server holds {decode_tok(';'.join(want))}")
            elif kind == "pdelete":
                if res.startswith("kvs["): sp.pdelete(untok(t[3]))
            elif kind in ("unsubscribe", "unsubscribe_async", "unsubls", "unsubls_async"):
                ended.add((h, int(t[3])))
        elif t[0] == "par":
            want = ",".join(f"1:j{str(n).encode().hex()}:1" for n in range(int(t[2])))
            if res != want: return (i, f"concurrent batch: results {res}, expected each task to read back its own value ({want})")
            for n in range(int(t[2])): sp.set(f"{untok(t[3])}/{n}", n)
        elif t[0] == "parspub":
            k_, n_ = res[5:].split("/")
            if k_ != n_:
                sent = sum(1 for m in msgs if msg_json(m)[1] == "C")
                acks = sum(1 for m in msgs if msg_json(m)[1] == "S" and isinstance(msg_json(m)[2], dict) and "ack" in msg_json(m)[2])
                if known and sent == int(n_) and acks == int(n_):
                    known("F16", "spub files its callback under the stream's transaction id: of several spub calls in flight on one stream only the last one's caller is answered, the others never resolve (lib.rs Command::SPub)")
                else:
                    return (i, f"{int(n_) - int(k_)} of {n_} concurrent spub calls never resolved; messages sent {sent}, acknowledged {acks}")
        elif t[0] == "buffer":
            pending[t[2]] = {}; bufh[t[2]] = int(t[1])
        elif t[0] == "later":
            pending[t[1]][(t[2], t[3])] = t[4]
        elif t[0] == "sleep":
            want = []
            for b, d in pending.items():
                for (kind, key), v in d.items():
                    body = {"key": untok(key), "value": json.loads(untok(v))}
                    want.append((bufh[b], "set" if kind == "set" else "publish", json.dumps(body, sort_keys=True)))
                    cur = sp.m.get(tuple(untok(key).split("/")))
                    if kind == "set" and not (cur and cur[0] == "C"): sp.set(untok(key), json.loads(untok(v)))      # a plain set of a CAS-protected key is refused (C02)
                d.clear()
            got = []
            for m in msgs:
                c, d_, v = msg_json(m)
                if d_ == "C" and isinstance(v, dict):
                    kind = next(iter(v)); got.append((c, kind, json.dumps(v[kind], sort_keys=True)))
            if sorted(got) != sorted(want):
                return (i, f"send buffer: sent {sorted(got)}, handed over (latest per key) {sorted(want)}")
    return None

def run(v, tier, seed):
    work = os.path.join(WORK, ID); os.makedirs(work, exist_ok=True)
    cases = []
    corpus = open(os.path.join(ROOT, "corpus", "F14-F15-demonstration-cases.txt")).read().split("\n")
    demo = [l for l in corpus if l and not l.startswith("case ") and l != "end"]
    demo = [l for l in demo if "pget x23" not in l]      # the closing `pget #` reads $SYS (server bookkeeping): not compared
    cases.append(("F14-F15-demo", demo))
    cases.append(("F16-concurrent-spub", ["connect 0", f"call 0 spubinit {xs('s/t')}", "parspub 0 1 6", f"call 0 get {xs('a')}"]))
    n = 60 if tier == "quick" else 1500
    cases += [(f"r{i}", gen_case(seed * 32452843 + i)) for i in range(n)]
    nov = 8 if tier == "quick" else 100
    cases += [(f"ov{i}", overlap_case(seed * 15487469 + i)) for i in range(nov)]
    cpath = os.path.join(work, "cases.txt")
    write_cases(cpath, cases)
    impl, model = run_engine("client", "client_driver", cpath, work)
    ncases, nsteps, diffs, A, B = compare_obs(impl, model, project=canon)
    # overlapping bursts: when each flush goes out is timing; only the results of the closing reads are compared with the model
    diffs = [d for d in diffs if not d[0].startswith("ov")]
    for nm, ops in cases:
        if nm.startswith("ov"):
            for i, op in enumerate(ops):
                if op.startswith("call ") and i < len(A.get(nm, [])) and i < len(B.get(nm, [])) and split_line(A[nm][i])[0] != split_line(B[nm][i])[0]:
                    diffs.append((nm, i, A[nm][i], B[nm][i])); break
    calls = sum(1 for _, ops in cases for o in ops if o.startswith("call "))
    partasks = sum(int(o.split(" ")[2]) for _, ops in cases for o in ops if o.startswith("par "))
    laters = sum(1 for _, ops in cases for o in ops if o.startswith("later "))
    nontrivial = set()
    for nm, ops in cases:
        lines = A.get(nm, [])
        if not lines or lines[0] == "HARNESS-FAILURE":
            v.violation({"what": "the client engine did not complete this case", "case": nm, "engine": "client", "driver": "client_driver", "ops": ops, "broken_obligation": "correspondence client/C20"}, no_input=True)
            break
        if any(o.startswith("par ") or o.startswith("sleep ") for o in ops): nontrivial.add(nm)
        bad = overlap_oracle(ops, lines) if nm.startswith("ov") else api_oracle(ops, lines, known=v.known)
        if bad:
            step, msg = bad
            v.violation({"what": msg, "case": nm, "engine": "client", "driver": "client_driver", "ops": ops[:step + 1], "ops_readable": [decode_tok(o) for o in ops[:step + 1]], "observed": [decode_tok(l)[:600] for l in lines[max(0, step - 2):step + 1]]})
            if len(v.violations) >= 3: break
    if diffs and not v.violations:
        nm, step, x, y = diffs[0]
        ops = dict(cases)[nm]
        v.violation({"what": "client model and client library disagree; every call resolved with its own answer and the buffer sent what it was given on every observed trace", "case": nm, "engine": "client", "driver": "client_driver",
                     "ops": ops[:step + 1], "ops_readable": [decode_tok(o) for o in ops[:step + 1]], "step": step, "impl": decode_tok(x)[:1500], "model": decode_tok(y)[:1500], "disagreeing_cases": len(diffs),
                     "broken_obligation": "correspondence client/C20 (Model/Client.v on_cmd / on_msg / result_of / bstep over Model/Session.v)"}, no_input=True)
    samples = [{"case": nm, "ops": [decode_tok(o) for o in ops][:30], "observed": [decode_tok(l)[:400] for l in A.get(nm, [])][:30]} for nm, ops in cases if nm in nontrivial][:2]
    v.cov.update({"evaluations": ncases, "distinct_nontrivial": len(nontrivial), "steps": nsteps, "disagreements": len(diffs), "samples": samples, "api_calls": calls, "concurrent_tasks": partasks, "buffered_values": laters,
                  "rule": f"the real worterbuch-client library over a unix socket against a real in-process server, through a recording proxy (every line the library sends and receives is observed); corpus (the F14/F15 demonstration) + {n} random scripts on two connections: all awaited calls (set, cset, get, cget, pget, delete, pdelete, ls, publish, spub_init/spub, lock), the fire-and-forget variant of every call (15 kinds), subscribe / psubscribe / subscribe_ls with their event streams or through the ticket API (no local stream), unsubscribe of either kind awaited or not, batches of 2..12 concurrent tasks on cloned handles (3 calls each), send-buffer bursts (repeated keys, set and publish on the same key) followed by a pause of 3 x delay; compared per step with Client model over Session model: the API result, every client and server message with its transaction id (per connection, ordered by id; concurrent steps without ids, sorted), the subscription events; independent oracle: key/value reference for typed results, own-value read-back per concurrent task, exactly-the-latest-per-key for the buffer, silence after unsubscribe",
                  "not_covered": "task scheduling inside the library beyond the interleavings that occurred; timing closer than 3 x delay around the buffer's timer; tcp and websocket transports; typed (serde) conversion of values beyond serde_json::Value"})
