"""C07 -- session end buries grave goods, publishes the last will, cleans up, nothing else."""
import itertools, json, os, random
from casefmt import write_cases, decode_tok, read_obs, canon
from common import *
from coreops import *
from eventspec import load_dump, kv_tok, jtok
from mapspec import MapSpec, segs, wf_pat, store_match, doc_match
from sysguard import *
from gen import Gen, uuid

ID = "C07"

def gg_key(c): return f"$SYS/clients/{uuid(c)}/graveGoods"
def lw_key(c): return f"$SYS/clients/{uuid(c)}/lastWill"

def reach_bad(sp, pat):
    """does the traversal reach a `#` that is not last (then the pdelete fails as a whole)"""
    p = segs(pat)
    if wf_pat(p): return False
    i = next(i for i, s in enumerate(p[:-1]) if s == "#")
    pre = p[:i]
    def prefix_match(k):
        return len(k) >= len(pre) and all(a == "?" or a == b for a, b in zip(pre, k[:len(pre)]))
    return any(prefix_match(k) for k in sp.m)

def session_oracle(ops, lines, known=None):
    """at every disconnect: state afterwards = lastwill . bury . drop_sys (state before); other clients' subscriptions
    get exactly the delete/set events those steps imply; the client's own subscriptions, ls-subscriptions, spub keys,
    locks are gone"""
    sp = MapSpec()
    connected = []
    subs = {}          # inst -> (client, tid, kind, pattern, unique, active)
    for i, op in enumerate(ops):
        if i >= len(lines): return (i, "implementation stopped answering")
        r = res_of(lines[i])
        if r == "crash": return (i, "implementation crashed")
        ok = not r.startswith("err")
        kind = op[0]
        if kind == "set" and ok: sp.set(op[2], op[3])
        elif kind == "cset" and ok: sp.cset(op[2], op[3], op[4], op[5] if len(op) > 5 else False)
        elif kind == "del" and ok: sp.delete(op[2])
        elif kind == "pdel" and ok: sp.pdelete(op[2])
        elif kind in ("sub", "psub") and ok:
            for s in subs.values():
                if s[5] and (s[0], s[1]) == (op[1], op[2]): s.append("orphan")        # F24: its entry in Worterbuch.subscriptions is overwritten
            subs[int(r.split(" ")[1])] = [op[1], op[2], kind, segs(op[3]), op[4], True]
        elif kind == "unsub" and ok:
            for s in subs.values():
                if (s[0], s[1]) == (op[1], op[2]): s[5] = False
        elif kind == "conn":
            if ok: connected.append(op[1])
        elif kind == "dump":
            if r != sp.dump_token():
                # after conn the server's bookkeeping keys appear; accept and resync, but only $SYS may differ
                old = {k: e for k, e in sp.m.items() if k[0] != "$SYS"}
                sp.load_dump(r)
                new = {k: e for k, e in sp.m.items() if k[0] != "$SYS"}
                if old != new and ops[i - 1][0] != "disc":
                    return (i, f"user keys changed outside any request: {old} -> {new}")
        elif kind == "disc":
            c = op[1]
            exp = []   # expected events (inst, kind, payload) for still-active subscriptions of other clients
            def emit(path, valtext, changed, deleted):
                for inst, s in subs.items():
                    if not s[5] or s[0] == c or not wf_pat(s[3]) or not doc_match(tuple(s[3]), tuple(path)): continue
                    if not (changed or not s[4]): continue
                    key = "/".join(path)
                    if s[2] == "psub": exp.append((inst, "PD" if deleted else "PV", kv_tok([(key, valtext)])))
                    else: exp.append((inst, "D" if deleted else "V", jtok(valtext)))
            ggv = sp.get(gg_key(c)); lwv = sp.get(lw_key(c))
            gg = dec_grave_goods(json.loads(ggv)) if ggv is not None else None
            lw = dec_last_will(json.loads(lwv)) if lwv is not None else None
            if c in connected: connected.remove(c)
            cnt = canon(len(connected))
            emit(("$SYS", "clients"), cnt, sp.get("$SYS/clients") != cnt, False)
            sp.m[("$SYS", "clients")] = ("P", cnt)
            for s in subs.values():
                if s[0] == c: s[5] = False
            def pdelete(pat):
                for k, val in sorted(sp.pget(pat).items()):
                    emit(k, val, True, True)
                sp.pdelete(pat)
            pdelete(f"$SYS/clients/{uuid(c)}/#")
            for g in gg or []:
                if check_read_only(g, c) is None and not reach_bad(sp, g):
                    pdelete(g)
            for k, val in lw or []:
                ksegs = k.split("/")
                if check_read_only(k, c) is None and "?" not in ksegs and "#" not in ksegs:
                    path = segs(k)
                    if path[0] == "$SYS" and len(path) == 4 and path[1] == "clients" and path[3] in ("graveGoods", "lastWill") and val is not None \
                       and (dec_grave_goods(val) if path[3] == "graveGoods" else dec_last_will(val)) is None:
                        continue
                    new = canon(val)
                    emit(path, new, sp.get(k) != new, False)
                    sp.m[path] = ("P", new)
            got = [e for e in events_of(lines[i]) if e[0] in subs and wf_pat(subs[e[0]][3])]
            # events put into the disconnecting client's own queues while its session is being torn down can
            # reach nobody (the connection is gone); they are not constrained
            got = [e for e in got if subs[e[0]][0] != c]
            f24 = [e for e in got if not subs[e[0]][5] and "orphan" in subs[e[0]]]
            if f24:
                if known: known("F24", "a subscription survives its unsubscribe / the end of its session when a second subscribe was accepted under the same transaction id while it was active (Worterbuch.subscriptions keeps one pattern per id, worterbuch.rs:499,574)")
                got = [e for e in got if e not in f24]
            a = sorted(got, key=lambda e: (e[0], ev_key(e)))
            b = sorted(exp, key=lambda e: (e[0], ev_key(e)))
            if a != b:
                return (i, f"disconnect of client {c}: events delivered {a}, expected {b}")
            # the dump that follows must equal the expected state exactly
            if i + 1 < len(lines) and ops[i + 1][0] == "dump":
                r2 = res_of(lines[i + 1])
                if r2 != sp.dump_token():
                    return (i + 1, f"state after the disconnect of client {c} differs: impl {decode_tok(r2)} vs expected {decode_tok(sp.dump_token())}")
        elif kind == "unsubls" and op[-1] == "probe":
            pass
    return None

def cleanup_probes(c):
    """requests that must all fail after client c is gone: its subscription ids, ls ids, spub streams"""
    return [("unsub", c, 1), ("unsubls", c, 2), ("spub", c, 7, 0)]

def survivor_oracle(ops, lines, known=None):
    """no event reaches a subscription of a client after that client's session ended"""
    subs = {}    # inst -> [client, tid, ended, orphan]
    for i, (op, l) in enumerate(zip(ops, lines)):
        r = res_of(l)
        if op[0] in ("sub", "psub") and r.startswith("sub "):
            for s in subs.values():
                if not s[2] and (s[0], s[1]) == (op[1], op[2]): s[3] = True
            subs[int(r.split(" ")[1])] = [op[1], op[2], False, False]
        elif op[0] == "unsub" and not r.startswith("err"):
            for s in subs.values():
                if (s[0], s[1]) == (op[1], op[2]) and not s[3]: s[2] = True
        dead = [e for e in events_of(l) if e[0] in subs and subs[e[0]][2] and op[0] != "disc"]
        if dead:
            if all(subs[e[0]][3] for e in dead):
                if known: known("F24", "a subscription survives its unsubscribe / the end of its session when a second subscribe was accepted under the same transaction id while it was active (Worterbuch.subscriptions keeps one pattern per id, worterbuch.rs:499,574)")
            else:
                return (i, f"event {dead[0]} delivered to a subscription of client {subs[dead[0][0]][0]} after its session ended")
        if op[0] == "disc":
            for s in subs.values():
                if s[0] == op[1]: s[2] = True
    return None

F27_TEXT = ("an ls-subscription survives its unsubscribe_ls / the end of its session when a second subscribe_ls was accepted under the same "
            "transaction id while it was active (Worterbuch.ls_subscriptions keeps one parent per id, worterbuch.rs:659)")

def ls_survivor_oracle(ops, lines, known=None):
    """no child list reaches an ls-subscription after it was unsubscribed or its client's session ended"""
    from eventspec import ls_of
    subs = {}    # inst -> [client, tid, ended, orphan]
    for i, (op, l) in enumerate(zip(ops, lines)):
        r = res_of(l)
        if op[0] == "subls" and r.startswith("sub "):
            for s in subs.values():
                if not s[2] and (s[0], s[1]) == (op[1], op[2]): s[3] = True
            subs[int(r.split(" ")[1])] = [op[1], op[2], False, False]
            continue
        if op[0] == "unsubls" and not r.startswith("err"):
            for s in subs.values():
                if (s[0], s[1]) == (op[1], op[2]) and not s[3]: s[2] = True
        dead = [inst for inst in ls_of(l) if inst in subs and subs[inst][2] and op[0] != "disc"]
        if dead:
            if all(subs[inst][3] for inst in dead):
                if known: known("F27", F27_TEXT)
            else:
                return (i, f"child list delivered to ls-subscription {dead[0]} of client {subs[dead[0]][0]} after it ended")
        if op[0] == "disc":
            for s in subs.values():
                if s[0] == op[1]: s[2] = True
    return None

def probe_oracle(ops, lines):
    """after disc c the probes must answer NotSubscribed / NotSubscribed / NoPubStream"""
    gone = set()
    for i, (op, l) in enumerate(zip(ops, lines)):
        r = res_of(l)
        if op[0] == "disc": gone.add(op[1])
        elif op[0] == "conn": gone.discard(op[1])
        elif op[0] in ("unsub", "unsubls") and op[1] in gone and r != "err 6":
            return (i, f"{op} after the session of client {op[1]} ended answered `{r}`: the subscription survived the session")
        elif op[0] == "spub" and op[1] in gone and r != "err 15":
            return (i, f"{op} after the session of client {op[1]} ended answered `{r}`: the publish stream survived the session")
        elif op[0] in ("sub", "psub", "subls", "spubinit") and op[1] in gone:
            gone.discard(op[1])
    return None

CORPUS = [
    ("F27-dup-ls-tid", [("conn", 1), ("conn", 2), ("dump",), ("subls", 1, 1, "a"), ("subls", 1, 1, "b"), ("disc", 1), ("dump",), ("set", 2, "a/x", 1), ("set", 2, "b/y", 1)]),
    ("F24-dup-tid", [("conn", 1), ("conn", 2), ("dump",), ("sub", 1, 6, "x", False, True), ("sub", 1, 6, "y", False, True), ("set", 2, "x", 1), ("disc", 1), ("dump",), ("set", 2, "y", 2), ("set", 2, "x", 2)]),
    ("basic", [("conn", 1), ("conn", 2), ("dump",), ("set", 1, gg_key(1), ["g/#", "h/?"]), ("set", 1, lw_key(1), [{"key": "w/1", "value": "bye"}, ["w/2", 2]]),
               ("set", 2, "g/1", 1), ("set", 2, "g/2/3", 1), ("set", 2, "h/x", 1), ("set", 2, "h/x/y", 1), ("cset", 2, "w/1", 0, 0), ("psub", 2, 1, "#", False, True), ("sub", 2, 2, "w/1", True, True),
               ("sub", 1, 1, "g/1", False, True), ("subls", 1, 2, "g"), ("spubinit", 1, 7, "s"), ("lock", 1, "k"), ("acq", 2, "k"),
               ("disc", 1), ("dump",)] + cleanup_probes(1) + [("cget", "w/1"), ("rel", 2, "k"), ("disc", 2), ("dump",)]),
    ("re-registration", [("conn", 1), ("dump",), ("set", 1, gg_key(1), ["old/#"]), ("set", 1, gg_key(1), ["new/#"]), ("set", 2, "old/a", 1), ("set", 2, "new/a", 1),
                         ("set", 1, lw_key(1), [["x", 1]]), ("set", 1, lw_key(1), None), ("disc", 1), ("dump",)]),
    ("protected-targets", [("conn", 1), ("conn", 2), ("dump",), ("set", 1, gg_key(1), ["$SYS/#", f"$SYS/clients/{uuid(2)}/#", gg_key(2), "a/#/b", "", "u/?"]),
                           ("set", 1, lw_key(1), [["$SYS/clients", 99], [lw_key(2), []], ["a/?", 1], ["", 1], ["u/ok", 1], [gg_key(1), ["zombie/#"]]]),
                           ("set", 2, gg_key(2), ["mine/#"]), ("set", 2, "u/x", 1), ("set", 2, "a/x/b", 1), ("disc", 1), ("dump",), ("disc", 2), ("dump",)]),
    ("malformed-registrations", [("conn", 1), ("dump",), ("set", 1, gg_key(1), "g/#"), ("set", 1, gg_key(1) + "/x", ["g/#"]), ("set", 1, lw_key(1), {"key": "w", "value": 1}),
                                 ("set", 2, "g/1", 1), ("disc", 1), ("dump",)]),
]

def random_case(g, n):
    r = g.r
    ops = []
    conn = set()
    for c in (1, 2, 3):
        if r.random() < 0.8:
            ops += [("conn", c), ("dump",)]; conn.add(c)
    tids = {}
    for _ in range(n):
        x = r.random(); c = r.choice([1, 2, 3])
        if x < 0.12:
            pats = [g.pattern() for _ in range(r.randint(0, 3))]
            if r.random() < 0.15: pats.append(r.choice(["$SYS/#", gg_key(r.choice([1, 2, 3])), "#"][:2]))
            ops.append(("set", c, gg_key(c), pats))
        elif x < 0.24:
            kvs = []
            for _ in range(r.randint(0, 3)):
                k = g.key()
                kvs.append(r.choice([{"key": k, "value": g.value()}, [k, g.value()]]))
            if r.random() < 0.1: kvs.append(["$SYS/clients", 5])
            ops.append(("set", c, lw_key(c), kvs))
        elif x < 0.40: ops.append(("set", c, g.key(), r.choice([1, 2, "s"])))
        elif x < 0.48: ops.append(("cset", c, g.key(), r.choice([1, 2]), r.choice([0, 0, 1])))
        elif x < 0.53: ops.append(("del", c, g.key()))
        elif x < 0.60:
            t = tids.get(c, 0) + 1; tids[c] = t
            if r.random() < 0.1 and t > 1: t -= 1                      # a transaction id that may still be subscribed (F24)
            ops.append(("psub", c, t, g.pattern(), r.random() < 0.3, True))
        elif x < 0.64:
            t = tids.get(c, 0) + 1; tids[c] = t
            if r.random() < 0.1 and t > 1: t -= 1                      # a transaction id that may still be ls-subscribed (F27)
            ops.append(("subls", c, t, r.choice([None, g.key()])))
        elif x < 0.68: ops.append(("spubinit", c, 7, g.key()))
        elif x < 0.74: ops.append((r.choice(["lock", "acq"]), c, r.choice(["k", "k/j"])))
        elif x < 0.78: ops.append(("rel", c, r.choice(["k", "k/j"])))
        elif x < 0.88:
            ops += [("disc", c), ("dump",)] + cleanup_probes(c); conn.discard(c); tids[c] = 50
        elif x < 0.94:
            ops += [("conn", c), ("dump",)]; conn.add(c)
        else: ops.append(("pget", g.pattern()))
    for c in (1, 2, 3):
        ops += [("disc", c), ("dump",)]
    return ops

def run(v, tier, seed):
    work = os.path.join(WORK, ID); os.makedirs(work, exist_ok=True)
    cases = list(CORPUS)
    # every order of disconnecting three clients whose registrations overlap
    n_exh = 0
    setup = [("conn", 1), ("conn", 2), ("conn", 3), ("dump",),
             ("set", 1, gg_key(1), ["x/#"]), ("set", 2, gg_key(2), ["x/a", "y/#"]), ("set", 3, gg_key(3), ["?/a"]),
             ("set", 1, lw_key(1), [["y/1", 1], ["x/a", "lw1"]]), ("set", 2, lw_key(2), [["x/a", "lw2"]]), ("set", 3, lw_key(3), [["z", 3]]),
             ("set", 3, "x/a", 0), ("set", 3, "x/b", 0), ("cset", 3, "y/1", 0, 0), ("set", 3, "y/a", 0), ("psub", 3, 1, "#", False, True), ("psub", 2, 1, "x/?", True, True)]
    for order in itertools.permutations([1, 2, 3]):
        for mid in ([], [("set", 3, "x/a", 7)], [("set", order[1], gg_key(order[1]), [])]):
            ops = list(setup)
            for j, c in enumerate(order):
                ops += [("disc", c), ("dump",)] + cleanup_probes(c)
                if j == 0: ops += mid
            cases.append((f"x{n_exh}", ops)); n_exh += 1
    nrand = 600 if tier == "quick" else 15000
    for i in range(nrand):
        g = Gen(seed * 32452843 + i, segs=["a", "b", "x", "é"], depth=2, wild_in_keys=0.02, values=[1, 2, "s", None, {"k": 1}])
        cases.append((f"r{i}", random_case(g, g.r.randint(10, 60))))
    cpath = os.path.join(work, "cases.txt")
    write_cases(cpath, [(n, [render(o) for o in ops]) for n, ops in cases])
    impl, model = run_engine("core", "core_driver", cpath, work)
    ncases, nsteps, diffs, A, B = compare_obs(impl, model, project=canon_line)
    nontrivial, samples, ndisc = set(), [], 0
    for name, ops in cases:
        lines = A.get(name, [])
        bad = session_oracle(ops, lines, known=v.known) or probe_oracle(ops, lines) or survivor_oracle(ops, lines, known=v.known) or ls_survivor_oracle(ops, lines, known=v.known)
        d = sum(1 for o, l in zip(ops, lines) if o[0] == "disc" and events_of(l))
        ndisc += sum(1 for o in ops if o[0] == "disc")
        if d: nontrivial.add(tuple(map(str, ops)))
        if bad:
            step, msg = bad
            def fails(cand):
                wc = os.path.join(work, "shrink.txt")
                write_cases(wc, [("s", [render(o) for o in cand])])
                i2, _ = run_engine("core", "core_driver", wc, work, tag="-shrink")
                l2 = read_obs(i2)["s"]
                return (session_oracle(cand, l2) or probe_oracle(cand, l2) or survivor_oracle(cand, l2) or ls_survivor_oracle(cand, l2)) is not None
            small = shrink(ops[:step + 2], fails)
            v.violation({"what": msg, "case": name, "ops": [render(o) for o in small], "ops_readable": [str(o) for o in small]})
            if len(v.violations) >= 3: break
        if len(samples) < 1 and name.startswith("x"):
            samples.append({"case": name, "ops": [str(o) for o in ops], "observed": [decode_tok(l) for l in lines]})
    if diffs and not v.violations:
        name, step, x, y = diffs[0]
        ops = dict(cases)[name]
        v.violation({"what": "model and implementation disagree; the session-end specification accepts every observed trace", "case": name,
                     "ops": [render(o) for o in ops[:step + 1]], "step": step, "impl": decode_tok(x), "model": decode_tok(y), "disagreeing_cases": len(diffs),
                     "broken_obligation": "correspondence core/C07 (Model/Core.v do_connected, do_disconnected)"}, no_input=True)
    v.cov.update({"evaluations": ncases, "distinct_nontrivial": len(nontrivial), "steps": nsteps, "disagreements": len(diffs), "disconnects": ndisc,
                  "rule": f"corpus (overlapping / re-registered / protected / malformed registrations) + every order of disconnecting three clients with overlapping grave goods and last wills x 3 mid-way changes ({n_exh}) + {nrand} random histories (connect, register, subscribe, ls-subscribe, spub, lock, disconnect in any order, probes after each disconnect); projection: every request result, all subscription queues, lock confirmations, full store dump including $SYS after each connect/disconnect; non-trivial = a disconnect that produced events for other clients",
                  "samples": samples})
