"""C04 -- one wildcard relation decides queries, deletes and notifications."""
import itertools, os, random
from casefmt import Ops as O, write_cases, xs, js, decode_tok
from common import *

ID = "C04"

def seqs(alpha, maxlen):
    for n in range(1, maxlen + 1):
        for t in itertools.product(alpha, repeat=n):
            yield list(t)

def wf(p):
    return all(s != "#" for s in p[:-1])

def doc_match(p, k):
    if not p:
        return not k
    if p == ["#"]:
        return len(k) >= 1
    if not k:
        return False
    if p[0] == "#":
        return False
    if p[0] == "?" or p[0] == k[0]:
        return doc_match(p[1:], k[1:])
    return False

def zero_multi(p, k):
    return len(p) >= 1 and p[-1] == "#" and wf(p) and doc_match(p[:-1], k)

def case_ops(pat, key):
    p, k = "/".join(pat), "/".join(key)
    return [O.set(1, k, 1), O.psub(2, 1, p, False, True), O.psub(2, 2, p, False, False), O.pget(p),
            O.set(1, k, 2), O.pdelete(1, p), O.get(k)]

def observe(lines, key):
    """what the implementation did for this (pattern, key): dict or None if the key could not be stored"""
    if len(lines) < 7 or not lines[0].startswith("ok"):
        return None
    kx = xs("/".join(key))
    res = lambda l: l.split(" | ")[0]
    ev = lambda l: l.split(" | ")[1]
    r = {}
    r["psub_live_rejected"] = res(lines[1]) == "err 1"
    r["psub_rejected"] = res(lines[2]) == "err 1"
    r["pget_rejected"] = res(lines[3]) == "err 1"
    r["pdel_rejected"] = res(lines[5]) == "err 1"
    r["in_pget"] = res(lines[3]).startswith("kvs") and (kx + "=") in res(lines[3])
    r["in_snapshot"] = (":PV:[" in ev(lines[2])) and (kx + "=") in ev(lines[2])
    r["notified"] = f"0:PV:[{kx}={js(2)}]" in ev(lines[4])
    r["in_pdel"] = res(lines[5]).startswith("kvs") and (kx + "=") in res(lines[5])
    r["gone"] = res(lines[6]) == "err 5"
    r["del_event"] = f"0:PD:[{kx}={js(2)}]" in ev(lines[5])
    return r

UNIVERSE = [k for k in seqs(["a", "b"], 3)]          # a, b, a/a, ..., b/b/b: values at inner nodes AND below them

def population_ops(pat):
    p = "/".join(pat)
    return [O.set(1, "/".join(k), 1) for k in UNIVERSE] + [O.psub(2, 1, "#", False, True), O.pget(p), O.pdelete(1, p), O.pget("#")]

def population_oracle(pat, lines):
    """in a store that holds a value at every node of a small tree: pdelete removes exactly the keys pget returned, reports exactly
    those, the `#` subscriber sees exactly those deletions, and everything else is still there"""
    n = len(UNIVERSE)
    if len(lines) < n + 4: return "implementation stopped answering"
    res = lambda l: l.split(" | ")[0]
    ev = lambda l: l.split(" | ")[1]
    def keyset(r):
        if not r.startswith("kvs"): return None
        return {tuple(decode_tok(tok.split("=")[0]).strip("'").split("/")) for tok in r[4:].strip("[]").split(";") if "=" in tok}
    got, deleted, remaining = keyset(res(lines[n + 1])), keyset(res(lines[n + 2])), keyset(res(lines[n + 3]))
    if not wf(pat):
        return None          # ill-formed patterns: F3, judged by the single-key cases
    want = {tuple(k) for k in UNIVERSE if doc_match(pat, k) or zero_multi(pat, k)}
    if got is None or deleted is None or remaining is None:
        return f"a request was refused: pget `{res(lines[n + 1])}`, pdelete `{res(lines[n + 2])}`, pget # `{res(lines[n + 3])}`"
    if got != want: return f"pget returned {sorted(got)}, the documented relation gives {sorted(want)}"
    if deleted != got: return f"pdelete reported {sorted(deleted)}, pget had returned {sorted(got)}"
    rest = {tuple(k) for k in UNIVERSE} - want
    if remaining != rest: return f"after the pdelete the store holds {sorted(remaining)}, expected {sorted(rest)}: keys were removed that the pattern does not match, or matched keys were kept"
    evs = {tuple(decode_tok(tok.split(":PD:[")[1].split("=")[0]).strip("'").split("/")) for tok in ev(lines[n + 2]).split(" ") if ":PD:[" in tok}
    if evs != want: return f"deletion events for {sorted(evs)}, removed {sorted(want)}"
    return None

CROWD = [p for p in seqs(["a", "b", "?", "#"], 3) if wf(p)]

def crowd_ops():
    """all patterns subscribed AT ONCE (one subscriber tree holding literal, `?` and `#` branches side by side), then every key of
    the universe set once"""
    return [O.psub(2, i + 1, "/".join(p), False, True) for i, p in enumerate(CROWD)] + [O.set(1, "/".join(k), 7) for k in UNIVERSE]

def crowd_oracle(lines):
    """what a subscription is told does not depend on who else is subscribed: subscriber i gets an event for exactly the keys the
    documented relation selects for its pattern"""
    n = len(CROWD)
    if len(lines) < n + len(UNIVERSE): return "implementation stopped answering"
    got = {i: set() for i in range(n)}
    for k, line in zip(UNIVERSE, lines[n:]):
        for tok in line.split(" | ")[1].split(" "):
            if ":PV:[" in tok:
                got[int(tok.split(":")[0])].add(tuple(k))
    for i, p in enumerate(CROWD):
        want = {tuple(k) for k in UNIVERSE if doc_match(p, k)}
        if got[i] != want:
            return f"with {n} patterns subscribed at once, the subscriber of `{'/'.join(p)}` was told of {sorted('/'.join(k) for k in got[i])}; the documented relation selects {sorted('/'.join(k) for k in want)}"
    return None

def run(v, tier, seed):
    depth = 3 if tier == "quick" else 4
    kdepth = depth
    keys = list(seqs(["a", "b", ""], kdepth))
    pats = list(seqs(["a", "b", "", "?", "#"], depth))
    if tier != "quick":
        # depth 5 patterns against depth-5 keys: sampled (the enumeration to depth 4 is complete)
        rnd = random.Random(seed)
        extra = [([rnd.choice(["a", "b", "", "?", "#"]) for _ in range(5)], [rnd.choice(["a", "b", ""]) for _ in range(rnd.randint(3, 5))]) for _ in range(20000)]
    else:
        extra = []
    work = os.path.join(WORK, ID)
    os.makedirs(work, exist_ok=True)
    pairs = [(p, k) for p in pats for k in keys] + extra
    pop_pats = list(seqs(["a", "b", "?", "#"], 3 if tier == "quick" else 4))
    cases = [(f"{i}", case_ops(p, k)) for i, (p, k) in enumerate(pairs)] + [(f"pop{i}", population_ops(p)) for i, p in enumerate(pop_pats)] + [("crowd", crowd_ops())]
    cpath = os.path.join(work, "cases.txt")
    write_cases(cpath, cases)
    impl, model = run_engine("core", "core_driver", cpath, work)
    from coreops import canon_line     # events of one pattern delete leave in the hash order of the children
    ncases, nsteps, diffs, A, B = compare_obs(impl, model, project=canon_line)
    diff_cases = {d[0]: d for d in diffs}
    stats = {"wf": 0, "non_wf": 0, "match": 0, "nomatch": 0, "F2": 0, "F3": 0, "unstorable_key": 0}
    samples = []
    nontrivial = set()
    for i, (p, k) in enumerate(pairs):
        name = str(i)
        lines = A.get(name, [])
        ob = observe(lines, k)
        if ob is None:
            stats["unstorable_key"] += 1
            if name in diff_cases:
                d = diff_cases[name]
                v.violation({"what": "model and implementation disagree (key not storable)", "pattern": "/".join(p), "key": "/".join(k),
                             "ops": case_ops(p, k), "step": d[1], "impl": d[2], "model": d[3],
                             "broken_obligation": "correspondence core/C04"}, no_input=True)
            continue
        d = doc_match(p, k)
        replay = {"pattern": "/".join(p), "key": "/".join(k), "ops": case_ops(p, k), "observed": ob,
                  "observed_lines": [decode_tok(l) for l in lines], "documented_match": d}
        if wf(p):
            stats["wf"] += 1
            stats["match" if d else "nomatch"] += 1
            if d: nontrivial.add(("m", tuple(p), tuple(k)))
            agree = ob["in_pget"] == ob["in_pdel"] == ob["notified"] == ob["in_snapshot"] == ob["del_event"] == ob["gone"]
            rejected = ob["pget_rejected"] or ob["pdel_rejected"] or ob["psub_rejected"] or ob["psub_live_rejected"]
            if agree and not rejected and ob["in_pget"] == d:
                pass
            elif (zero_multi(p, k) and ob["in_pget"] and ob["in_pdel"] and ob["in_snapshot"] and ob["gone"]
                  and not ob["notified"] and not ob["del_event"] and not rejected):
                stats["F2"] += 1
                nontrivial.add(("F2", tuple(p), tuple(k)))
                v.known("F2", "pget/pdelete of `K/#` also match the key K itself, event routing does not (store.rs:588-591 vs subscribers.rs:204-206)")
            else:
                v.violation(dict(replay, what="pget / pdelete / notification disagree with each other or with the documented relation"))
        else:
            stats["non_wf"] += 1
            all_rejected = ob["pget_rejected"] and ob["pdel_rejected"] and ob["psub_rejected"] and ob["psub_live_rejected"]
            if all_rejected:
                pass
            elif name not in diff_cases:
                stats["F3"] += 1
                nontrivial.add(("F3", tuple(p), tuple(k)))
                v.known("F3", "a `#` that is not the last segment is rejected only when the traversal reaches it; psubscribe never validates (store.rs:471-479,578-586, worterbuch.rs:541-556)")
            else:
                v.violation(dict(replay, what="ill-formed pattern handled differently from the known finding F3"))
        if name in diff_cases and not any(r for r, _ in v.violations[-1:]):
            pass
        if len(samples) < 3 and d and wf(p) and len(p) > 1:
            samples.append({"pattern": "/".join(p), "key": "/".join(k), "observed": ob})
    npop = 0
    for i, p in enumerate(pop_pats):
        bad = population_oracle(p, A.get(f"pop{i}", []))
        npop += 1
        if bad:
            v.violation({"what": bad, "pattern": "/".join(p), "ops": population_ops(p), "ops_readable": [decode_tok(o) for o in population_ops(p)],
                         "observed_lines": [decode_tok(l) for l in A.get(f"pop{i}", [])[len(UNIVERSE):]]})
            if len(v.violations) >= 5: break
    stats["population_cases"] = npop
    bad = crowd_oracle(A.get("crowd", [])) if not v.violations else None
    if bad:
        v.violation({"what": bad, "case": "crowd", "ops": crowd_ops(), "ops_readable": [decode_tok(o) for o in crowd_ops()]})
    stats["crowd_subscriptions"] = len(CROWD)
    # correspondence: any disagreement not already explained by a property failure
    if diffs and not v.violations:
        name, step, x, y = diffs[0]
        p, k = pairs[int(name)] if name.isdigit() else ((pop_pats[int(name[3:])], []) if name.startswith("pop") else ([], []))
        v.violation({"what": "model and implementation disagree; the documented relation still holds on every pair explored",
                     "pattern": "/".join(p), "key": "/".join(k), "ops": case_ops(p, k) if k else population_ops(p), "step": step,
                     "impl": decode_tok(x), "model": decode_tok(y), "disagreeing_cases": len(diffs),
                     "broken_obligation": "correspondence core/C04 (Model/Store.v collect, delm; Model/Subs.v add_matches)"}, no_input=True)
    v.cov.update({"evaluations": ncases, "distinct_nontrivial": len(nontrivial),
                  "rule": f"every pattern over {{a,b,'',?,#}} and every key over {{a,b,''}} up to depth {depth} (exhaustive){' plus 20000 random depth-5 pairs' if extra else ''}; per pair: set, psubscribe (live-only and not), pget, set, pdelete, get on the real core and on the model; plus, for every pattern over {{a,b,?,#}} up to that depth, a store with a value at EVERY node of the {{a,b}} tree of depth 3 (pget, pdelete, remaining keys, deletion events as sets); plus one case with all well-formed patterns to depth 3 subscribed at once and every key set once (what a subscriber is told does not depend on who else is subscribed); non-trivial = the documented relation holds for the pair, or the pair is in a known class",
                  "samples": samples, "exhaustive": True, "steps": nsteps, "disagreements": len(diffs), "classes": stats})
