"""C10 -- a crash during persistence never loses a completed flush nor mixes snapshots."""
import itertools, os, random
from casefmt import write_cases, decode_tok, read_obs
from common import *
from coreops import res_of, canon_line
from persistops import R
from persistspec import persist_oracle
from gen import uuid

ID = "C10"
NPOINTS = 17    # 4 files x (before-tmp, tmp-torn, tmp-written, renamed) + flipped
gg = lambda c: f"$SYS/clients/{uuid(c)}/graveGoods"
lw = lambda c: f"$SYS/clients/{uuid(c)}/lastWill"

def phase(i):
    """requests that make flush i distinguishable in store AND registrations"""
    return [("set", 1, "k", i), ("set", 1, f"only/{i}", i), ("set", 1, gg(1), [f"g{i}/#"]), ("set", 1, lw(1), [["w", i]]),
            ("set", 2, f"g{i}/x", i), ("set", 2, f"g{i + 1}/y", i)]

def history(nflush, crash, after=None):
    ops = [("conn", 1), ("dump",)]
    for i in range(1, nflush):
        ops += phase(i) + [("flush", -1)]
    ops += phase(nflush) + [("flush", crash), ("restart",), ("dump",), ("fs",)]
    if after: ops += after
    return ops

def run(v, tier, seed):
    work = os.path.join(WORK, ID); os.makedirs(work, exist_ok=True)
    cases = []
    n = 0
    maxf = 3 if tier == "quick" else 4
    for nflush in range(1, maxf + 1):
        for crash in range(-1, NPOINTS + 1):
            cases.append((f"h{n}", history(nflush, crash))); n += 1
    # crash -> restart -> flush -> crash chains (the restart moves the selector itself when it falls back)
    chain_points = range(0, NPOINTS, 2) if tier == "quick" else range(0, NPOINTS)
    for nflush in (1, 2):
        for c1 in chain_points:
            for c2 in chain_points:
                after = [("conn", 1), ("dump",)] + phase(7) + [("flush", c2), ("restart",), ("dump",), ("fs",), ("conn", 1), ("dump",)] + phase(8) + [("flush", -1), ("restart",), ("dump",)]
                cases.append((f"h{n}", history(nflush, c1, after))); n += 1
    # the state RETURNS to what an earlier flush into the same slot wrote (same bytes): flush A into X, flush B into Y, flush C
    # into X dying at every crash point, restart, back to A, flush (into X again), restart -- must recover A
    for c in range(NPOINTS):
        for withreg in (False, True):
            def st(i): return [("set", 1, "k", i)] + ([("set", 1, gg(1), [f"g{i}/#"]), ("set", 1, lw(1), [["w", i]])] if withreg else [])
            ops = [("conn", 1), ("dump",)] + st(1) + [("flush", -1)] + st(2) + [("flush", -1)] + st(3) + [("flush", c), ("restart",), ("dump",), ("fs",), ("conn", 1), ("dump",)] + st(1) + [("flush", -1), ("restart",), ("dump",), ("fs",)]
            cases.append((f"h{n}", ops)); n += 1
    # kill outside a flush, empty directory, restart twice
    cases.append((f"h{n}", [("restart",), ("dump",), ("fs",), ("conn", 1), ("dump",)] + phase(1) + [("restart",), ("dump",), ("restart",), ("dump",), ("fs",)])); n += 1
    rnd = random.Random(seed)
    nrand = 60 if tier == "quick" else 1500
    for i in range(nrand):
        ops = []
        for j in range(rnd.randint(1, 5)):
            ops += [("conn", 1), ("dump",)] + phase(10 * j + rnd.randint(1, 9))
            if rnd.random() < 0.5: ops += [("set", 2, gg(2), [f"only/{rnd.randint(1, 50)}"])] if False else []
            ops += [("flush", rnd.choice([-1, -1] + list(range(NPOINTS))))]
            if ops[-1][1] >= 0 or rnd.random() < 0.3: ops += [("restart",), ("dump",), ("fs",)]
        cases.append((f"r{i}", ops))
    cpath = os.path.join(work, "cases.txt")
    write_cases(cpath, [(nm, [R(o) for o in ops]) for nm, ops in cases])
    impl, model = run_engine("persist", "persist_driver", cpath, work)
    ncases, nsteps, diffs, A, B = compare_obs(impl, model, project=canon_line)
    nontrivial, samples = set(), []
    crashes = 0
    for name, ops in cases:
        lines = A.get(name, [])
        bad = persist_oracle(ops, lines)
        c = sum(1 for l in lines if res_of(l).startswith("crashed"))
        crashes += c
        if c: nontrivial.add(tuple(o[1] for o in ops if o[0] == "flush") + (len(ops),))
        if bad:
            step, msg = bad
            v.violation({"what": msg, "case": name, "engine": "persist", "driver": "persist_driver", "ops": [R(o) for o in ops[:step + 1]],
                         "flushes": [o[1] for o in ops if o[0] == "flush"]})
            if len(v.violations) >= 3: break
        if len(samples) < 2 and c and name.startswith("h") and len(ops) < 40:
            samples.append({"case": name, "crash_points": [o[1] for o in ops if o[0] == "flush"], "after_restart": decode_tok(res_of(lines[-2])), "directory": decode_tok(res_of(lines[-1]))[:600]})
    if diffs and not v.violations:
        name, step, x, y = diffs[0]
        ops = dict(cases)[name]
        v.violation({"what": "model and implementation disagree; every restart recovered an allowed snapshot", "case": name, "engine": "persist", "driver": "persist_driver",
                     "ops": [R(o) for o in ops[:step + 1]], "step": step, "impl": decode_tok(x)[:1500], "model": decode_tok(y)[:1500], "disagreeing_cases": len(diffs),
                     "broken_obligation": "correspondence persist/C10 (Model/Persist.v flush, load)"}, no_input=True)
    v.cov.update({"evaluations": ncases, "distinct_nontrivial": len(nontrivial), "steps": nsteps, "disagreements": len(diffs), "simulated_crashes": crashes,
                  "rule": f"histories of 1..{maxf} flushes with distinct store and registrations, the last one dying at every crash point (4 files x before-tmp/torn-tmp/tmp-written/renamed, + after the selector flip: {NPOINTS} points, complete enumeration) or completing; chains crash -> restart -> flush -> crash -> restart -> flush -> restart over pairs of crash points; histories whose state returns to the content an earlier flush wrote into the same slot, around a crash at every point; kill outside a flush; {nrand} random multi-flush histories; after every restart the store dump (oracle: = recover(last completed) or recover(in progress)) and the directory listing (file contents, checksum validity, leftovers) are compared with the model; non-trivial = at least one simulated crash",
                  "samples": samples, "exhaustive": True, "crash_model": "process crash: completed file operations persist in order; a write in flight leaves the first half of the data (hook crash_point in v3.rs); power-loss reordering is outside the model"})
