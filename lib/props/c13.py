"""C13 -- every request gets exactly one answer carrying its own transaction id."""
import json, os, random
from casefmt import write_cases, read_obs
from common import *
from sessionops import *

ID = "C13"
TERMINAL = {"get": ("state",), "cGet": ("cState",), "pGet": ("pState",), "set": ("ack",), "cSet": ("ack",), "sPubInit": ("ack",), "sPub": ("ack",), "publish": ("ack",),
            "subscribe": ("ack",), "pSubscribe": ("ack",), "unsubscribe": ("ack",), "delete": ("state",), "pDelete": ("pState",), "ls": ("lsState",), "pLs": ("lsState",),
            "subscribeLs": ("ack",), "unsubscribeLs": ("ack",), "lock": ("ack",), "acquireLock": ("ack",), "releaseLock": ("ack",), "transform": ()}
KEYS = ["a", "a/b", "b", "a/b/c", "", "a//b", "é", "a/?", "#", "$SYS/clients", "x y"]
PATS = ["a/#", "a/?", "a/?/c", "a/#/b", "b", "b/#", "a/b/?"]   # no wildcard in the first segment: $SYS is populated by the running server

class G:
    def __init__(self, seed, nsess):
        self.r = random.Random(seed); self.n = nsess; self.tid = {s: 0 for s in range(nsess)}
    def t(self, s):
        self.tid[s] += 1; return self.tid[s]
    def req(self, s):
        r = self.r; t = self.t(s); k = r.choice(KEYS); p = r.choice(PATS); v = r.choice([1, "s", None, {"k": [1]}])
        kind = r.choice(list(TERMINAL))
        m = {"get": {"key": k}, "cGet": {"key": k}, "pGet": {"requestPattern": p}, "set": {"key": k, "value": v}, "cSet": {"key": k, "value": v, "version": r.choice([0, 0, 1, 2, 7])},
             "sPubInit": {"key": k}, "sPub": {"value": v}, "publish": {"key": k, "value": v},
             "subscribe": {"key": r.choice(["a", "a/b", "b", "a/?"]), "unique": r.random() < 0.5, **({"liveOnly": r.random() < 0.5} if r.random() < 0.7 else {})},
             "pSubscribe": {"requestPattern": r.choice(["a/#", "a/?", "b", "a/#/b", "b/#"]), "unique": r.random() < 0.5, **({"liveOnly": r.random() < 0.5} if r.random() < 0.7 else {})},
             "unsubscribe": {}, "delete": {"key": k}, "pDelete": {"requestPattern": p, "quiet": r.choice([None, True, False])},
             "ls": {"parent": r.choice([None, "a", "a/b", "zz"])}, "pLs": {"parentPattern": r.choice(["a", "a/?", "a/#", "b"])},
             "subscribeLs": {"parent": r.choice([None, "a", "q"])}, "unsubscribeLs": {},
             "lock": {"key": r.choice(["l", "l/m", "a/?"])}, "acquireLock": {"key": r.choice(["l", "l/m"])}, "releaseLock": {"key": r.choice(["l", "l/m", "nolock"])},
             "transform": {"key": k, "template": v}}[kind]
        if kind in ("unsubscribe", "unsubscribeLs", "sPub") and r.random() < 0.7 and t > 1:
            t2 = r.randint(1, t - 1)       # refer to an earlier transaction (the subscription / stream id)
            return {kind: {"transactionId": t2, **m}}, kind, t2
        return {kind: {"transactionId": t, **m}}, kind, t

def gen_case(seed, auth=False):
    r = random.Random(seed)
    ns = r.randint(1, 3)
    g = G(seed, ns)
    ops = [("open", s) for s in range(ns)]
    meta = [None] * ns
    if auth:
        for s in range(ns):
            x = r.random()
            if x < 0.6:
                ops.append(("auth", s, {"sub": "u", "name": "n", "exp": 4102444800, "worterbuchPrivileges": {
                    "read": r.choice([["#"], ["a/#"], ["a/?"], []]), "write": r.choice([["#"], ["a/#", "l/#"], []]), "delete": r.choice([["#"], ["a/b"], []])}}))
            elif x < 0.75: ops.append(("badauth", s))
            meta.append(None)
    for _ in range(r.randint(5, 30)):
        s = r.randrange(ns)
        x = r.random()
        if x < 0.85:
            m, kind, t = g.req(s)
            ops.append(("send", s, m)); meta.append((s, kind, t))
        elif x < 0.9:
            ops.append(("send", s, {"protocolSwitchRequest": {"version": r.choice([0, 1, 1, 2])}})); meta.append(None)
        elif x < 0.94:
            ops.append(("close", s)); meta.append(None)
        else:
            ops.append(("open", s) if False else ("send", s, {"get": {"transactionId": g.t(s), "key": "marker"}})); meta.append(None)
    return ops

def kind_of(msg):
    return msg if isinstance(msg, str) else next(iter(msg))

def tid_of(msg):
    if isinstance(msg, str):
        return int(msg.split(":")[1]) if msg.startswith("err:") else None
    return next(iter(msg.values())).get("transactionId")

def answer_oracle(ops, lines, auth):
    """per request on an established session: exactly one terminal answer with the request's id, of the assigned
    kind or Err; subscription events only after the Ack and with the subscribe's id; no failing request closes the session"""
    open_ = {}
    proto = {}
    authed = {}
    subs = {}      # (s, tid) -> kind of events expected
    pending_acq = {}
    for i, (op, line) in enumerate(zip(ops, lines)):
        got = [(s, decode_msg(t)) for s, t in parse_out(line)]
        k = op[0]
        s = op[1]
        closed_now = [x for x, m in got if m == "closed"]
        if k == "open":
            open_[s] = True; proto[s] = 1; authed[s] = False
            continue
        if k == "close":
            open_[s] = False
            continue
        if not open_.get(s):
            if got and any(x == s for x, _ in got): return (i, f"a closed session received {got}")
            continue
        if k in ("auth", "badauth"):
            if k == "badauth" or authed[s]:
                if s not in closed_now: return (i, "a bad / repeated authorization request did not end the session")
                open_[s] = False
            else:
                authed[s] = True
            continue
        if k == "raw":
            if s not in closed_now: return (i, "an undecodable line did not end the session")
            open_[s] = False; continue
        m = op[2]
        kind = next(iter(m))
        if kind == "protocolSwitchRequest":
            ver = m[kind]["version"]
            if ver > 1:
                if s not in closed_now: return (i, "protocol negotiation failure did not end the session")
                open_[s] = False
            else:
                proto[s] = ver
            continue
        t = m[kind]["transactionId"]
        mine = [x for sx, x in got if sx == s and x != "closed" and tid_of(x) == t]
        if s in closed_now:
            if auth and not authed[s]:
                open_[s] = False; continue       # no service before a token: the session ends
            return (i, f"request {json.dumps(m)} ended the session (answers before the close: {mine})")
        if auth and not authed[s] and kind not in ("sPub", "unsubscribe", "unsubscribeLs") and kind != "transform" and not (proto[s] == 0 and kind in ("cGet", "cSet", "lock", "acquireLock", "releaseLock")):
            return (i, f"request {json.dumps(m)} was served before a token was presented: {mine}")
        # events of existing subscriptions with the same id may also arrive; the terminal answer is the first non-event
        if kind == "acquireLock":
            if mine:
                if kind_of(mine[0]) not in ("ack", "err:%d:22" % t) and not str(mine[0]).startswith("err:"): return (i, f"acquireLock answered {mine}")
            else:
                pending_acq[(s, t)] = i
            continue
        if not mine:
            return (i, f"request {json.dumps(m)} got no answer with its transaction id (messages: {got})")
        first = mine[0]
        fk = kind_of(first)
        if fk.startswith("err:"):
            if len(mine) > 1 and not ((s, t) in subs): return (i, f"request {json.dumps(m)} got an error and then more messages: {mine}")
            continue
        want = TERMINAL[kind]
        if fk not in want:
            if (s, t) in subs and fk in ("state", "pState", "lsState"):
                continue        # reuse of a subscription's transaction id: events interleave; not judged
            return (i, f"request {json.dumps(m)} was answered with `{fk}`, the protocol assigns {want or 'Err(NotImplemented)'}")
        if kind in ("subscribe", "pSubscribe", "subscribeLs"):
            subs[(s, t)] = {"subscribe": "state", "pSubscribe": "pState", "subscribeLs": "lsState"}[kind]
            rest = [kind_of(x) for x in mine[1:]]
            if any(x != subs[(s, t)] for x in rest): return (i, f"after the Ack of {kind} came {rest}")
        elif len(mine) != 1 and (s, t) not in subs:
            return (i, f"request {json.dumps(m)} got {len(mine)} messages with its id: {mine}")
        # deferred acquire answers arriving now
        for sx, x in got:
            if x != "closed" and (sx, tid_of(x)) in pending_acq: del pending_acq[(sx, tid_of(x))]
    return None

def run(v, tier, seed):
    work = os.path.join(WORK, ID); os.makedirs(work, exist_ok=True)
    n = 160 if tier == "quick" else 3000
    cases = []
    for i in range(n):
        auth = (i % 5 == 4)
        cases.append((f"s{i}", auth, gen_case(seed * 7919 + i, auth)))
    # every message kind once, v1 and v0, valid and invalid arguments
    allk = []
    t = 0
    for kind, body in [("set", {"key": "a/b", "value": 1}), ("get", {"key": "a/b"}), ("get", {"key": "no"}), ("cSet", {"key": "c", "value": 1, "version": 0}), ("cSet", {"key": "c", "value": 1, "version": 5}),
                       ("cGet", {"key": "c"}), ("pGet", {"requestPattern": "a/#"}), ("pGet", {"requestPattern": "a/#/b"}), ("sPubInit", {"key": "s"}), ("publish", {"key": "p", "value": 1}),
                       ("subscribe", {"key": "a/b", "unique": False}), ("pSubscribe", {"requestPattern": "a/?", "unique": True}), ("subscribeLs", {"parent": "a"}), ("set", {"key": "a/b", "value": 2}),
                       ("set", {"key": "a/z", "value": 2}), ("delete", {"key": "a/z"}), ("delete", {"key": "a/z"}), ("pDelete", {"requestPattern": "a/?", "quiet": None}), ("ls", {"parent": None}), ("ls", {"parent": "nope"}),
                       ("pLs", {"parentPattern": "a/?"}), ("pLs", {"parentPattern": "a/#"}), ("lock", {"key": "l"}), ("acquireLock", {"key": "l"}), ("releaseLock", {"key": "l"}), ("releaseLock", {"key": "l"}),
                       ("set", {"key": "$SYS/x", "value": 1}), ("set", {"key": "", "value": 1}), ("set", {"key": "a/?", "value": 1}), ("transform", {"key": "a", "template": 1}), ("unsubscribe", {}), ("unsubscribeLs", {})]:
        t += 1
        allk.append(("send", 0, {kind: {"transactionId": (11 if kind == "unsubscribe" else 13 if kind == "unsubscribeLs" else t), **body}}))
    cases.append(("table-v1", False, [("open", 0)] + allk))
    cases.append(("table-v0", False, [("open", 0), ("send", 0, {"protocolSwitchRequest": {"version": 0}})] + allk))
    cpath = os.path.join(work, "cases.txt")
    write_cases(cpath, [(nm, [f"cfg auth={int(a)}"] + [R(o) for o in ops]) for nm, a, ops in cases])
    impl, model = run_engine("session", "session_driver", cpath, work)
    A, B = read_obs(impl), read_obs(model)
    A = {nm: align_closed(A[nm], B.get(nm, [])) for nm in A}
    A = {nm: [canon_session_line(l) if l != 'ok' else l for l in A[nm]] for nm in A}
    B = {nm: [canon_session_line(l) if l != 'ok' else l for l in B[nm]] for nm in B}
    diffs = [(nm, i) for nm, _, _ in cases for i, (x, y) in enumerate(zip(A[nm], B[nm])) if x != y]
    nontrivial, samples, nreq, nerr = set(), [], 0, 0
    for nm, auth, ops in cases:
        lines = A[nm][1:]
        bad = answer_oracle(ops, lines, auth)
        nreq += sum(1 for o in ops if o[0] == "send")
        e = sum(l.count("err:") for l in lines)
        nerr += e
        if e and any(o[0] == "send" for o in ops): nontrivial.add(nm)
        if bad:
            step, msg = bad
            v.violation({"what": msg, "case": nm, "engine": "session", "driver": "session_driver", "ops": [f"cfg auth={int(auth)}"] + [R(o) for o in ops[:step + 1]], "ops_readable": [str(o) for o in ops[:step + 1]]})
            if len(v.violations) >= 3: break
        if len(samples) < 2 and nm.startswith("table"):
            samples.append({"case": nm, "requests": [json.dumps(o[2]) for o in ops[1:8] if o[0] == "send"], "answers": [[(s, decode_msg(t)) for s, t in parse_out(l)] for l in lines[1:8]]})
    if diffs and not v.violations:
        nm, i = diffs[0]
        auth, ops = next((a, o) for n_, a, o in cases if n_ == nm)
        v.violation({"what": "model and implementation disagree; every request was answered as the protocol prescribes", "case": nm, "engine": "session", "driver": "session_driver",
                     "ops": [f"cfg auth={int(auth)}"] + [R(o) for o in ops[:i]], "impl": [(s, decode_msg(t)) for s, t in parse_out(A[nm][i])], "model": [(s, decode_msg(t)) for s, t in parse_out(B[nm][i])],
                     "disagreeing_cases": len(set(n_ for n_, _ in diffs)), "broken_obligation": "correspondence session/C13 (Model/Session.v handle, answer, route_events)"}, no_input=True)
    if not v.violations:
        import storm
        v.cov["concurrent"] = storm.run_storms(v, tier, seed + 1, work, "-c13", "For C13: pipelined requests are answered one each, in order, with their own ids; events only after the Ack.")
    v.cov.update({"evaluations": len(cases), "distinct_nontrivial": len(nontrivial), "disagreements": len(diffs), "requests_sent": nreq, "error_answers": nerr,
                  "rule": f"a real in-process server with a unix-socket endpoint per case; 1-3 concurrent sessions; {n} random request sequences over all 21 request kinds of protocol v0/v1 with valid and invalid arguments (wrong versions, missing keys, ill-formed patterns, unknown subscriptions, protected keys, wildcard keys), protocol switches incl. an unsupported version, client-side closes, a fifth of the cases with authorization required (valid / missing / bad tokens, grants of different widths) + one table case per protocol version sending every kind once; after every line the harness waits for the sockets to go quiet; all messages per session compared with the model; oracle: exactly one terminal answer with the request's id, of the kind the protocol assigns or Err, events only after the Ack, no failing request closes the session; non-trivial = a case with at least one Err answer",
                  "samples": samples,
                  "runtime_note": "in the random sequences requests are sent one at a time and the sockets are drained until quiet; pipelined requests and the interleaving of answers with subscription traffic are exercised by the concurrent cases (`concurrent`) and covered for every schedule by Proofs/ConcFacts.v"})
