"""C19 -- a node takes the leader role only with a quorum of distinct peers' votes."""
import itertools, json, os, random
from casefmt import write_cases, read_obs, xs, decode_tok
from common import *

ID = "C19"
ME = "m"
I64MAX = 2**63 - 1

def dg(obj):
    """datagram bytes (hex token) of a JSON value or raw bytes"""
    b = obj if isinstance(obj, bytes) else json.dumps(obj, separators=(",", ":")).encode()
    return "x" + b.hex()

def vreq(i, p): return {"vote": {"request": {"nodeId": i, "priority": p}}}
def vresp(i): return {"vote": {"response": {"nodeId": i}}}
def hreq(i): return {"heartbeat": {"request": {"nodeId": i}}}
def hresp(i): return {"heartbeat": {"response": {"nodeId": i}}}

def R(o):
    if o[0] == "cfg":
        _, me, mn, q, prio, peers = o
        return f"cfg {xs(me)} {mn} {'-' if q is None else q} {'-' if prio is None else prio} {','.join(xs(p) for p in peers) or '-'}"
    if o[0] == "recv": return f"recv {dg(o[1])}"
    if o[0] == "timeout": return "timeout"
    if o[0] == "peers": return f"peers {','.join(xs(p) for p in o[1]) or '-'}"
    raise ValueError(o)

ODD = [b"", b"{", b"not json", b"\xff\xfe", b"null", b"[]", b"{}", b'{"vote":{}}', b'{"vote":{"response":{}}}', b'{"vote":{"response":{"nodeId":5}}}',
       b'{"vote":{"response":{"nodeId":"a"}},"x":1}', b'{"vote":{"response":{"nodeId":"a","nodeId":"b"}}}', b'{"vote":{"response":["a"]}}',
       b'{"vote":{"request":["a",3]}}', b'{"vote":{"request":{"nodeId":"a","priority":3.0}}}', b'{"vote":{"request":{"nodeId":"a","priority":-0}}}',
       b'{"vote":{"request":{"nodeId":"a","priority":"3"}}}', b'{"vote":{"request":{"nodeId":"a","priority":9223372036854775808}}}',
       b'{"vote":{"request":{"nodeId":"a","priority":-9223372036854775808}}}', b'{"vote":{"request":{"nodeId":"a"}}}',
       b'{"vote":{"response":{"nodeId":"a","extra":[1,2]}}}', b'{"Vote":{"response":{"nodeId":"a"}}}', b'{"vote":{"Response":{"nodeId":"a"}}}',
       b' {"vote" : {"response" : {"nodeId" : "a"}}} ', b'{"heartbeat":{"request":{"nodeId":"a"}}}{}', b'{"vote":{"response":{"nodeId":"a"},"request":{"nodeId":"a","priority":1}}}',
       b'"vote"', b'{"heartbeat":"request"}', b'{"vote":{"response":{"nodeId":"\\u0061"}}}', b'{"vote":{"response":{"nodeId":null}}}']

def gen_case(seed):
    r = random.Random(seed)
    n = r.randint(1, 7)
    ids = ["a", "b", "c", "d", "e", "f"][:n - 1]
    if ids and r.random() < 0.1: ids.append(r.choice(ids))                       # a node id listed twice
    q = r.choice([None, None, None] + list(range(0, len(ids) + 3)))
    prio = r.choice([None, -5, 0, 5, 5])
    ops = [("cfg", ME, 1000, q, prio, ids)]
    everyone = ids + ["x", "y", ME, "", "é"]
    for _ in range(r.randint(3, 40)):
        x = r.random()
        if x < 0.30: ops.append(("recv", vresp(r.choice(everyone if r.random() < 0.4 else (ids or everyone)))))
        elif x < 0.42: ops.append(("recv", vreq(r.choice(everyone), r.choice([-9, -5, 0, 4, 5, 6, 100, I64MAX, -2**63]))))
        elif x < 0.52: ops.append(("recv", hreq(r.choice(everyone))))
        elif x < 0.56: ops.append(("recv", hresp(r.choice(everyone))))
        elif x < 0.66: ops.append(("recv", r.choice(ODD) if r.random() < 0.7 else b""))
        elif x < 0.92: ops.append(("timeout",))
        else:
            m = r.randint(0, 6)
            ops.append(("peers", r.sample(["a", "b", "c", "d", "e", "f", "g"], m)))
    return ops

def lenient_decode(b):
    """what a datagram could at most mean (never stricter than serde)"""
    try:
        v = json.loads(b)
        (tag, inner), = v.items()
        (kind, body), = inner.items()
        nid = body["nodeId"] if isinstance(body, dict) else body[0]
        return (tag, kind, nid)
    except Exception:
        return None

def safety_oracle(ops, lines):
    """on the implementation's own trace: `leader` needs, since the vote requests of the running round were sent, vote
    responses from enough distinct peers of a configuration that was delivered, to reach that configuration's quorum
    together with the node's own vote; `follower:<id>:server` needs a heartbeat request of <id>, a configured peer"""
    cfg = ops[0]
    qcfg = cfg[3]
    configs = [list(cfg[5])]
    if lines[0] == "refused":
        n = len(cfg[5]) + 1
        quorum = qcfg if qcfg is not None else n // 2 + 1
        return None if quorum > n else (0, f"a configuration with quorum {quorum} of {n} nodes was refused")
    round_start = None
    for i, (op, line) in enumerate(zip(ops[1:], lines[1:]), start=1):
        sent, oc = line.split(" | ") if " | " in line else ("", line.strip("| "))
        oc = oc.strip()
        if op[0] == "peers": configs.append(list(op[1]))
        if ":VR:" in sent: round_start = i
        if oc == "leader":
            voters = set()
            for j in range((round_start or i) + 1, i + 1):
                if ops[j][0] == "recv":
                    d = lenient_decode(ops[j][1] if isinstance(ops[j][1], bytes) else json.dumps(ops[j][1]).encode())
                    if d and d[0] == "vote" and d[1] == "response" and isinstance(d[2], str): voters.add(d[2])
            ok = False
            for c in configs:
                n = len(c) + 1
                quorum = qcfg if qcfg is not None else n // 2 + 1
                if quorum > n: continue
                have = 1 + len(voters & set(c)) if round_start is not None else 1
                if have >= quorum: ok = True
            if not ok:
                return (i, f"the node took the leader role with votes of {sorted(voters)} since its last vote request (step {round_start}); configurations delivered {configs}, configured quorum {qcfg}")
        elif oc.startswith("follower:") and oc.endswith(":server"):
            nid = bytes.fromhex(oc.split(":")[1][1:]).decode()
            d = lenient_decode(op[1] if isinstance(op[1], bytes) else json.dumps(op[1]).encode()) if op[0] == "recv" else None
            if not (d and d[0] == "heartbeat" and d[1] == "request" and d[2] == nid):
                return (i, f"follower server towards {nid!r} without a heartbeat request of that node in this step ({op})")
            if not any(nid in c for c in configs):
                return (i, f"follower server towards {nid!r}, which is in none of the delivered configurations {configs}")
    return None

def exhaustive(depth):
    """every event sequence up to `depth` over a small alphabet on a three-node cluster (default quorum 2) and on a
    five-node cluster (default quorum 3), own priority 5"""
    out = []
    for ids, alpha in ((["a", "b"], [("timeout",), ("recv", vresp("a")), ("recv", vresp("x")), ("recv", vreq("b", 5)), ("recv", vreq("b", 6)), ("recv", hreq("b")), ("recv", hreq("x")), ("recv", b"{")]),
                       (["a", "b", "c", "d"], [("timeout",), ("recv", vresp("a")), ("recv", vresp("b")), ("recv", vresp(ME)), ("recv", vreq("x", 1)), ("recv", hreq("x")), ("peers", ["a"]), ("recv", b"")])):
        for n in range(1, depth + 1):
            for t in itertools.product(alpha, repeat=n):
                out.append([("cfg", ME, 1000, None, 5, ids)] + list(t))
    return out

def run(v, tier, seed):
    work = os.path.join(WORK, ID); os.makedirs(work, exist_ok=True)
    cases = []
    corpus = [
        [("cfg", ME, 1000, None, 5, ["a", "b", "c", "d"]), ("timeout",), ("recv", vresp("a")), ("recv", vresp("a")), ("recv", vresp("x")), ("recv", vresp(ME)), ("recv", vresp("b"))],
        [("cfg", ME, 1000, None, 5, ["a", "b", "c", "d"]), ("recv", vresp("a")), ("recv", vresp("b")), ("timeout",), ("recv", vresp("a")), ("timeout",), ("timeout",), ("recv", vresp("b")), ("recv", vresp("c"))],
        [("cfg", ME, 1000, None, 5, ["a", "b"]), ("recv", hreq("x")), ("recv", vreq("x", 1)), ("recv", hreq("x"))],
        [("cfg", ME, 1000, None, 5, ["a", "b"]), ("recv", vreq("a", 5)), ("recv", hreq("b"))],
        [("cfg", ME, 1000, None, 5, ["a", "b"]), ("timeout",), ("recv", vreq("a", 1)), ("peers", ["a"]), ("peers", []), ("timeout",), ("timeout",), ("recv", vresp("a"))],
        [("cfg", ME, 1000, 4, 5, ["a", "b"])], [("cfg", ME, 1000, 0, 5, ["a", "b"]), ("timeout",)], [("cfg", ME, 1000, None, None, []), ("timeout",)],
        [("cfg", ME, 1000, 3, 5, ["a", "b", "c"]), ("timeout",), ("peers", ["a"]), ("timeout",)],
        [("cfg", ME, 1000, None, 5, ["a", "a", "b", "c"]), ("timeout",), ("recv", vresp("a")), ("recv", vresp("a")), ("recv", vresp("b"))],
    ]
    cases += [(f"k{i}", c) for i, c in enumerate(corpus)]
    ex = exhaustive(3 if tier == "quick" else 4)
    cases += [(f"x{i}", c) for i, c in enumerate(ex)]
    nrand = 600 if tier == "quick" else 20000
    cases += [(f"r{i}", gen_case(seed * 86243 + i)) for i in range(nrand)]
    cpath = os.path.join(work, "cases.txt")
    write_cases(cpath, [(nm, [R(o) for o in ops]) for nm, ops in cases])
    impl, model = run_engine("election", "election_driver", cpath, work)
    ncases, nsteps, diffs, A, B = compare_obs(impl, model)
    outcomes = {"leader": 0, "follower-server": 0, "follower-noserver": 0, "failed": 0, "refused": 0, "undecided": 0}
    nontrivial, samples = set(), []
    for nm, ops in cases:
        lines = A.get(nm, [])
        if not lines or lines[0] == "HARNESS-FAILURE":
            v.violation({"what": "the election engine did not complete this case", "case": nm, "engine": "election", "driver": "election_driver", "ops": [R(o) for o in ops],
                         "broken_obligation": "correspondence election/C19"}, no_input=True)
            break
        last = next((l for l in reversed(lines) if l.strip() not in ("| done", "")), "")
        oc = last.split(" | ")[-1].strip() if " | " in last else last.strip()
        key = "leader" if oc == "leader" else "follower-server" if oc.endswith(":server") else "follower-noserver" if oc.endswith(":noserver") else oc if oc in ("failed", "refused") else "undecided"
        outcomes[key] += 1
        if key in ("leader", "follower-server"): nontrivial.add(tuple(R(o) for o in ops))
        bad = safety_oracle(ops, lines)
        if bad:
            step, msg = bad
            v.violation({"what": msg, "case": nm, "engine": "election", "driver": "election_driver", "ops": [R(o) for o in ops[:step + 1]], "ops_readable": [str(o) for o in ops[:step + 1]], "observed": lines[:step + 1]})
            if len(v.violations) >= 3: break
        if len(samples) < 2 and key == "leader" and len(ops) > 4:
            samples.append({"case": nm, "ops": [str(o) for o in ops], "observed": lines})
    if diffs and not v.violations:
        nm, step, x, y = diffs[0]
        ops = dict(cases)[nm]
        v.violation({"what": "election model and implementation disagree; no unsafe leader or follower start on any observed trace", "case": nm, "engine": "election", "driver": "election_driver",
                     "ops": [R(o) for o in ops[:step + 1]], "ops_readable": [str(o) for o in ops[:step + 1]], "step": step, "impl": x, "model": y, "disagreeing_cases": len(diffs),
                     "broken_obligation": "correspondence election/C19 (Model/Election.v estep, Model/ElectionCodec.v dec_pmsg)"}, no_input=True)
    v.cov.update({"evaluations": ncases, "distinct_nontrivial": len(nontrivial), "steps": nsteps, "disagreements": len(diffs), "outcomes": outcomes,
                  "rule": f"the real elect_leader on tokio's paused clock with real UDP sockets on loopback for the node and every configured peer (random election-timeout jitter pinned to 0 by the verif hook); corpus + every event sequence of length <= {3 if tier == 'quick' else 4} over 8-letter alphabets on a 3-node and a 5-node cluster ({len(ex)}) + {nrand} random scripts: cluster sizes 1..7, configured quorums 0..n+1 and default, a node id listed twice, votes from configured / duplicate / unknown / own ids, competing candidates of higher / equal / lower priority (incl. i64 bounds), heartbeats of members and non-members, empty and malformed datagrams ({len(ODD)} shapes: sequence-form structs, duplicate / unknown fields, float / string / out-of-range priorities, wrong case, trailing bytes), timer expiries, configuration changes; compared per step: datagrams the node sent (to which peer socket, kind, node id, priority) and the outcome (leader / follower:<id>:<server|noserver> / failed); independent safety oracle on the implementation's trace; non-trivial = ended as leader or started a follower server",
                  "samples": samples,
                  "not_covered": "lead()/follow() beyond follow's sync_addr test (child process management, argv), leader-side heartbeat bookkeeping, real time and UDP loss/reordering; the election timeout's random part is pinned"})
