"""C06 -- a key lock has one holder, is handed over first-come and dies with its session."""
import itertools, os, random
from casefmt import write_cases, decode_tok, read_obs
from common import *
from coreops import *

ID = "C06"

def side(line, idx):
    parts = line.split(" | ")
    if len(parts) < 5: return []
    return sorted(int(x) for x in parts[idx][2:].split(" ") if x)

def lock_oracle(ops, lines):
    """LockSpec (python transcription of coq/Spec/LockSpec.v): per key free | held c (queue)"""
    locks = {}     # key -> [holder, [(client, [reqs])...]]
    nreq = 0
    status = {}    # req -> pending|granted|cancelled
    def release(key, c, granted, cancelled):
        """c gives up key (holder: pass on; waiter: leave the queue)"""
        l = locks.get(key)
        if l is None: return "notlocked"
        if l[0] == c:
            if l[1]:
                nc, reqs = l[1].pop(0)
                l[0] = nc
                granted += reqs
            else:
                del locks[key]
            return "ok"
        mine = [reqs for (cc, reqs) in l[1] if cc == c]
        for reqs in mine: cancelled += reqs
        l[1] = [(cc, reqs) for (cc, reqs) in l[1] if cc != c]
        return "locked"
    touched = {}   # client -> [keys in the order first requested] (for disconnect order)
    for i, op in enumerate(ops):
        if i >= len(lines): return (i, "implementation stopped answering")
        r = res_of(lines[i])
        if r == "crash": return (i, "implementation crashed")
        granted, cancelled = [], []
        kind = op[0]
        if kind in ("lock", "acq", "rel"):
            wild = [x for x in op[2].split("/") if x in ("?", "#")]
            if wild:
                want = "err 0" if wild[0] == "?" else "err 1"
                if r != want: return (i, f"{op} answered `{r}`, a key with a wildcard segment must be answered `{want}`")
                continue
        if kind == "lock":
            _, c, k = op
            l = locks.get(k)
            want = "ok" if (l is None or l[0] == c) else "err 20"
            if l is None: locks[k] = [c, []]
            touched.setdefault(c, []).append(k)
        elif kind == "acq":
            _, c, k = op
            l = locks.get(k)
            req = nreq; nreq += 1
            want = f"req {req}"
            status[req] = "pending"
            if l is None:
                locks[k] = [c, []]; granted.append(req)
            elif l[0] == c:
                granted.append(req)
            else:
                for ent in l[1]:
                    if ent[0] == c:
                        ent[1].append(req); break
                else:
                    l[1].append((c, [req]))
            touched.setdefault(c, []).append(k)
        elif kind == "rel":
            _, c, k = op
            x = release(k, c, granted, cancelled)
            want = {"ok": "ok", "locked": "err 20", "notlocked": "err 21"}[x]
        elif kind == "disc":
            c = op[1]
            for k in touched.pop(c, []):
                release(k, c, granted, cancelled)
            want = "ok"
        else:
            continue
        for q in granted:
            if status.get(q) != "pending": return (i, f"request {q} confirmed although it was {status.get(q)}")
            status[q] = "granted"
        for q in cancelled:
            if status.get(q) != "pending": return (i, f"request {q} cancelled although it was {status.get(q)}")
            status[q] = "cancelled"
        if r != want:
            return (i, f"{op} answered `{r}`, the lock specification says `{want}` (locks: {locks})")
        g, c_ = side(lines[i], 3), side(lines[i], 4)
        if g != sorted(granted):
            return (i, f"{op}: acquire requests confirmed {g}, specification says {sorted(granted)} (locks: {locks})")
        if c_ != sorted(cancelled):
            return (i, f"{op}: acquire requests cancelled {c_}, specification says {sorted(cancelled)} (locks: {locks})")
    return None

CORPUS = [
    ("fifo", [("lock", 1, "k"), ("acq", 2, "k"), ("acq", 3, "k"), ("acq", 2, "k"), ("lock", 2, "k"), ("rel", 3, "k"), ("rel", 1, "k"), ("rel", 1, "k"), ("rel", 2, "k"), ("rel", 2, "k")]),
    ("F7-release-of-free-key", [("rel", 1, "a/b"), ("lock", 1, "y"), ("rel", 1, "y"), ("lock", 2, "a/b/c"), ("rel", 2, "a/b/c"), ("rel", 2, "a/b/c"), ("lock", 1, "a"), ("rel", 1, "a")]),
    ("F7-stale-path-at-disconnect", [("lock", 1, "p/q"), ("rel", 1, "p/q"), ("disc", 1), ("lock", 2, "y"), ("rel", 2, "y")]),
    ("nested", [("lock", 1, "a"), ("lock", 1, "a/b"), ("acq", 2, "a"), ("acq", 2, "a/b"), ("disc", 1), ("rel", 2, "a"), ("rel", 2, "a/b"), ("disc", 2)]),
    ("bad-keys", [("lock", 1, "a/?"), ("acq", 1, "#"), ("rel", 1, "?"), ("lock", 1, ""), ("rel", 1, ""), ("lock", 1, "a//b"), ("rel", 2, "a//b"), ("rel", 1, "a//b")]),
]

def run(v, tier, seed):
    work = os.path.join(WORK, ID); os.makedirs(work, exist_ok=True)
    cases = list(CORPUS)
    alpha = [(k, c, key) for k in ("lock", "acq", "rel") for c in (1, 2, 3) for key in ("a", "a/b")] + [("disc", c) for c in (1, 2, 3)]
    L = 3 if tier == "quick" else 4
    n_exh = 0
    for n in range(1, L + 1):
        for t in itertools.product(alpha, repeat=n):
            cases.append((f"x{n_exh}", list(t))); n_exh += 1
    nrand = 3000 if tier == "quick" else 60000
    rnd = random.Random(seed)
    for i in range(nrand):
        keys = ["a", "a/b", "b", "a/b/c"][:rnd.randint(1, 4)]
        cases.append((f"r{i}", [rnd.choice([(k, rnd.randint(1, 4), rnd.choice(keys)) for k in ("lock", "acq", "acq", "rel", "rel")] + [("disc", rnd.randint(1, 4))]) for _ in range(rnd.randint(5, 40))]))
    cpath = os.path.join(work, "cases.txt")
    write_cases(cpath, [(n, [render(o) for o in ops]) for n, ops in cases])
    impl, model = run_engine("core", "core_driver", cpath, work)
    proj = lambda l: " | ".join([l.split(" | ")[0]] + l.split(" | ")[3:5]) if " | " in l else l
    ncases, nsteps, diffs, A, B = compare_obs(impl, model, project=proj)
    nontrivial, samples = set(), []
    handovers = cancels = 0
    for name, ops in cases:
        lines = A.get(name, [])
        bad = lock_oracle(ops, lines)
        h = sum(1 for o, l in zip(ops, lines) if o[0] in ("rel", "disc") and side(l, 3))
        cc = sum(len(side(l, 4)) for l in lines)
        handovers += h; cancels += cc
        if h or cc: nontrivial.add(tuple(ops))
        if bad:
            step, msg = bad
            def fails(cand):
                wc = os.path.join(work, "shrink.txt")
                write_cases(wc, [("s", [render(o) for o in cand])])
                i2, _ = run_engine("core", "core_driver", wc, work, tag="-shrink")
                return lock_oracle(cand, read_obs(i2)["s"]) is not None
            small = shrink(ops[:step + 1], fails)
            v.violation({"what": msg, "case": name, "ops": [render(o) for o in small], "ops_readable": [str(o) for o in small]})
            if len(v.violations) >= 3: break
        if len(samples) < 2 and h and cc:
            samples.append({"case": name, "ops": [str(o) for o in ops], "observed": [decode_tok(proj(l)) for l in lines]})
    if diffs and not v.violations:
        name, step, x, y = diffs[0]
        ops = dict(cases)[name]
        v.violation({"what": "model and implementation disagree; the lock specification accepts every observed trace", "case": name,
                     "ops": [render(o) for o in ops[:step + 1]], "step": step, "impl": decode_tok(x), "model": decode_tok(y), "disagreeing_cases": len(diffs),
                     "broken_obligation": "correspondence core/C06 (Model/Core.v do_lock, do_acquire, unlock, unlock_paths)"}, no_input=True)
    v.cov.update({"evaluations": ncases, "distinct_nontrivial": len(nontrivial), "steps": nsteps, "disagreements": len(diffs),
                  "rule": f"corpus + every sequence of <= {L} requests over 3 clients x 2 nested keys x {{lock, acquire, release}} + disconnect ({n_exh} sequences, exhaustive) + {nrand} random sequences (4 clients, up to 4 keys, up to 40 requests); projection: request result + oneshot receivers polled after every request (confirmed / cancelled); non-trivial = a hand-over or a cancellation occurred",
                  "samples": samples, "handovers": handovers, "cancellations": cancels, "exhaustive": True})
