"""C02 -- compare-and-swap never loses an update."""
import itertools, json, os, random
from casefmt import write_cases, decode_tok, read_obs, xs, js
from common import *
from coreops import *
from gen import Gen

ID = "C02"
U64 = 18446744073709551615
KNOWN_F17 = "F17-version-overflow"
CORPUS = [
    ("rules", [("cset", 1, "k", 1, 0), ("cget", "k"), ("cset", 2, "k", 2, 0), ("cset", 2, "k", 2, 2), ("cset", 2, "k", 2, 1), ("cget", "k"),
               ("set", 1, "k", 9), ("get", "k"), ("del", 1, "k"), ("cset", 1, "k", 1, 1), ("cset", 1, "k", 1, 0), ("cget", "k"),
               ("set", 1, "p", 1), ("cset", 1, "p", 2, 1), ("cset", 1, "p", 2, 0), ("cget", "p"), ("set", 2, "p", 3), ("cget", "p")]),
    ("boundary", [("cset", 1, "k", 1, U64), ("cset", 1, "k", 1, U64 - 1), ("import", {"k": ("C", 1, U64 - 1)}), ("cget", "k"),
                  ("cset", 1, "k", 2, U64), ("cset", 1, "k", 2, U64 - 1), ("cget", "k"), ("cset", 1, "k", 3, U64 - 1), ("cset", 1, "k", 3, 0)]),
    (KNOWN_F17, [("import", {"k": ("C", 1, U64)}), ("cget", "k"), ("cset", 1, "k", 2, U64)]),
]

def interleavings(progs):
    """all merges of the programs preserving each program's order"""
    idx = [0] * len(progs)
    total = sum(len(p) for p in progs)
    out = []
    def go(acc):
        if len(acc) == total:
            out.append(list(acc)); return
        for i, p in enumerate(progs):
            if idx[i] < len(p):
                acc.append(p[idx[i]]); idx[i] += 1
                go(acc)
                idx[i] -= 1; acc.pop()
    go([])
    return out

def cycle_prog(c, keys, rounds):
    p = []
    for r in range(rounds):
        k = keys[r % len(keys)]
        p += [("cgetr", c, k), ("csetr", c, k, f"c{c}r{r}")]
    return p

def winners_oracle(ops, lines):
    """independent of MapSpec: among accepted csets carrying the same version for a key, with no
    delete/plain write in between, at most one; versions seen by cget never decrease while the key exists"""
    mem, won, seen = {}, {}, {}
    ep = 0   # bumped by every accepted delete / plain write / pdelete (conservative)
    for i, (op, l) in enumerate(zip(ops, lines)):
        r = res_of(l)
        if op[0] == "cgetr":
            ver = int(r.split(" ")[1]) if r.startswith("cval") else 0
            mem[(op[1], op[2])] = ver
            key = (op[2], ep)
            if r.startswith("cval"):
                if seen.get((op[1],) + key, 0) > ver:
                    return (i, f"client {op[1]} saw the version of {op[2]!r} go from {seen[(op[1],) + key]} back to {ver}")
                seen[(op[1],) + key] = ver
        elif op[0] == "csetr" and r == "ok":
            ver = mem.get((op[1], op[2]), 0)
            key = (op[2], ep, ver)
            if key in won:
                return (i, f"two writers won version {ver} of {op[2]!r}: steps {won[key]} and {i}")
            won[key] = i
        elif op[0] in ("del", "set", "pdel", "import") and not r.startswith("err"):
            ep += 1
    return None

def wire_cases(seed, n):
    """the same rule through the client request path (process_api_call, protocol handlers) of a real server"""
    import sessionops
    out = []
    for i in range(n):
        r = random.Random(seed * 15485863 + i)
        ns = r.randint(2, 3)
        ops = [("open", s) for s in range(ns)]
        tid = 0
        ver = {}       # what a well-behaved client would remember per (session, key)
        for _ in range(r.randint(8, 30)):
            sx = r.randrange(ns); k = r.choice(["w/a", "w/b"]); tid += 1; x = r.random()
            if x < 0.45: ops.append(("send", sx, {"cSet": {"transactionId": tid, "key": k, "value": r.randint(0, 2), "version": r.choice([0, 0, 1, 1, 2, 3, 4])}}))
            elif x < 0.65: ops.append(("send", sx, {"cGet": {"transactionId": tid, "key": k}}))
            elif x < 0.8: ops.append(("send", sx, {"set": {"transactionId": tid, "key": k, "value": r.randint(0, 2)}}))
            elif x < 0.9: ops.append(("send", sx, {"delete": {"transactionId": tid, "key": k}}))
            else: ops.append(("send", sx, {"get": {"transactionId": tid, "key": k}}))
        out.append((f"w{i}", ops))
    out.insert(0, ("w-version0-on-cas", [("open", 0), ("open", 1), ("send", 0, {"cSet": {"transactionId": 1, "key": "w/a", "value": 1, "version": 0}}), ("send", 0, {"cSet": {"transactionId": 2, "key": "w/a", "value": 2, "version": 1}}),
                                         ("send", 1, {"cSet": {"transactionId": 3, "key": "w/a", "value": 9, "version": 0}}), ("send", 1, {"cGet": {"transactionId": 4, "key": "w/a"}})]))
    return out

def wire_oracle(ops, lines):
    """the CAS rule on the wire: a cSet is acknowledged iff its version is the current one (0 on an absent or plain key),
    it bumps the version by one, and cGet reports exactly the value and version the accepted writes imply"""
    from sessionops import parse_out, decode_msg
    st = {}     # key -> ("P", v) | ("C", v, ver)
    for i, (op, line) in enumerate(zip(ops, lines)):
        if op[0] != "send": continue
        m = op[2]; kind = next(iter(m)); b = m[kind]; t = b["transactionId"]
        got = [decode_msg(tok) for sx, tok in parse_out(line) if sx == op[1]]
        ans = None
        for g_ in got:
            if isinstance(g_, str) and g_.startswith(f"err:{t}:"): ans = ("err", int(g_.split(":")[2]))
            elif isinstance(g_, dict) and next(iter(g_.values())).get("transactionId") == t: ans = (next(iter(g_)), next(iter(g_.values())))
        if ans is None: return (i, f"no answer to {json.dumps(m)}: {got}")
        cur = st.get(b.get("key"))
        if kind == "cSet":
            allowed = (b["version"] == 0) if (cur is None or cur[0] == "P") else (cur[2] == b["version"])
            if ans[0] == "ack":
                if not allowed: return (i, f"cSet with version {b['version']} was acknowledged although the key holds {cur}: an update is lost")
                st[b["key"]] = ("C", b["value"], b["version"] + 1)
            elif allowed: return (i, f"cSet with the current version {b['version']} was refused ({ans}) although the key holds {cur}")
        elif kind == "set":
            if ans[0] == "ack":
                if cur is not None and cur[0] == "C": return (i, f"plain set overwrote the CAS-protected value {cur}")
                st[b["key"]] = ("P", b["value"])
        elif kind == "delete":
            if ans[0] == "state": st.pop(b["key"], None)
        elif kind == "cGet":
            if cur is None:
                if ans[0] != "err": return (i, f"cGet of an absent key answered {ans}")
            else:
                want = (cur[1], cur[2] if cur[0] == "C" else 0)
                if ans[0] != "cState" or (ans[1].get("value"), ans[1].get("version")) != want: return (i, f"cGet answered {ans}, the accepted writes imply value/version {want}")
    return None

def run_wire(v, tier, seed, work):
    import sessionops
    n = 40 if tier == "quick" else 1500
    cases = wire_cases(seed, n)
    cpath = os.path.join(work, "wire.txt")
    write_cases(cpath, [(nm, ["cfg auth=0"] + [sessionops.R(o) for o in ops]) for nm, ops in cases])
    impl, model = run_engine("session", "session_driver", cpath, work, tag="-wire")
    A, B = read_obs(impl), read_obs(model)
    A = {nm: sessionops.align_closed(A[nm], B.get(nm, [])) for nm in A}
    diffs = [(nm, i) for nm, _ in cases for i, (x, y) in enumerate(zip(A[nm], B.get(nm, []))) if sessionops.canon_session_line(x) != sessionops.canon_session_line(y)]
    acks = 0
    for nm, ops in cases:
        lines = A[nm][1:]
        acks += sum(l.count("61636b") for l in lines)
        bad = wire_oracle(ops, lines)
        if bad:
            step, msg = bad
            v.violation({"what": msg, "case": nm, "engine": "session", "driver": "session_driver", "ops": ["cfg auth=0"] + [sessionops.R(o) for o in ops[:step + 1]], "ops_readable": [str(o) for o in ops[:step + 1]]})
            return
    if diffs and not v.violations:
        nm, i = diffs[0]; ops = dict(cases)[nm]
        v.violation({"what": "session model and server disagree on a CAS history sent over the wire; the CAS rule holds on every observed trace", "case": nm, "engine": "session", "driver": "session_driver",
                     "ops": ["cfg auth=0"] + [sessionops.R(o) for o in ops[:i]], "impl": A[nm][i], "model": B[nm][i],
                     "broken_obligation": "correspondence session/C02 (Model/Session.v handle MCSet -> Core.do_insert force=false; lib.rs process_api_call)"}, no_input=True)
    v.cov["wire"] = {"cases": len(cases), "acks": acks, "disagreements": len(diffs), "rule": "random cSet/cGet/set/delete histories of 2-3 sessions on two shared keys through a real in-process server (client request path: unix socket -> protocol handlers -> process_api_call -> core); every line vs the session model; independent wire-level CAS oracle"}

def run_races(v, tier, seed, work):
    """true parallelism: n connections, each served by a task of its own on the multi-threaded runtime, send the same cSet
    at the same moment (a barrier); round after round exactly one may win"""
    import sessionops
    r = random.Random(seed * 104729)
    cases = []
    for i in range(6 if tier == "quick" else 60):
        n = r.choice([2, 3, 4, 8, 16, 32])
        ops = ["cfg auth=0", "open 0"]
        rounds = r.randint(2, 6)
        for rd in range(rounds):
            ops.append(f"race {n} {xs('race/k')} {js(rd)} {rd}")
            ops.append(sessionops.R(("send", 0, {"cGet": {"transactionId": rd + 1, "key": "race/k"}})))
        # a stale round: everybody names a version that is gone
        ops.append(f"race {n} {xs('race/k')} {js('stale')} 0")
        ops.append(sessionops.R(("send", 0, {"cGet": {"transactionId": 99, "key": "race/k"}})))
        cases.append((f"race{i}", ops, n, rounds))
    cpath = os.path.join(work, "races.txt")
    write_cases(cpath, [(nm, ops) for nm, ops, _, _ in cases])
    impl, model = run_engine("session", "session_driver", cpath, work, tag="-race")
    A, B = read_obs(impl), read_obs(model)
    winners = 0
    for nm, ops, n, rounds in cases:
        la = A.get(nm, [])
        if len(la) < len(ops) or la[0] != "ok":
            v.violation({"what": "the session engine did not complete this case", "case": nm, "engine": "session", "driver": "session_driver", "ops": ops, "broken_obligation": "correspondence session/C02"}, no_input=True)
            return
        for i, op in enumerate(ops):
            if not op.startswith("race "): continue
            res = [x for x in la[i].split(" ") if x.startswith("race:")]
            got = res[0][5:].split(",") if res else []
            stale = op.endswith(" 0") and i > 2
            want_acks = 0 if stale else 1
            if got.count("ack") != want_acks or len(got) != n or any(x not in ("ack", "err18") for x in got):
                v.violation({"what": f"{n} clients sent the same cSet (version {op.split(' ')[-1]}) at the same moment: answers {sorted(got)}; exactly {want_acks} may be acknowledged, the others answered CasVersionMismatch",
                             "case": nm, "engine": "session", "driver": "session_driver", "ops": ops[:i + 1]})
                return
            winners += want_acks
        for i, (x, y) in enumerate(zip(la, B.get(nm, []))):
            cx = x if x.startswith("race:") else sessionops.canon_session_line(x)
            cy = y if y.startswith("race:") else sessionops.canon_session_line(y)
            if cx != cy and not v.violations:
                v.violation({"what": "concurrent csets: session model and server disagree; in every round exactly one client won", "case": nm, "engine": "session", "driver": "session_driver",
                             "ops": ops[:i + 1], "impl": x, "model": y, "broken_obligation": "correspondence session/C02 (races)"}, no_input=True)
    v.cov["concurrent"] = {"cases": len(cases), "rounds_won_by_exactly_one": winners,
                           "rule": "2..32 connections, each served by its own task on the multi-threaded runtime of a real in-process server, release the same cSet at a barrier; 2..6 rounds with the version of the round, then a stale round; per round the answers are counted (exactly one Ack, the rest CasVersionMismatch; none in the stale round) and a cGet by a witness is compared with the session model (value and version of the round)"}

def run(v, tier, seed):
    work = os.path.join(WORK, ID); os.makedirs(work, exist_ok=True)
    cases = list(CORPUS)
    shapes = [(2, 1), (2, 2), (3, 1)] + ([(2, 3)] if tier == "quick" else [(2, 3), (3, 2), (4, 1)])
    n_int = 0
    for (k, r) in shapes:
        for keys in (["k"], ["k", "j"]):
            progs = [cycle_prog(c + 1, keys if c % 2 == 0 else keys[::-1], r) for c in range(k)]
            for il in interleavings(progs):
                cases.append((f"i{n_int}", il + [("cget", "k"), ("cget", "j")])); n_int += 1
    # a disturber (plain set / delete) interleaved with two cycling clients
    for dist in ([("set", 3, "k", "plain")], [("del", 3, "k")], [("del", 3, "k"), ("cset", 3, "k", "x", 0)]):
        for il in interleavings([cycle_prog(1, ["k"], 2), cycle_prog(2, ["k"], 1), dist]):
            cases.append((f"i{n_int}", [("cset", 1, "k", "init", 0)] + il + [("cget", "k")])); n_int += 1
    nrand = 1000 if tier == "quick" else 20000
    for i in range(nrand):
        g = Gen(seed * 7919 + i, segs=["a", "b"], depth=2, wild_in_keys=0.0)
        r = g.r
        ops = []
        for _ in range(r.randint(10, 60)):
            x = r.random(); k = r.choice(["a", "a/b", "b"]); c = g.client()
            if x < 0.25: ops.append(("cgetr", c, k))
            elif x < 0.5: ops.append(("csetr", c, k, r.randint(0, 3)))
            elif x < 0.7: ops.append(("cset", c, k, r.randint(0, 3), r.choice([0, 1, 1, 2, 2, 3, 4, U64, U64 - 1])))
            elif x < 0.8: ops.append(("set", c, k, r.randint(0, 3)))
            elif x < 0.88: ops.append(("del", c, k))
            elif x < 0.92: ops.append(("pdel", c, r.choice(["a/#", "?", "#"])))
            else: ops.append(("cget", k))
        cases.append((f"r{i}", ops + [("dump",)]))
    cpath = os.path.join(work, "cases.txt")
    write_cases(cpath, [(n, [render(o) for o in ops]) for n, ops in cases])
    impl, model = run_engine("core", "core_driver", cpath, work)
    ncases, nsteps, diffs, A, B = compare_obs(impl, model, project=res_of)
    nontrivial, samples = set(), []
    acc = rej = 0
    for name, ops in cases:
        lines = A.get(name, [])
        if name == KNOWN_F17:
            if len(lines) == 3 and lines[2] == "crash":
                v.known("F17", "cset on a key whose CAS version is u64::MAX (reachable only by importing such a version) overflows `v + 1`: panic in debug builds (store.rs:813)")
                continue
            elif len(lines) == 3 and res_of(lines[2]).startswith("err"):
                continue
        bad = mapspec_oracle(ops, lines) or winners_oracle(ops, lines)
        a = sum(1 for o, l in zip(ops, lines) if o[0] in ("cset", "csetr") and res_of(l) == "ok")
        rj = sum(1 for o, l in zip(ops, lines) if o[0] in ("cset", "csetr") and res_of(l).startswith("err"))
        acc += a; rej += rj
        if a and rj: nontrivial.add(tuple(map(str, ops)))
        if bad:
            step, msg = bad
            def fails(cand):
                wc = os.path.join(work, "shrink.txt")
                write_cases(wc, [("s", [render(o) for o in cand])])
                i2, _ = run_engine("core", "core_driver", wc, work, tag="-shrink")
                l2 = read_obs(i2)["s"]
                return (mapspec_oracle(cand, l2) or winners_oracle(cand, l2)) is not None
            small = shrink(ops[:step + 1], fails)
            v.violation({"what": msg, "case": name, "ops": [render(o) for o in small], "ops_readable": [str(o) for o in small]})
            if len(v.violations) >= 3: break
        if len(samples) < 2 and name.startswith("i") and a and rj:
            samples.append({"case": name, "interleaving": [str(o) for o in ops], "observed": [decode_tok(res_of(l)) for l in lines]})
    if diffs and not v.violations:
        name, step, x, y = diffs[0]
        ops = dict(cases)[name]
        v.violation({"what": "model and implementation disagree; the CAS rule holds on every observed trace", "case": name,
                     "ops": [render(o) for o in ops[:step + 1]], "step": step, "impl": decode_tok(x), "model": decode_tok(y),
                     "broken_obligation": "correspondence core/C02 (Model/Core.v decide, do_insert)"}, no_input=True)
    if not v.violations:
        run_wire(v, tier, seed, work)
        if not v.violations: run_races(v, tier, seed, work)
    v.cov.update({"evaluations": ncases, "distinct_nontrivial": len(nontrivial), "steps": nsteps, "disagreements": len(diffs),
                  "rule": f"corpus (rules, u64 boundary) + every interleaving at request granularity of cget->cset client programs for shapes (clients, rounds) {shapes} on one and two shared keys, with plain-set/delete disturbers ({n_int} interleavings) + {nrand} random sequences with stale/future/boundary versions; non-trivial = at least one accepted and one rejected cset",
                  "samples": samples, "accepted_csets": acc, "rejected_csets": rej, "interleavings": n_int,
                  "concurrency_note": "request-granularity interleavings in the core engine; atomicity of requests under the multi-threaded runtime: evidence key `concurrent` (races of 2..32 real connections released at a barrier)"})
