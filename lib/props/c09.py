"""C09 -- what was flushed is what is loaded."""
import json, os, random
from casefmt import write_cases, decode_tok, read_obs, canon
from common import *
from coreops import res_of, canon_line
from persistops import R
from persistspec import persist_oracle, snapshot, recover
from mapspec import MapSpec
from gen import uuid, Gen, tree_of

ID = "C09"
gg = lambda c: f"$SYS/clients/{uuid(c)}/graveGoods"
lw = lambda c: f"$SYS/clients/{uuid(c)}/lastWill"
U64 = 2**64 - 1
TRICKY = [0, "s", [1, {"a": None}], {"v": 1, "t": {"x": {"v": 2}}}, {"t": {}}, {"Cas": 1}, {"Cas": [1]}, {"Cas": [1, "2"]}, {"Cas": [1, 2, 3]}, {"cas": [1, 2]},
          1.5, -2.25, U64, -2**63, "line\nbreak", {"data": {"v": 1}}, [None], False, ""]
F8_VALUES = [None, {"Cas": [1, 2]}, {"Cas": [None, 0]}, {"Cas": [{"Cas": [1, 2]}, U64]}]

def f8_key(e):
    """entries the file format cannot represent (known finding F8)"""
    if e[0] != "P": return False
    v = json.loads(e[1])
    return v is None or (isinstance(v, dict) and list(v) == ["Cas"] and isinstance(v["Cas"], list) and len(v["Cas"]) == 2
                         and isinstance(v["Cas"][1], int) and not isinstance(v["Cas"][1], bool) and 0 <= v["Cas"][1] <= U64)

def store_case(g, with_f8):
    r = g.r
    ops = [("conn", 1), ("conn", 2), ("dump",)]
    for _ in range(r.randint(3, 25)):
        k = g.key()
        if any(s in ("?", "#") for s in k.split("/")) or k == "": continue
        v = r.choice(TRICKY + (F8_VALUES if with_f8 else []))
        x = r.random()
        if x < 0.55: ops.append(("set", r.choice([1, 2]), k, v))
        elif x < 0.85: ops.append(("cset", r.choice([1, 2]), k, v, r.choice([0, 0, 1, 2])))
        else: ops.append(("import", {k: ("C", v, r.choice([1, 5, U64 - 1, U64]))} if v is not None else {k: ("P", 1)}))
    if r.random() < 0.7: ops.append(("set", 1, gg(1), [g.pattern() for _ in range(r.randint(0, 3))]))
    if r.random() < 0.7: ops.append(("set", 1, lw(1), [[f"lw/{i}", r.choice(TRICKY)] for i in range(r.randint(0, 3))]))
    if r.random() < 0.3: ops.append(("set", 2, gg(2), ["nothing/here"]))
    if r.random() < 0.6: ops.append(("set", 2, lw(2), [[f"lw2/{i}", r.choice(TRICKY)] for i in range(r.randint(1, 3))]))      # several clients, different wills
    if r.random() < 0.3: ops.append(("set", 2, gg(2), [g.pattern() for _ in range(r.randint(1, 2))]))
    ops += [("dump",), ("flush", -1), ("fs",), ("restart",), ("dump",)]
    if r.random() < 0.5:        # second generation: both toggle states
        ops += [("conn", 1), ("dump",), ("set", 1, "second", 2), ("flush", -1), ("restart",), ("dump",), ("fs",)]
    return ops

def f8_oracle(ops, lines):
    """like persist_oracle, but classifies a mismatch confined to F8 entries"""
    bad = persist_oracle(ops, lines)
    if not bad: return None, False
    # recompute: is the difference explained by entries the format cannot represent?
    sp = MapSpec()
    for i, op in enumerate(ops):
        r = res_of(lines[i]) if i < len(lines) else "crash"
        ok = not r.startswith("err")
        if op[0] == "set" and ok: sp.set(op[2], op[3])
        elif op[0] == "cset" and ok: sp.cset(op[2], op[3], op[4])
        elif op[0] == "import" and ok: sp.imp(op[1])
        elif op[0] == "dump" and ops[i - 1][0] in ("conn", "disc"): sp.load_dump(r)
        elif op[0] == "flush":
            snap = snapshot(sp)
            exp = recover(snap)
            # apply F8 to the expectation: plain null disappears, plain {"Cas":[x,n]} becomes Cas(x,n)
            adj = MapSpec()
            for k, e in exp.m.items():
                if f8_key(e):
                    v = json.loads(e[1])
                    if v is not None: adj.m[k] = ("C", canon(v["Cas"][0]), v["Cas"][1])
                else:
                    adj.m[k] = e
            j = next(j for j in range(i, len(ops)) if ops[j][0] == "restart") + 1
            if res_of(lines[j]) == adj.dump_token() and any(f8_key(e) for e in snap[0].values()):
                return None, True
            return bad, False
    return bad, False

def layout_cases():
    """directories laid out by the two earlier schemas, two populated slots with different snapshots"""
    A = {"data": {"t": {"slot": {"v": "a"}, "g": {"t": {"x": {"v": 1}}}, "c": {"v": {"Cas": ["v", 7]}}}}}
    Bn = {"data": {"t": {"slot": {"v": "b"}, "g": {"t": {"x": {"v": 1}}}}}}
    GA = {"grave_goods": ["g/#"], "last_will": [{"key": "w", "value": "a"}]}
    GB = {"grave_goods": [], "last_will": [{"key": "w", "value": "b"}]}
    cases = []
    for toggle in (False, True):
        for broken in ("none", "a", "b", "both", "gglw-active"):
            ops = [("writejson", ".store.a.json", A), ("writejson", ".store.b.json", Bn), ("writejson", ".gglw.a.json", GA), ("writejson", ".gglw.b.json", GB)]
            if toggle: ops.append(("touch", ".toggle"))
            if broken in ("a", "both"): ops.append(("writeraw", ".store.a.json", "{garbage"))
            if broken in ("b", "both"): ops.append(("writeraw", ".store.b.json", "{garbage"))
            if broken == "gglw-active": ops.append(("rmfile", ".gglw.a.json" if toggle else ".gglw.b.json"))
            ops += [("restart",), ("dump",), ("fs",)]
            cases.append((f"v2-{int(toggle)}-{broken}", ops))
    for variant in ("main", "backup", "bad-sum", "none"):
        ops = []
        if variant in ("main", "bad-sum"): ops += [("writejson", ".store.json", A), ("writesum", ".store.sha", A if variant == "main" else Bn)]
        if variant in ("backup", "bad-sum"): ops += [("writejson", ".store.json~", Bn), ("writesum", ".store.sha~", Bn)]
        ops += [("restart",), ("dump",), ("fs",)]
        cases.append((f"v1-{variant}", ops))
    # v3 files written by hand in both toggle states, and a v3 directory that also holds v2 files
    for toggle in (False, True):
        ops = [("writejson", "store.a.json", A), ("writesum", "store.a.json.sha256", A), ("writejson", "gglw.a.json", GA), ("writesum", "gglw.a.json.sha256", GA),
               ("writejson", "store.b.json", Bn), ("writesum", "store.b.json.sha256", Bn), ("writejson", "gglw.b.json", GB), ("writesum", "gglw.b.json.sha256", GB),
               ("writejson", ".store.a.json", {"data": {"t": {"slot": {"v": "v2"}}}})]
        if toggle: ops.append(("touch", ".toggle"))
        ops += [("restart",), ("dump",), ("fs",)]
        cases.append((f"v3-{int(toggle)}", ops))
    return cases

LAYOUT_EXPECT = {  # which snapshot a layout case must recover: slot value, w, g/x present
}

def run(v, tier, seed):
    work = os.path.join(WORK, ID); os.makedirs(work, exist_ok=True)
    cases = []
    n = 400 if tier == "quick" else 10000
    for i in range(n):
        g = Gen(seed * 48611 + i, segs=["a", "b", "", "é", "t", "v"] + (["$SYSTEM", "$SYS2", "$"] if i % 3 == 0 else []), depth=3, wild_in_keys=0.0)
        cases.append((f"s{i}", store_case(g, with_f8=(i % 4 == 0))))
    lay = layout_cases()
    cases += lay
    cpath = os.path.join(work, "cases.txt")
    write_cases(cpath, [(nm, [R(o) for o in ops]) for nm, ops in cases])
    impl, model = run_engine("persist", "persist_driver", cpath, work)
    ncases, nsteps, diffs, A, B = compare_obs(impl, model, project=canon_line)
    nontrivial, samples = set(), []
    f8 = 0
    for name, ops in cases:
        lines = A.get(name, [])
        if name.startswith("s"):
            bad, known = f8_oracle(ops, lines)
            if known:
                f8 += 1
                v.known("F8", "a persisted Plain(null) reads back as no value and a persisted Plain({\"Cas\":[x,n]}) reads back as Cas(x,n): the ValueEntry file format is ambiguous (common/lib.rs:145-149, store.rs:141-146)")
            if bad:
                step, msg = bad
                v.violation({"what": msg, "case": name, "engine": "persist", "driver": "persist_driver", "ops": [R(o) for o in ops[:step + 1]]})
                if len(v.violations) >= 3: break
            if len(ops) > 12: nontrivial.add(name)
            if len(samples) < 2 and len(ops) > 15:
                samples.append({"case": name, "ops": [str(o) for o in ops[3:10]], "directory_after_flush": decode_tok(res_of(lines[[o[0] for o in ops].index("fs")]))[:500]})
        else:
            # layout cases: the expectation is written out per case
            dump = decode_tok(res_of(lines[[o[0] for o in ops].index("dump")]))
            want = layout_expectation(name)
            if want is not None and not all(w in dump for w in want[0]) or (want is not None and any(w in dump for w in want[1])):
                v.violation({"what": f"directory laid out by an earlier schema ({name}) loads as {dump}; expected to contain {want[0]} and not {want[1]}", "case": name,
                             "engine": "persist", "driver": "persist_driver", "ops": [R(o) for o in ops]})
            nontrivial.add(name)
    if diffs and not v.violations:
        name, step, x, y = diffs[0]
        ops = dict(cases)[name]
        v.violation({"what": "model and implementation disagree; every load recovered what was flushed", "case": name, "engine": "persist", "driver": "persist_driver",
                     "ops": [R(o) for o in ops[:step + 1]], "step": step, "impl": decode_tok(x)[:1500], "model": decode_tok(y)[:1500], "disagreeing_cases": len(diffs),
                     "broken_obligation": "correspondence persist/C09 (Model/Persist.v flush, load, load_v2, load_v1; Model/Entry.v enc_node/dec_node)"}, no_input=True)
    v.cov.update({"evaluations": ncases, "distinct_nontrivial": len(nontrivial), "steps": nsteps, "disagreements": len(diffs), "f8_cases": f8, "layout_cases": len(lay),
                  "rule": f"{n} generated stores (keys with empty/unicode segments and segments named t/v, values that look like the format's own tags, nested objects, big/fractional numbers, CAS versions up to u64::MAX via import, registrations of two clients) -> flush -> directory listing -> restart -> dump, a second generation for the other toggle state; a quarter include the F8 values; {len(lay)} hand-laid directories of the v2 / v1 / v3 layouts in both toggle states with two different snapshots and broken slots; oracle: dump after load = lastwills . gravegoods (user part at the flush)",
                  "samples": samples})

def layout_expectation(name):
    a = (["'slot'|P:'\"a\"'", "'w'|P:'\"a\"'"], ["'g/x'"])      # snapshot A: g/# buried, last will a
    a_nog = (["'slot'|P:'\"a\"'", "'g/x'"], [])
    b = (["'slot'|P:'\"b\"'", "'w'|P:'\"b\"'", "'g/x'"], [])
    if name.startswith("v2-"):
        _, toggle, broken = name.split("-", 2)
        toggle = toggle == "1"
        active = "a" if toggle else "b"
        if broken == "none": return a if toggle else b
        if broken == "both": return ([], ["'slot'"])
        if broken == active: return None      # fallback to the other store, gglw of the slot named first: a mixed v2 state (legacy loader, not claimed)
        if broken == "gglw-active": return None
        return a if toggle else b
    if name == "v1-main": return (["'slot'|P:'\"a\"'", "'c'|C7"], [])
    if name == "v1-backup": return (["'slot'|P:'\"b\"'"], [])
    if name == "v1-bad-sum": return (["'slot'|P:'\"b\"'"], [])
    if name == "v1-none": return ([], ["'slot'"])
    if name == "v3-0": return b
    if name == "v3-1": return a
    return None
