"""C05 -- child listings and ls-subscriptions show exactly the keys that exist."""
import itertools, os, random
from casefmt import write_cases, decode_tok, read_obs
from common import *
from coreops import *
from eventspec import ls_oracle, ls_of
from gen import Gen

ID = "C05"
CORPUS = [
    ("basic", [("subls", 2, 1, None), ("subls", 2, 2, "a"), ("subls", 3, 1, "a/b"), ("set", 1, "a/b/c", 1), ("set", 1, "a/x", 1), ("cset", 1, "a/y", 1, 5),
               ("ls", "a"), ("del", 1, "a/b/c"), ("pdel", 1, "a/#"), ("ls", "a"), ("ls", None), ("unsubls", 2, 2), ("set", 1, "a/z", 1), ("unsubls", 2, 2)]),
    ("F1-rejected-cset", [("subls", 2, 1, "a"), ("subls", 2, 2, None), ("cset", 1, "a/b", 1, 5), ("ls", "a"), ("ls", None), ("set", 1, "c", 1), ("cset", 1, "c", 1, 0), ("set", 1, "c/d", 1)]),
    ("F6-ls-subscription-dies-with-session", [("conn", 1), ("dump",), ("subls", 1, 1, "a"), ("disc", 1), ("dump",), ("unsubls", 1, 1), ("set", 2, "a/b", 1)]),
    ("F18b-import", [("subls", 2, 1, "a"), ("import", {"a/b": ("P", 1)}), ("ls", "a"), ("set", 1, "a/c", 1)]),
    ("wild-delete", [("set", 1, "a/x", 1), ("set", 1, "a/y", 1), ("set", 1, "b/x", 1), ("subls", 2, 1, "a"), ("subls", 2, 2, None), ("subls", 2, 3, "b"), ("pdel", 1, "?/x"), ("pdel", 1, "?/?"), ("ls", None)]),
]
WRITES = [("set", 1, "a", 1), ("set", 1, "a/b", 1), ("set", 1, "a/b/c", 1), ("set", 1, "a/d", 1), ("cset", 1, "a/b", 1, 0), ("cset", 1, "a/e", 1, 3), ("del", 1, "a/b"),
          ("del", 1, "a/b/c"), ("del", 1, "a"), ("pdel", 1, "a/#"), ("pdel", 1, "a/?"), ("pdel", 1, "?/b"), ("pdel", 1, "#"), ("pdel", 1, "?/?/c")]
PARENTS = [None, "a", "a/b", "b"]

def random_case(g, n):
    r = g.r
    ops, tids, active = [], {}, []
    for _ in range(n):
        x = r.random(); c = g.client()
        if x < 0.12:
            t = tids.get(c, 0) + 1; tids[c] = t
            k = r.choice([None, g.key(), g.key()])
            ops.append(("subls", c, t, k)); active.append((c, t))
        elif x < 0.16 and active: ops.append(("unsubls",) + r.choice(active))
        elif x < 0.45: ops.append(("set", c, g.key(), r.choice([1, 2])))
        elif x < 0.58: ops.append(("cset", c, g.key(), 1, r.choice([0, 0, 1, 2])))
        elif x < 0.72: ops.append(("del", c, g.key()))
        elif x < 0.85: ops.append(("pdel", c, g.pattern()))
        elif x < 0.88:
            ents = {}
            for _ in range(r.randint(1, 3)):
                k = g.key()
                if any(s in ("?", "#") for s in k.split("/")) or k == "": continue
                ents[k] = ("P", 1)
            ops.append(("import", ents))
        elif x < 0.94: ops.append(("ls", r.choice([None, g.key()])))
        else: ops.append(("pls", r.choice([None, g.pattern()])))
    ops.append(("dump",))
    return ops

def run(v, tier, seed):
    work = os.path.join(WORK, ID); os.makedirs(work, exist_ok=True)
    cases = list(CORPUS)
    L = 2 if tier == "quick" else 3
    n_exh = 0
    for n in range(1, L + 1):
        for t in itertools.product(WRITES, repeat=n):
            for pos in range(n + 1):
                ops = list(t[:pos]) + [("subls", 2, j + 1, p) for j, p in enumerate(PARENTS)] + list(t[pos:]) + [("ls", p) for p in PARENTS] + [("pls", "?"), ("pls", "a/?")]
                cases.append((f"x{n_exh}", ops)); n_exh += 1
    nrand = 1500 if tier == "quick" else 30000
    for i in range(nrand):
        g = Gen(seed * 15485863 + i, segs=["a", "b", "", "é"], depth=3, wild_in_keys=0.02)
        cases.append((f"r{i}", random_case(g, g.r.randint(10, 100))))
    cpath = os.path.join(work, "cases.txt")
    write_cases(cpath, [(n, [render(o) for o in ops]) for n, ops in cases])
    impl, model = run_engine("core", "core_driver", cpath, work)
    proj = lambda l: " | ".join([l.split(" | ")[0]] + l.split(" | ")[2:3]) if " | " in l else l
    ncases, nsteps, diffs, A, B = compare_obs(impl, model, project=proj)
    nontrivial, samples, nnote = set(), [], 0
    for name, ops in cases:
        lines = A.get(name, [])
        bad = mapspec_oracle(ops, lines, check_acceptance=False) or ls_oracle(ops, lines, known=v.known)
        e = sum(len(ls_of(l)) for l in lines)
        nnote += e
        if e >= 2: nontrivial.add(tuple(map(str, ops)))
        if bad:
            step, msg = bad
            def fails(cand):
                wc = os.path.join(work, "shrink.txt")
                write_cases(wc, [("s", [render(o) for o in cand])])
                i2, _ = run_engine("core", "core_driver", wc, work, tag="-shrink")
                l2 = read_obs(i2)["s"]
                return (mapspec_oracle(cand, l2, check_acceptance=False) or ls_oracle(cand, l2)) is not None
            small = shrink(ops[:step + 1], fails)
            v.violation({"what": msg, "case": name, "ops": [render(o) for o in small], "ops_readable": [str(o) for o in small]})
            if len(v.violations) >= 3: break
        if len(samples) < 2 and name.startswith("r") and e > 4:
            samples.append({"case": name, "ops": [str(o) for o in ops[:10]], "observed": [decode_tok(proj(l)) for l in lines[:10]]})
    if diffs and not v.violations:
        name, step, x, y = diffs[0]
        ops = dict(cases)[name]
        v.violation({"what": "model and implementation disagree; the ls specification accepts every observed trace", "case": name,
                     "ops": [render(o) for o in ops[:step + 1]], "step": step, "impl": decode_tok(x), "model": decode_tok(y), "disagreeing_cases": len(diffs),
                     "broken_obligation": "correspondence core/C05 (Model/Store.v created_at, del_notes, delm notes; Model/Core.v notify_ls)"}, no_input=True)
    v.cov.update({"evaluations": ncases, "distinct_nontrivial": len(nontrivial), "steps": nsteps, "disagreements": len(diffs), "ls_notifications_observed": nnote,
                  "rule": f"corpus + every history of <= {L} writes over a {len(WRITES)}-op alphabet (set, accepted and rejected cset, delete, pdelete with wildcards at/above/below the parent) with ls-subscriptions on root, existing, not-yet-existing parents taken at every position ({n_exh} histories) + {nrand} random histories; projection: request result + per ls-subscription (count, last list); non-trivial = at least two ls notifications",
                  "samples": samples})
