"""C14 -- every protocol message survives encoding and decoding unchanged."""
import json, os, random
from casefmt import write_cases, read_obs, canon
from common import *

ID = "C14"
U64 = 2**64 - 1
IDS = [0, 1, 2, 255, 2**32 - 1, 2**32, 2**53, 2**63, U64 - 1, U64]
KEYS = ["", "a", "a/b", "é/ß/日本", "x y", "line\nbreak", 'quo"te', "back\\slash", "\t\u0001\u001f", "#", "?/#", "$SYS/clients", " ", "🙂"]
VALUES = [None, True, False, 0, 1, -1, 2**63, U64, -2**63, 1.5, -2.25, 0.1, "", "s", "line\nbreak", 'q"\\', "\u0000\u001f",
          [], [1, [2, [3]]], {}, {"a": {"b": [None, {"c": "d"}]}}, {"transactionId": 7, "value": 1, "key": "k"},
          {"keyValuePairs": [], "deleted": 1}, {"Cas": [1, 2]}, {"v": 1, "t": {}}, [{"key": "k", "value": 1}], {"\n": "\n"}]

def jd(x):
    # object keys sorted: nested serde_json::Value objects are BTreeMaps (re-serialised sorted); for the
    # message structs themselves the input order is irrelevant (and sorted != declaration order)
    return json.dumps(x, ensure_ascii=False, separators=(",", ":"), sort_keys=True)

def val_text(v):
    return canon(v)

class G:
    def __init__(self, seed):
        self.r = random.Random(seed)
    def tid(self): return self.r.choice(IDS)
    def key(self): return self.r.choice(KEYS)
    def val(self): return self.r.choice(VALUES)
    def ob(self): return self.r.choice([None, True, False])
    def ok(self): return self.r.choice([None, self.key()])

    def client(self):
        r = self.r
        k = r.randrange(23)
        t = self.tid()
        m = [
            lambda: {"protocolSwitchRequest": {"version": r.choice([0, 1, 2**32 - 1])}},
            lambda: {"authorizationRequest": {"authToken": self.key()}},
            lambda: {"get": {"transactionId": t, "key": self.key()}},
            lambda: {"cGet": {"transactionId": t, "key": self.key()}},
            lambda: {"pGet": {"transactionId": t, "requestPattern": self.key()}},
            lambda: {"set": {"transactionId": t, "key": self.key(), "value": self.val()}},
            lambda: {"cSet": {"transactionId": t, "key": self.key(), "value": self.val(), "version": self.tid()}},
            lambda: {"sPubInit": {"transactionId": t, "key": self.key()}},
            lambda: {"sPub": {"transactionId": t, "value": self.val()}},
            lambda: {"publish": {"transactionId": t, "key": self.key(), "value": self.val()}},
            lambda: self.opt({"subscribe": {"transactionId": t, "key": self.key(), "unique": r.random() < 0.5}}, "subscribe", {"liveOnly": self.ob()}),
            lambda: self.opt({"pSubscribe": {"transactionId": t, "requestPattern": self.key(), "unique": r.random() < 0.5}}, "pSubscribe",
                             {"aggregateEvents": r.choice([None, 0, 10, U64]), "liveOnly": self.ob()}),
            lambda: {"unsubscribe": {"transactionId": t}},
            lambda: {"delete": {"transactionId": t, "key": self.key()}},
            lambda: self.opt({"pDelete": {"transactionId": t, "requestPattern": self.key()}}, "pDelete", {"quiet": self.ob()}, keep_null=True),
            lambda: self.opt({"ls": {"transactionId": t}}, "ls", {"parent": self.ok()}, keep_null=True),
            lambda: self.opt({"pLs": {"transactionId": t}}, "pLs", {"parentPattern": self.ok()}, keep_null=True),
            lambda: self.opt({"subscribeLs": {"transactionId": t}}, "subscribeLs", {"parent": self.ok()}, keep_null=True),
            lambda: {"unsubscribeLs": {"transactionId": t}},
            lambda: {"lock": {"transactionId": t, "key": self.key()}},
            lambda: {"acquireLock": {"transactionId": t, "key": self.key()}},
            lambda: {"releaseLock": {"transactionId": t, "key": self.key()}},
            lambda: {"transform": {"transactionId": t, "key": self.key(), "template": self.val()}},
        ][k]()
        return m

    def opt(self, m, name, opts, keep_null=False):
        for k, v in opts.items():
            x = self.r.random()
            if v is None:
                if keep_null or x < 0.5: m[name][k] = None      # explicit null
                # else absent
            else:
                m[name][k] = v
        return m

    def kvps(self):
        return [{"key": self.key(), "value": self.val()} for _ in range(self.r.randint(0, 3))]

    def server(self):
        r = self.r
        t = self.tid()
        return r.choice([
            lambda: {"welcome": {"info": {"version": "1.6.0", "supportedProtocolVersions": [[r.choice([0, 1, 2**32 - 1]), r.choice([0, 3])] for _ in range(r.randint(0, 3))],
                                          "protocolVersion": "0.11", "authorizationRequired": r.random() < 0.5}, "clientId": self.key()}},
            lambda: {"pState": {"transactionId": t, "requestPattern": self.key(), r.choice(["keyValuePairs", "deleted"]): self.kvps()}},
            lambda: {"ack": {"transactionId": t}},
            lambda: {"state": {"transactionId": t, r.choice(["value", "deleted"]): self.val()}},
            lambda: {"cState": {"transactionId": t, "value": self.val(), "version": self.tid()}},
            lambda: {"err": {"transactionId": t, "errorCode": r.choice(list(range(26)) + [255]), "metadata": self.key()}},
            lambda: {"authorized": {"transactionId": t}},
            lambda: {"lsState": {"transactionId": t, "children": [self.key() for _ in range(r.randint(0, 3))]}},
        ])()

    def node(self, depth=0):
        r = self.r
        n = {}
        if r.random() < 0.7:
            v = r.choice([x for x in VALUES if x is not None and x != {"Cas": [1, 2]}])
            n["v"] = v if r.random() < 0.6 else {"Cas": [v, r.choice(IDS)]}
        if depth < 3 and r.random() < 0.7:
            kids = {}
            for _ in range(r.randint(1, 3)):
                kids[r.choice(["a", "b", "", "v", "t", "é", "Cas"])] = self.node(depth + 1)
            n["t"] = kids
        return n

    def sync(self):
        r = self.r
        return r.choice([
            lambda: {"init": [self.node(), [self.key() for _ in range(r.randint(0, 2))], self.kvps()]},
            lambda: {"mut": {"set": [self.key(), self.val(), r.random() < 0.5]}},
            lambda: {"mut": {"cSet": [self.key(), self.val(), self.tid(), r.random() < 0.5]}},
            lambda: {"mut": {"delete": self.key()}},
            lambda: {"mut": {"pDelete": self.key()}},
        ])()

    def mutate(self, m):
        """malformed / unusual variants of a valid message"""
        r = self.r
        m = json.loads(jd(m))
        name = next(iter(m))
        body = m[name]
        x = r.randrange(9)
        if x == 0 and isinstance(body, dict) and body:
            del body[r.choice(list(body))]
        elif x == 1 and isinstance(body, dict) and body:
            k = r.choice(list(body))
            # 2**64 only where a u64 is expected: as a Value it would become a float (number text is not modelled)
            body[k] = r.choice([None, "str", 1.5, -1, [], {}, True] + ([2**64] if k not in ("value", "template", "deleted", "keyValuePairs") else []))
        elif x == 2 and isinstance(body, dict):
            body["unknownField"] = 1
        elif x == 3:
            m = {name + "X": body}
        elif x == 4:
            m["ack"] = {"transactionId": 1}
        elif x == 5 and isinstance(body, dict):
            m = {name: list(body.values())}          # struct as sequence
        elif x == 6:
            m = [name, body]
        elif x == 7 and isinstance(body, dict):
            m = {name: dict(reversed(list(body.items())))}   # field order
        else:
            m = r.choice([None, 1, "get", [], {}])
        return m

def run(v, tier, seed):
    work = os.path.join(WORK, ID); os.makedirs(work, exist_ok=True)
    n = 6000 if tier == "quick" else 150000
    g = G(seed)
    lines, meta = [], []
    hist = {}
    for i in range(n):
        kind = ("client", "server", "sync")[i % 3]
        m = getattr(g, kind)()
        malformed = g.r.random() < 0.25
        if malformed: m = g.mutate(m)
        text = jd(m)
        lines.append(f"{kind} j{text.encode().hex()}")
        meta.append((kind, text, malformed))
        vn = (next(iter(m)) if isinstance(m, dict) and m else "?")
        hist[f"{kind}:{vn}"] = hist.get(f"{kind}:{vn}", 0) + 1
    # value level: entries of the store's file / sync format, built in memory (not parsed from text)
    f8_lines = []
    for val in ({"Cas": [1, 2]}, {"Cas": [None, 0]}, {"Cas": [{"Cas": [1, 2]}, 18446744073709551615]}):      # (a plain null is lost one level up, in the node: C09)
        f8_lines.append(f"entryP j{jd(val).encode().hex()}")
    for k_, val in (("entryP", 1), ("entryP", {"Cas": 1}), ("entryP", {"Cas": [1]}), ("entryP", {"Cas": [1, "2"]}), ("entryP", {"Cas": [1, 2, 3]}), ("entryP", {"cas": [1, 2]}),
                    ("entryP", {"Cas": [1, -1]}), ("entryP", {"Cas": [1, 2], "x": 1}), ("entryP", None), ("entryC:0", None), ("entryC:7", {"Cas": [1, 2]}), ("entryC:18446744073709551615", [1, None]), ("entryP", "s")):
        lines.append(f"{k_} j{jd(val).encode().hex()}"); meta.append(("entry", jd(val), False))
    per = 2000
    cases = [(f"b{j}", lines[j:j + per]) for j in range(0, len(lines), per)] + [("F8-entries", f8_lines)]
    cpath = os.path.join(work, "cases.txt")
    write_cases(cpath, cases)
    impl, model = run_engine("codec", "codec_driver", cpath, work)
    A, B = read_obs(impl), read_obs(model)
    a = [l for nm, _ in cases if nm != "F8-entries" for l in A[nm]]
    b = [l for nm, _ in cases if nm != "F8-entries" for l in B[nm]]
    for x, y, src in zip(A["F8-entries"], B["F8-entries"], f8_lines):
        if x != y:
            v.violation({"what": "model and implementation disagree on a value entry", "input": src, "impl": x, "model": y, "broken_obligation": "correspondence codec/C14 (Model/Entry.v enc_entry / dec_entry)"}, no_input=True)
        elif " rt=0 " in x:
            v.known("F8", "a plain value of the shape {\"Cas\":[x,n]} does not survive the ValueEntry format: it reads back as the CAS entry (x, n) (common/lib.rs:145-149)")
        else:
            v.violation({"what": "an entry of the class of known finding F8 round-trips now: the finding no longer reproduces (remove it from known_findings.json)", "input": src, "impl": x}, no_input=True)
    decoded = rejected = 0
    distinct = set()
    samples = []
    diffs = 0
    for i, (kind, text, malformed) in enumerate(meta):
        x, y = a[i], b[i]
        if x.startswith("ok"):
            decoded += 1
            distinct.add(x.split(" ")[1])
            parts = x.split(" ")
            if parts[2] != "rt=1":
                v.violation({"what": f"a {kind} message does not decode back to an equal message from its own encoding", "kind": kind, "input": text,
                             "encoded": bytes.fromhex(parts[1]).decode(), "engine": "codec"})
            if parts[3] != "line=1":
                v.violation({"what": f"a {kind} message is encoded with a line break inside", "kind": kind, "input": text, "encoded": bytes.fromhex(parts[1]).decode()})
        else:
            rejected += 1
            if not malformed and y.startswith("ok") and sum(1 for r, ni in v.violations if not ni) < 3:
                # a well-formed message of the protocol (the model decodes it, and its re-encoding is what the peers put on the wire)
                # that the real decoder refuses: it does not survive encoding and decoding
                v.violation({"what": f"a well-formed {kind} message is rejected by the decoder: what a peer encodes is not decoded back", "kind": kind, "input": text,
                             "model_decodes_and_re_encodes_as": bytes.fromhex(y.split(" ")[1]).decode(), "impl": x, "engine": "codec"})
        if x != y:
            diffs += 1
            if diffs <= 3 and not v.violations:
                dx = bytes.fromhex(x.split(" ")[1]).decode() if x.startswith("ok") else x
                dy = bytes.fromhex(y.split(" ")[1]).decode() if y.startswith("ok") else y
                v.violation({"what": "model and implementation disagree on a message; the implementation's own round trip holds on everything explored",
                             "kind": kind, "input": text, "malformed_input": malformed, "impl": dx + " " + " ".join(x.split(" ")[2:]), "model": dy + " " + " ".join(y.split(" ")[2:]),
                             "broken_obligation": "correspondence codec/C14 (Model/Codec.v enc_*/dec_*, Model/JsonText.v print)"}, no_input=True)
        if len(samples) < 3 and x.startswith("ok") and not malformed and i % 500 == 7:
            samples.append({"kind": kind, "input": text, "re_encoded": bytes.fromhex(x.split(" ")[1]).decode()})
    v.cov.update({"evaluations": n, "distinct_nontrivial": len(distinct), "disagreements": diffs, "decoded": decoded, "rejected_by_decoder": rejected,
                  "rule": "structured random messages of every variant of ClientMessage (23), ServerMessage (8), LeaderSyncMessage/ClientWriteCommand (5) with u64/u32 boundary ids and versions, nested values (null, big and fractional numbers, strings with newlines/quotes/controls, objects whose keys collide with envelope names), empty/unicode keys, optional fields present/absent/null; a quarter mutated (missing field, wrong type, unknown field, unknown variant, two variants, struct as sequence, reordered fields, non-object); per message: real from_str -> to_string (byte-exact vs model print(enc(dec))) -> from_str equality, no line break; non-trivial = distinct re-encoded texts",
                  "samples": samples, "variant_histogram": hist})
