"""C17 -- no client input takes the server down or disturbs other sessions."""
import json, os, random
from casefmt import write_cases, read_obs
from common import *
from sessionops import *

ID = "C17"
VALID = [{"set": {"transactionId": 1, "key": "a/b", "value": 1}}, {"get": {"transactionId": 2, "key": "a/b"}}, {"pGet": {"transactionId": 3, "requestPattern": "a/#"}},
         {"cSet": {"transactionId": 4, "key": "c", "value": 1, "version": 0}}, {"pDelete": {"transactionId": 5, "requestPattern": "a/?", "quiet": None}},
         {"subscribe": {"transactionId": 6, "key": "a/b", "unique": False}}, {"pSubscribe": {"transactionId": 7, "requestPattern": "a/#", "unique": True}},
         {"lock": {"transactionId": 8, "key": "l"}}, {"acquireLock": {"transactionId": 9, "key": "l"}}, {"releaseLock": {"transactionId": 10, "key": "l"}},
         {"releaseLock": {"transactionId": 11, "key": "never/locked/deep"}}, {"ls": {"transactionId": 12, "parent": None}}, {"subscribeLs": {"transactionId": 13, "parent": "a"}},
         {"delete": {"transactionId": 14, "key": "a/b"}}, {"cSet": {"transactionId": 15, "key": "x/y/z", "value": 1, "version": 9}},
         {"set": {"transactionId": 16, "key": "v", "value": None}}, {"unsubscribe": {"transactionId": 6}}, {"transform": {"transactionId": 17, "key": "a", "template": {}}},
         {"protocolSwitchRequest": {"version": 0}}, {"protocolSwitchRequest": {"version": 7}}, {"protocolSwitchRequest": {"version": 4294967295}}, {"protocolSwitchRequest": {"version": 2}},
         {"authorizationRequest": {"authToken": "not.a.token"}}, {"sPubInit": {"transactionId": 18, "key": "s"}}, {"sPub": {"transactionId": 18, "value": 1}}]
ODD_KEYS = ["", "/", "//", "a//b", "?", "#", "a/#/b", "#/#", "$SYS", "$SYS/clients", "\u0000", "x" * 3000, "/".join(["d"] * 300), "é🙂", " ", "a/ /b"]

def mutate(r, m):
    """structurally valid JSON that is semantically odd, or broken text"""
    x = r.randrange(20)
    text = jd(m)
    name0 = next(iter(m))
    if x == 12:                                                                     # serde_json's recursion limit: 127 levels pass, 128 do not
        d = r.choice([124, 125, 126, 127])
        return ("raw", "{\"set\":{\"transactionId\":1,\"key\":\"a\",\"value\":" + "[" * d + "]" * d + "}}")
    if x == 13:                                                                     # duplicate and unknown fields
        inner = jd(m[name0])
        extra = r.choice(['"transactionId":7', '"key":"dup"', '"zzz":[1,{"a":null}]', '"value":1'])
        inner2 = inner[:-1] + ("," if len(inner) > 2 else "") + extra + "}"
        return ("raw", "{" + json.dumps(name0) + ":" + inner2 + "}")
    if x == 14:                                                                     # number spellings
        lit = r.choice(["1e999", "-1e999", "01", "-0", "1.0", "1e2", "0x10", "+1", "1.", ".5", "18446744073709551616", "18446744073709551615", "-1", "1E+2", "NaN", "Infinity"])
        if r.random() < 0.5:
            return ("raw", "{\"set\":{\"transactionId\":%s,\"key\":\"a\",\"value\":1}}" % lit)
        return ("raw", "{\"set\":{\"transactionId\":1,\"key\":\"a\",\"value\":%s}}" % lit)
    if x == 15:                                                                     # bytes that are not UTF-8, stray control characters, escapes
        body = r.choice([b"\xff\xfe", b"\xc3\x28", b"\xed\xa0\x80", b"a\x01b", b"a\tb", b"\\ud800", b"\\udc00", b"\\ud83d\\ude00", b"\\u0000", b"\\x41", b"\xf0\x9f\x98\x80"])
        return ("raw", b"{\"set\":{\"transactionId\":1,\"key\":\"k" + body + b"\",\"value\":1}}")
    if x == 16:                                                                     # trailing text, two messages on one line, leading BOM / whitespace
        return ("raw", r.choice([text + " x", text + text, text + " ", "  " + text, "\ufeff" + text, text + ",", "[" + text + "]", text[:-1]]))
    if x == 17:                                                                     # variant body of the wrong shape
        return ("raw", "{" + json.dumps(name0) + ":" + r.choice(["null", "[]", "[1,2,3]", "\"s\"", "1", "true", "{}"]) + "}")
    if x == 18:                                                                     # two variants in one object, literals misspelled
        return ("raw", r.choice(['{"get":{"transactionId":1,"key":"a"},"set":{"transactionId":2,"key":"a","value":1}}', '{"get":{"transactionId":1,"key":"a"}}{}', 'nul', 'tru', 'falsey', '{"get":{"transactionId":1,"key":nul}}', '{"get":{"transactionId":1,"key":"a",}}', '{,}', '{"get"}']))
    if x == 19:
        return ("send", {name0: m[name0], "extra": 1})
    if x == 0: return ("raw", text[:r.randint(1, len(text) - 1)])                 # truncated
    if x == 1: return ("raw", text.replace(":", "=", 1))
    if x == 2: return ("raw", "[" * 300 + "]" * 300)                               # deep nesting
    if x == 3: return ("raw", r.choice(["", " ", "null", "42", "\"str\"", "[]", "{}", "true", "{\"a\":1}", "{\"set\":null}", "{\"set\":[]}", "{\"set\":{}}"]))
    if x == 4:
        name = next(iter(m)); body = dict(m[name])
        k = r.choice(list(body)); body[k] = r.choice([None, -1, 1.5, 2**64, "s", [], {}, True, "9" * 40])
        return ("send", {name: body})
    if x == 5:
        name = next(iter(m)); body = dict(m[name])
        for k in body:
            if k in ("key", "requestPattern", "parent", "parentPattern"): body[k] = r.choice(ODD_KEYS)
        return ("send", {name: body})
    if x == 6:
        name = next(iter(m)); body = dict(m[name]); body["transactionId"] = r.choice([0, 2**64 - 1, 2**63, 2**53 + 1])
        return ("send", {name: body})
    if x == 7:
        name = next(iter(m)); body = dict(m[name])
        if "version" in body: body["version"] = r.choice([2**64 - 1, 2**64 - 2, 2**63])
        if "value" in body: body["value"] = r.choice([{"a": {"b": {"c": [[[[1]]]]}}}, "x" * 5000, [0] * 500, {"Cas": [1, 2]}, None])
        return ("send", {name: body})
    if x == 8: return ("raw", "{\"set\":{\"transactionId\":1,\"key\":\"a\",\"value\":" + "[" * 200 + "]" * 200 + "}}")
    if x == 9: return ("raw", "ÿ\u0000\u0001 not json at all")
    if x == 10: return ("send", {next(iter(m)) + "X": m[next(iter(m))]})
    return ("send", m)

def gen_case(seed):
    r = random.Random(seed)
    ops = [("open", 0), ("open", 1), ("open", 2)]
    wt = 100
    attackers_open = {1: True, 2: True}
    for _ in range(r.randint(8, 40)):
        x = r.random()
        if x < 0.3:
            wt += 1
            ops += [("send", 0, {"set": {"transactionId": wt, "key": f"witness/{wt}", "value": wt}}), ("send", 0, {"get": {"transactionId": wt + 1000, "key": f"witness/{wt}"}})]
        else:
            s = r.choice([1, 2])
            if not attackers_open[s] and r.random() < 0.5:
                ops.append(("open", s)); attackers_open[s] = True; continue
            kind, payload = mutate(r, r.choice(VALID))
            ops.append((kind, s, payload))
    wt += 1
    ops += [("send", 0, {"set": {"transactionId": wt, "key": "witness/final", "value": wt}}), ("send", 0, {"get": {"transactionId": wt + 1000, "key": "witness/final"}})]
    return ops

def odd_key_table():
    """every request kind that names a key, a pattern or a parent, with every odd key once (not left to chance): after each
    batch the witness must still be served"""
    kinds = [("get", "key", {}), ("cGet", "key", {}), ("set", "key", {"value": 1}), ("cSet", "key", {"value": 1, "version": 0}), ("delete", "key", {}), ("publish", "key", {"value": 1}),
             ("sPubInit", "key", {}), ("subscribe", "key", {"unique": False}), ("lock", "key", {}), ("acquireLock", "key", {}), ("releaseLock", "key", {}),
             ("pGet", "requestPattern", {}), ("pDelete", "requestPattern", {"quiet": None}), ("pSubscribe", "requestPattern", {"unique": False}),
             ("ls", "parent", {}), ("subscribeLs", "parent", {}), ("pLs", "parentPattern", {})]
    keys = [k for k in ODD_KEYS if len(k) < 500] + ["a/", "/a", "a/b/", "///", "?/", "#/", "a/?/", "$SYS/", "$SYS/clients/"]
    cases = []
    for kind, field, extra in kinds:
        ops = [("open", 0), ("open", 1), ("send", 0, {"set": {"transactionId": 100, "key": "witness/100", "value": 100}})]
        t = 0
        for k in keys:
            t += 1
            ops.append(("send", 1, {kind: {"transactionId": t, field: k, **extra}}))
        ops += [("send", 0, {"set": {"transactionId": 101, "key": "witness/101", "value": 101}}), ("send", 0, {"get": {"transactionId": 1101, "key": "witness/101"}})]
        cases.append((f"odd-{kind}", ops))
    return cases

def witness_oracle(ops, lines):
    """the server keeps running and the well-behaved session keeps being answered correctly"""
    if any(l in ("HARNESS-FAILURE", "crash") for l in lines) or len(lines) < len(ops):
        if lines and ":noanswer" in lines[-1]:
            return (len(lines) - 1, f"the request {str(ops[len(lines) - 1])[:200]} was not answered within 20 s: the server no longer serves its clients")
        return (min(len(lines), len(ops)) - 1, "the server (or the harness talking to it) went down")
    for i, (op, line) in enumerate(zip(ops, lines)):
        got = [(s, decode_msg(t)) for s, t in parse_out(line)]
        if any(s == 0 and m == "closed" for s, m in got):
            return (i, f"the witness session was closed after {op}")
        if op[0] == "send" and op[1] == 0:
            m = op[2]; kind = next(iter(m)); t = m[kind]["transactionId"]
            mine = [x for s, x in got if s == 0]
            if kind == "set" and {"ack": {"transactionId": t}} not in mine:
                return (i, f"the witness's set was not acknowledged: {mine}")
            if kind == "get" and {"state": {"transactionId": t, "value": t - 1000}} not in mine:
                return (i, f"the witness's get returned {mine}, expected value {t - 1000}")
    return None

CFG = {}
def RR(o): return f"fill {o[1]} {o[2]} {o[3]}" if o[0] == "fill" else R(o)
def bulk_cases():
    """large states against small channels: every channel of the server has room for `buf` messages only (the capacity is
    configuration: WORTERBUCH_CHANNEL_BUFFER_SIZE), one client fills a subtree with hundreds of keys and then asks for all of
    it at once in every way the protocol offers (pattern subscription with snapshot, pGet, pLs, subscribeLs, pDelete), with
    another subscriber watching; the witness must be answered throughout"""
    out = []
    for buf, n in ((1, 260), (2, 450), (4, 1030)):
        nm = f"bulk-buf{buf}-{n}"
        CFG[nm] = f"cfg auth=0 buf={buf}"
        W = lambda t: [("send", 0, {"set": {"transactionId": 100 + t, "key": f"witness/{100 + t}", "value": 100 + t}}), ("send", 0, {"get": {"transactionId": 1100 + t, "key": f"witness/{100 + t}"}})]
        ops = [("open", 0), ("open", 1), ("open", 2), ("fill", 1, "big", n)] + W(1)
        ops += [("send", 2, {"pSubscribe": {"transactionId": 5, "requestPattern": "big/#", "unique": False, "liveOnly": False}})] + W(2)
        ops += [("send", 1, {"pGet": {"transactionId": 2000, "requestPattern": "big/?"}})] + W(3)
        ops += [("send", 1, {"subscribeLs": {"transactionId": 2001, "parent": "big"}})] + W(4)
        ops += [("send", 1, {"pLs": {"transactionId": 2002, "parentPattern": "?"}})] + W(5)
        ops += [("send", 1, {"pSubscribe": {"transactionId": 2003, "requestPattern": "#", "unique": True, "liveOnly": False}})] + W(6)
        ops += [("send", 1, {"pDelete": {"transactionId": 2004, "requestPattern": "big/#", "quiet": None}})] + W(7)
        ops += [("close", 1)] + W(8)
        out.append((nm, ops))
    return out

def run(v, tier, seed):
    work = os.path.join(WORK, ID); os.makedirs(work, exist_ok=True)
    n = 120 if tier == "quick" else 3000
    cases = [(f"m{i}", gen_case(seed * 6151 + i)) for i in range(n)]
    corpus = [("F7-release-unlocked", [("open", 0), ("open", 1), ("send", 1, {"releaseLock": {"transactionId": 1, "key": "a/b"}}), ("send", 1, {"lock": {"transactionId": 2, "key": "y"}}),
                                       ("send", 1, {"releaseLock": {"transactionId": 3, "key": "y"}}), ("send", 0, {"set": {"transactionId": 101, "key": "witness/101", "value": 101}}), ("send", 0, {"get": {"transactionId": 1101, "key": "witness/101"}})]),
              ("F1-rejected-cset", [("open", 0), ("open", 1), ("send", 1, {"cSet": {"transactionId": 1, "key": "p/q/r", "value": 1, "version": 5}}), ("send", 1, {"set": {"transactionId": 2, "key": "z", "value": 1}}),
                                    ("send", 1, {"delete": {"transactionId": 3, "key": "z"}}), ("send", 0, {"set": {"transactionId": 101, "key": "witness/101", "value": 101}}), ("send", 0, {"get": {"transactionId": 1101, "key": "witness/101"}})])]
    cases = corpus + odd_key_table() + bulk_cases() + cases
    cpath = os.path.join(work, "cases.txt")
    write_cases(cpath, [(nm, [CFG.get(nm, "cfg auth=0")] + [RR(o) for o in ops]) for nm, ops in cases])
    impl, model = run_engine("session", "session_driver", cpath, work)
    A, B = read_obs(impl), read_obs(model)
    A = {nm: align_closed(A[nm], B.get(nm, [])) for nm in A}
    # projection: what the witness session sees, and which sessions were closed at which step
    def proj(line):
        if line == "ok": return line
        items = [(s, t) for s, t in parse_out(canon_session_line(line)) if s == 0 or t == "closed"]
        return " ".join(f"{s}:{t}" for s, t in items)
    diffs = [(nm, i) for nm, _ in cases for i, (x, y) in enumerate(zip(A[nm], B.get(nm, []))) if proj(x) != proj(y)]
    nontrivial, samples, closed, lines_sent = set(), [], 0, 0
    for nm, ops in cases:
        lines = A[nm][1:]
        bad = witness_oracle(ops, lines)
        c = sum(l.count(":closed") for l in lines)
        closed += c
        lines_sent += sum(1 for o in ops if o[0] in ("send", "raw"))
        if c: nontrivial.add(nm)
        if bad:
            step, msg = bad
            v.violation({"what": msg, "case": nm, "engine": "session", "driver": "session_driver", "ops": [CFG.get(nm, "cfg auth=0")] + [RR(o) for o in ops[:step + 1]], "ops_readable": [str(o)[:300] for o in ops[max(0, step - 6):step + 1]]})
            if len(v.violations) >= 3: break
        if len(samples) < 2 and c >= 2:
            samples.append({"case": nm, "attacker_lines": [str(o)[:120] for o in ops if o[0] in ("send", "raw") and o[1] != 0][:6]})
    if diffs and not v.violations:
        nm, i = diffs[0]
        ops = dict(cases)[nm]
        v.violation({"what": "model and implementation disagree on what the witness session sees or on which session is closed; the server stayed up and the witness was served correctly", "case": nm,
                     "engine": "session", "driver": "session_driver", "ops": [CFG.get(nm, "cfg auth=0")] + [RR(o) for o in ops[:i]], "last_op": str(ops[i - 1])[:300] if i > 0 else None,
                     "impl": proj(A[nm][i]), "model": proj(B[nm][i]), "disagreeing_cases": len(set(n_ for n_, _ in diffs)),
                     "broken_obligation": "correspondence session/C17 (Model/Session.v sstep SGarbage/close_session; decoder agreement on malformed input)"}, no_input=True)
    v.cov.update({"evaluations": len(cases), "distinct_nontrivial": len(nontrivial), "disagreements": len(diffs), "lines_sent": lines_sent, "sessions_closed_by_server": closed,
                  "rule": f"a table of every key-, pattern- or parent-naming request kind with every odd key (empty, slashes only, trailing and leading slash, wildcards in odd places, $SYS, control characters, 300 levels) + a real in-process server (debug build: the developers' debug assertions are on) with a unix endpoint; a well-behaved witness session interleaved with two attacker sessions sending {n} random sequences of truncated / non-JSON / deeply nested lines, valid messages with absurd keys (empty, only separators, 3000-byte, 300-level, NUL, wildcards everywhere), ids and versions at the u64 boundary, huge and deeply nested values, unknown variants, protocol-version switches, plus the corpus of the repaired crash sequences (F1, F7); oracle: the witness's set/get round trips keep succeeding and its session stays open; projection compared with the model: the witness's messages and which session closes when; non-trivial = at least one attacker session was closed by the server",
                  "samples": samples,
                  "not_covered": "panics inside serde_json, tokio, hashbrown, allocation failure and stack depth are exercised by this stream as a test only; they are not modelled"})
