"""C11 -- a follower converges to the leader's data."""
import json, os, random, re
from casefmt import write_cases, read_obs, xs, js, decode_tok
from common import *

ID = "C11"
NEEDS_SERVER = True
KEYS = ["a", "a/b", "a/c", "b", "g/x", "g/y/z", "w/1", "$SYS", "$SYS/x", "$SYSTEM/k", "é"]
PATS = ["a/#", "a/?", "g/#", "#", "?/x", "b", "$SYS/#", "w/?"]
gg = lambda c: f"$SYS/clients/@CID{c}@/graveGoods"
lw = lambda c: f"$SYS/clients/@CID{c}@/lastWill"

HTTP = {"r:http204": "r:err16", "r:http404": "r:err5", "r:http500": "r:err4", "r:http200": "r:ok", "r:state": "r:ok", "r:ack": "r:ok", "r:pState": "r:ok"}

def canon(line):
    return HTTP.get(line, line)

def canon_fwrite(op, line):
    # the REST interface of a follower answers with HTTP status codes, the model with protocol error codes
    return HTTP.get(line, line) if op.startswith("fwrite ") or op.startswith("import ") else line

def gen_case(seed, promote=False):
    r = random.Random(seed)
    ops = ["leader"]
    nclients = r.randint(1, 3)
    connected = set()
    followers = []
    lastval = {}
    def val(): return r.choice([1, 2, "s", {"k": [1]}, True, [1, "x"]])      # no null: neither the REST export nor the REST get can show a stored null (F8)
    def client_op():
        c = r.choice(sorted(connected)) if connected else None
        x = r.random()
        if c is None or x < 0.08:
            cands = [i for i in range(1, nclients + 1) if i not in connected]
            if cands:
                i = r.choice(cands); connected.add(i); return f"conn {i}"
            c = r.choice(sorted(connected))
        if x < 0.40: return f"set {c} {xs(r.choice(KEYS))} {js(val())}"
        if x < 0.55:
            k = r.choice(KEYS + [f'w/{c}', f'lw{c}/x', f'w/{c}'])
            # (half of the csets carry the value last written to that key: a renewal bumps the version without changing the value)
            vv = lastval.get(k, val()) if r.random() < 0.5 else val()
            lastval[k] = vv
            return f"cset {c} {xs(k)} {js(vv)} {r.choice([0, 0, 0, 1, 1, 2])}"      # also last-will keys: the will overrides CAS protection
        if x < 0.63: return f"del {c} {xs(r.choice(KEYS))}"
        if x < 0.70: return f"pdel {c} {xs(r.choice(PATS))}"
        if x < 0.80: return f"set {c} {xs(gg(c))} {js([r.choice(PATS) for _ in range(r.randint(0, 2))])}"
        if x < 0.90: return f"set {c} {xs(lw(c))} {js([{'key': r.choice([f'w/{c}', f'lw{c}/x', f'g/lw{c}']), 'value': val()} for _ in range(r.randint(0, 2))])}"
        if x < 0.93: return f"set {c} {xs(gg(r.randint(1, nclients)))} {js(['a/#'])}"          # somebody else's registration: refused
        if x < 0.96: return f"del {c} {xs(r.choice([gg(c), lw(c)]))}"                          # a registration withdrawn by deleting its key: the client stays connected
        if len(connected) > 0:
            connected.discard(c); return f"disc {c}"
        return f"set {c} {xs('a')} {js(1)}"
    n = r.randint(6, 30)
    join_at = sorted(r.sample(range(n + 1), r.choice([1, 1, 2])))
    for i in range(n + 1):
        while join_at and join_at[0] == i:
            join_at.pop(0)
            f = str(len(followers) + 1); followers.append(f); ops.append(f"join {f}")
            if r.random() < 0.3:
                ops += ["sync", "dump leader", f"dump {f}"]
        if i < n:
            ops.append(client_op())
            if followers and r.random() < 0.1:
                ops.append(f"fwrite {r.choice(followers)} {r.choice(['set', 'del', 'pdel', 'publish', 'get', 'import'])} {xs(r.choice(['a', 'a/b', 'b', 'q']))}")
            if followers and r.random() < 0.12:
                ops += ["sync", "dump leader"] + [f"dump {f}" for f in followers]
    ops += ["sync", "dump leader"] + [f"dump {f}" for f in followers]
    if promote:
        f = r.choice(followers)
        ops += [f"promote {f}", "dump leader"]
    return ops

def parse_dump(line):
    m = re.match(r"user\[(.*)\] reg\[(.*)\]$", line)
    if not m: return None
    return m.group(1), m.group(2)

def convergence_oracle(ops, lines, known=None):
    """the property itself, on the implementation's trace: at every quiescent point (after `sync`) every follower's
    dump equals the leader's -- user keys with values and versions, and the registrations of the connected clients;
    every write offered to a follower is refused"""
    last_leader = None
    imported_cas = False
    for i, (op, line) in enumerate(zip(ops, lines)):
        if op.startswith("import ") and '"Cas"' in bytes.fromhex(op.split(" ")[1][1:]).decode(): imported_cas = True
        if op == "sync" and line != "ok":
            return (i, f"the marker written on the leader never became visible on a follower ({line})")
        if op.startswith("promote"): last_leader = None
        if op == "dump leader": last_leader = (i, line)
        elif op.startswith("dump ") and last_leader is not None and ops[last_leader[0] - 1 if last_leader[0] > 0 else 0] is not None:
            if parse_dump(line) is None or parse_dump(last_leader[1]) is None:
                return (i, f"dump failed: {line[:80]} / {last_leader[1][:80]}")
            if line != last_leader[1]:
                lu, lr = parse_dump(last_leader[1]); fu, fr = parse_dump(line)
                if imported_cas and lr == fr and known:
                    a = {x.split("=")[0]: x for x in lu.split(";")}; b = {x.split("=")[0]: x for x in fu.split(";")}
                    if set(a) == set(b) and all(a[k].split(":")[-1] == b[k].split(":")[-1] for k in a):
                        known("F10b", "an imported CAS entry is mirrored as a forced cset with the imported version: the follower holds the value with another version (leader.rs try_forward_api_call, Import)")
                        continue
                what = "user keys" if lu != fu else "registrations"
                return (i, f"follower and leader differ in their {what} after the marker arrived: follower {decode_tok(line)[:600]} | leader {decode_tok(last_leader[1])[:600]}")
        if op.startswith("fwrite "):
            kind = op.split(" ")[2]
            if kind != "get" and canon(line) != "r:err16":
                return (i, f"a {kind} offered to a follower directly was answered {line}, not refused")
    return None

def run(v, tier, seed, prop=ID, promote=False, oracle=None):
    work = os.path.join(WORK, prop); os.makedirs(work, exist_ok=True)
    cases = []
    demo = [l for l in open(os.path.join(ROOT, "corpus", "F10a-F11-F21-demonstration-cases.txt")).read().split("\n") if l and not l.startswith("case ") and l != "end"]
    if not promote: demo = [l for l in demo if not l.startswith("promote")][:-1]
    cases.append(("F10a-F11-F21-demo", demo))
    cases.append(("will-overrides-cas", ["leader", "conn 1", "conn 2", "join 1", f"cset 2 {xs('w/1')} {js('held')} 0", f"cset 2 {xs('lw1/x')} {js(1)} 0", f"cset 2 {xs('lw1/x')} {js(2)} 1",
                                          f"set 1 {xs(lw(1))} {js([{'key': 'w/1', 'value': 'bye'}, {'key': 'lw1/x', 'value': 'gone'}, {'key': 'plain/k', 'value': 1}])}",
                                          f"set 1 {xs(gg(1))} {js(['g/#'])}", f"set 2 {xs('g/x')} {js(1)}", "sync", "dump leader", "dump 1", "disc 1", "sync", "dump leader", "dump 1"]
                  + (["promote 1", "dump leader"] if promote else [])))
    # writes that leave the value as it is are still writes: an accepted cset bumps the version, a cset turns a plain entry into a
    # CAS entry, a set turns a CAS entry back (refused) -- each must reach the follower
    cases.append(("same-value-writes", ["leader", "conn 1", "join 1", f"cset 1 {xs('lease')} {js('n1')} 0", f"cset 1 {xs('lease')} {js('n1')} 1", f"cset 1 {xs('lease')} {js('n1')} 2",
                                         f"set 1 {xs('p')} {js(5)}", f"cset 1 {xs('p')} {js(5)} 0", f"set 1 {xs('q')} {js(1)}", f"set 1 {xs('q')} {js(1)}",
                                         "sync", "dump leader", "dump 1", f"cset 1 {xs('lease')} {js('n2')} 3", f"cset 1 {xs('p')} {js(6)} 1", f"cset 1 {xs('lease')} {js('n2')} 1",
                                         "sync", "dump leader", "dump 1"] + (["promote 1", "dump leader"] if promote else [])))
    if not promote:
        cases.append(("F10b-cas-import", ["leader", "conn 1", "join 1", "import " + xs(json.dumps({"data": {"t": {"k": {"v": {"Cas": [1, 7]}}, "p": {"v": 2}}}})), "sync", "dump leader", "dump 1"]))
        cases.append(("F25-bad-import", ["leader", "conn 1", "join 1", "import " + xs(json.dumps({"t": {"k": {"v": 1}}})), "import " + xs("not json"), f"set 1 {xs('a')} {js(1)}", "sync", "dump leader", "dump 1"]))
    # a registration withdrawn by its (still connected) client: the follower must forget it too -- a promoted follower applies what it holds
    cases.append(("withdrawn-registration", ["leader", "conn 1", "conn 2", "join 1", f"set 1 {xs(gg(1))} {js(['jobs/#'])}", f"set 1 {xs(lw(1))} {js([{'key': 'w/1', 'value': 'bye'}])}",
                                              f"set 2 {xs(gg(2))} {js(['g/#'])}", f"set 2 {xs('jobs/1')} {js('running')}", f"set 2 {xs('g/x')} {js(1)}", "sync", "dump leader", "dump 1",
                                              f"del 1 {xs(gg(1))}", f"del 1 {xs(lw(1))}", "sync", "dump leader", "dump 1", "join 2", "sync", "dump leader", "dump 1", "dump 2"]
                  + (["promote 1", "dump leader"] if promote else [])))
    # every kind of write the REST interface of a follower offers, on a key the leader holds and on a new one: each refused,
    # follower and leader still equal afterwards
    cases.append(("follower-refuses-every-write", ["leader", "conn 1", "join 1", f"set 1 {xs('app/x')} {js(2)}", "sync"]
                  + [f"fwrite 1 {k} {xs(key)}" for k in ("set", "del", "pdel", "publish", "import") for key in ("app/x", "direct/new")]
                  + ["sync", "dump leader", "dump 1"] + (["promote 1", "dump leader"] if promote else [])))
    n = (24 if tier == "quick" else 400)
    cases += [(f"r{i}", gen_case(seed * 49979687 + i + (10**6 if promote else 0), promote)) for i in range(n)]
    cpath = os.path.join(work, "cases.txt")
    write_cases(cpath, cases)
    impl, model = run_engine("cluster", "cluster_driver", cpath, work)
    A, B = read_obs(impl), read_obs(model)
    diffs = []
    nsteps = 0
    for nm, ops in cases:
        la, lb = A.get(nm, []), B.get(nm, [])
        nsteps += len(la)
        for i, op in enumerate(ops):
            x = canon_fwrite(op, la[i]) if i < len(la) else "<missing>"
            y = canon_fwrite(op, lb[i]) if i < len(lb) else "<missing>"
            if op.startswith("fwrite") and op.split(" ")[2] == "get": continue      # a read on a follower between two markers races with the replication: not compared
            if x != y:
                diffs.append((nm, i, x, y)); break
    nontrivial = set()
    joins = dumps = 0
    for nm, ops in cases:
        lines = A.get(nm, [])
        joins += sum(1 for o in ops if o.startswith("join")); dumps += sum(1 for o in ops if o.startswith("dump"))
        if any(o.startswith("disc") for o in ops) and any(o.startswith("join") for o in ops): nontrivial.add(nm)
        bad = (oracle or convergence_oracle)(ops, lines, known=v.known)
        if bad:
            step, msg = bad
            v.violation({"what": msg, "case": nm, "engine": "cluster", "driver": "cluster_driver", "ops": ops[:step + 1], "ops_readable": [decode_tok(o) for o in ops[:step + 1]]})
            if len(v.violations) >= 3: break
    known_cases = {"F10b-cas-import"}
    diffs = [d for d in diffs if d[0] not in known_cases]
    if diffs and not v.violations:
        nm, step, x, y = diffs[0]
        ops = dict(cases)[nm]
        v.violation({"what": "cluster model and the real cluster disagree; follower and leader agreed at every quiescent point of every observed trace", "case": nm, "engine": "cluster", "driver": "cluster_driver",
                     "ops": ops[:step + 1], "ops_readable": [decode_tok(o) for o in ops[:step + 1]], "step": step, "impl": decode_tok(x)[:1500], "model": decode_tok(y)[:1500], "disagreeing_cases": len(diffs),
                     "broken_obligation": f"correspondence cluster/{prop} (Model/Sync.v lstep / fapply / fjoin / promote)"}, no_input=True)
    samples = [{"case": nm, "ops": [decode_tok(o) for o in ops][:40], "observed": [decode_tok(l)[:300] for l in A.get(nm, [])][:40]} for nm, ops in cases if nm in nontrivial][:2] or \
              [{"case": cases[0][0], "ops": [decode_tok(o) for o in cases[0][1]], "observed": [decode_tok(l)[:300] for l in A.get(cases[0][0], [])]}]
    v.cov.update({"evaluations": len(cases), "distinct_nontrivial": len(nontrivial), "steps": nsteps, "disagreements": len(diffs), "followers_joined": joins, "dumps_compared": dumps, "samples": samples,
                  "rule": f"leader and followers as child processes of the freshly built worterbuch binary, started with the orchestrator's argv (--leader --sync-port / --follower --leader-address, --instance-name) and configured through the environment only; clients are TCP connections; corpus (the F10a/F11/F21 demonstration" + ("" if promote else ", the CAS import of F10b") + f") + {n} random histories: 1..3 clients connecting, writing (set, cset, delete, pdelete on user keys, $SYS keys, `$SYS`, $SYSTEM), registering and re-registering grave goods and last wills (own and foreign), disconnecting; one or two followers joining at random positions; writes offered to followers over their REST interface; quiescence by a marker written on the leader and awaited on every follower; dumps (REST export: user keys with values and CAS versions; registrations) of leader and followers compared with each other (oracle) and with the model; non-trivial = a session ended after a follower had joined",
                  "not_covered": "TCP reordering or loss between leader and follower (one ordered stream is assumed), followers reconnecting after a leader change, the websocket interface of the leader"})
