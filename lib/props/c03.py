"""C03 -- a subscription delivers current state, then every matching change once, in order."""
import itertools, os, random
from casefmt import write_cases, decode_tok, read_obs
from common import *
from coreops import *
from eventspec import events_oracle
from gen import Gen

ID = "C03"
CORPUS = [
    ("basic", [("set", 1, "a/b", 1), ("psub", 2, 1, "a/#", False, False), ("sub", 2, 2, "a/b", True, False), ("psub", 3, 1, "?/b", True, True),
               ("set", 1, "a/b", 1), ("set", 1, "a/b", 2), ("cset", 1, "a/c", 2, 0), ("cset", 1, "a/c", 2, 1), ("pub", "a/b", 2), ("del", 1, "a/b"),
               ("pdel", 1, "a/#"), ("unsub", 2, 1), ("set", 1, "a/b", 3), ("unsub", 2, 1), ("unsub", 2, 2), ("set", 1, "a/b", 4)]),
    ("F2-fold", [("set", 1, "k", 1), ("set", 1, "k/x", 1), ("psub", 2, 1, "k/#", False, False), ("set", 1, "k", 2), ("set", 1, "k/x", 2), ("pget", "k/#")]),
    ("F24-dup-tid", [("sub", 2, 6, "x", False, True), ("sub", 2, 6, "y", False, True), ("set", 1, "x", 1), ("set", 1, "y", 1), ("unsub", 2, 6), ("set", 1, "y", 2), ("set", 1, "x", 2), ("unsub", 2, 6)]),
    ("spub", [("psub", 2, 1, "#", True, True), ("spubinit", 1, 7, "s/t"), ("spub", 1, 7, 1), ("spub", 1, 7, 1), ("spub", 1, 8, 1), ("spub", 2, 7, 1)]),
    ("import", [("cset", 1, "i", 1, 0), ("psub", 2, 1, "#", True, False), ("sub", 2, 2, "i", False, True), ("import", {"i": ("C", 1, 1), "j/k": ("P", 2)}),
                ("import", {"i": ("C", 1, 5)}), ("import", {"i": ("P", 1)})]),
]

WRITES = [("set", 1, "a", 1), ("set", 1, "a", 2), ("set", 1, "a/b", 1), ("cset", 1, "a", 1, 0), ("cset", 1, "a", 2, 1), ("del", 1, "a"), ("del", 1, "a/b"),
          ("pdel", 1, "a/#"), ("pdel", 1, "?"), ("pub", "a", 1), ("pub", "a/b", 3), ("import", {"a": ("P", 1), "a/b": ("P", 5)})]
SUBS = [("psub", "a/#"), ("psub", "?"), ("psub", "#"), ("sub", "a"), ("psub", "a/?"), ("sub", "a/b")]

def random_case(g, n):
    r = g.r
    ops, tids, active, lsn = [], {}, [], 0
    for _ in range(n):
        x = r.random(); c = g.client()
        if x < 0.12:
            t = tids.get(c, 0) + 1; tids[c] = t
            if active and r.random() < 0.08:
                c, t = r.choice(active)                      # a transaction id that is still subscribed (F24)
            if r.random() < 0.6:
                ops.append(("psub", c, t, g.pattern(), r.random() < 0.4, r.random() < 0.4))
            else:
                k = g.key()
                if any(s in ("?", "#") for s in k.split("/")): k = "a"
                ops.append(("sub", c, t, k, r.random() < 0.4, r.random() < 0.4))
            active.append((c, t))
        elif x < 0.17 and active:
            ops.append(("unsub",) + r.choice(active))
        elif x < 0.19:
            ops.append(("unsub", c, r.randint(1, 5)))
        elif x < 0.45: ops.append(("set", c, g.key(), r.choice([1, 2, "s", None, {"k": 1}])))
        elif x < 0.60: ops.append(("cset", c, g.key(), r.choice([1, 2]), r.choice([0, 0, 1, 1, 2])))
        elif x < 0.70: ops.append(("del", c, g.key()))
        elif x < 0.78: ops.append(("pdel", c, g.pattern()))
        elif x < 0.85: ops.append(("pub", g.key(), r.choice([1, 2])))
        elif x < 0.88: ops.append(("spubinit", c, 90 + r.randint(0, 2), g.key()))
        elif x < 0.92: ops.append(("spub", c, 90 + r.randint(0, 2), r.choice([1, 2])))
        elif x < 0.95:
            ents = {}
            for _ in range(r.randint(1, 3)):
                k = g.key()
                if any(s in ("?", "#") for s in k.split("/")) or k == "": continue
                ents[k] = ("P", r.choice([1, 2])) if r.random() < 0.6 else ("C", r.choice([1, 2]), r.randint(1, 3))
            ops.append(("import", ents))
        else: ops.append(("pget", g.pattern()))
    ops.append(("dump",))
    return ops

def rest_mix_case(seed):
    """socket sessions subscribe; writes arrive over the REST front end and over the sockets, interleaved: a subscriber gets its
    event whichever front end the change came through"""
    import random, sessionops
    from restcheck import rest_line
    r = random.Random(seed)
    R = sessionops.R
    ops = ["cfg auth=0", "open 0", "open 1", "open 2"]
    tid = {0: 0, 1: 0, 2: 0}
    def t(s): tid[s] += 1; return tid[s]
    ops.append(R(("send", 0, {"subscribe": {"transactionId": t(0), "key": "a/b", "unique": r.random() < 0.5}})))
    ops.append(R(("send", 1, {"pSubscribe": {"transactionId": t(1), "requestPattern": r.choice(["a/#", "a/?", "a/b/#"]), "unique": r.random() < 0.5}})))
    ops.append(R(("send", 2, {"subscribeLs": {"transactionId": t(2), "parent": r.choice([None, "a"])}})))
    val = lambda: r.choice([1, 2, "s", {"k": [1]}, True])
    for _ in range(r.randint(6, 20)):
        x = r.random(); k = r.choice(["a/b", "a/c", "b", "a/b/c"])
        if x < 0.30: ops.append(rest_line("none", "set", k, val()))
        elif x < 0.40: ops.append(rest_line("none", "delete", k))
        elif x < 0.48: ops.append(rest_line("none", "pdelete", r.choice(["a/?", "a/#", "b"])))
        elif x < 0.55: ops.append(rest_line("none", "publish", k, val()))
        elif x < 0.62: ops.append(rest_line("none", "import", None, {"data": {"t": {"a": {"t": {r.choice(["b", "i"]): {"v": val()}}}}}}))
        elif x < 0.70: ops.append(rest_line("none", "get", k))
        elif x < 0.85:
            s_ = r.randrange(3); ops.append(R(("send", s_, {"set": {"transactionId": t(s_), "key": k, "value": val()}})))
        elif x < 0.92:
            s_ = r.randrange(3); ops.append(R(("send", s_, {"delete": {"transactionId": t(s_), "key": k}})))
        else:
            ops.append(R(("send", 0, {"unsubscribe": {"transactionId": 1}})))
    ops.append(rest_line("none", "pget", "a/#"))
    return ops

def run_rest_mix(v, tier, seed, work):
    import sessionops
    n = 12 if tier == "quick" else 200
    cases = [(f"mix{i}", rest_mix_case(seed * 433494437 + i)) for i in range(n)]
    cpath = os.path.join(work, "restmix.txt")
    write_cases(cpath, cases)
    impl, model = run_engine("session", "session_driver", cpath, work, tag="-restmix")
    A, B = read_obs(impl), read_obs(model)
    def canon(line):
        if line == "ok": return line
        items = line.split(" ")
        rest = [x for x in items if x.startswith("rest:")]
        other = " ".join(x for x in items if x and not x.startswith("rest:"))
        # (an export's body is the subject of C09; here only its status)
        rest = [("rest:200:export" if x.startswith("rest:200:j") and False else x) for x in rest]
        return " ".join(rest) + " | " + (sessionops.canon_session_line(other) if other else "")
    events = 0
    for nm, ops in cases:
        la = A.get(nm, []); lb = B.get(nm, [])
        if len(la) < len(ops) or la[0] != "ok":
            v.violation({"what": "the session engine did not complete this case", "case": nm, "engine": "session", "driver": "session_driver", "ops": ops, "broken_obligation": "correspondence session+rest/C03"}, no_input=True)
            return {}
        events += sum(l.count(":j") for l in la)
        for i, (x, y) in enumerate(zip(la, lb)):
            if canon(x) != canon(y):
                # the independent statement: a REST write that was served and concerns a live subscription is followed by its event
                v.violation({"what": "a write over the REST front end and the events of socket subscribers: server and model disagree", "case": nm, "engine": "session", "driver": "session_driver",
                             "ops": ops[:i + 1], "impl": x[:800], "model": y[:800],
                             "broken_obligation": "correspondence session+rest/C03 (Model/RestWorld.v wrest over Model/Session.v route_events)"}, no_input=True)
                return {}
    return {"rest_mix_cases": len(cases), "rest_mix_messages": events}

def run(v, tier, seed):
    work = os.path.join(WORK, ID); os.makedirs(work, exist_ok=True)
    cases = list(CORPUS)
    # exhaustive: every history of <= L writes with one subscription (each kind, unique x live) taken at every position
    L = 2 if tier == "quick" else 3
    n_exh = 0
    for n in range(1, L + 1):
        for t in itertools.product(WRITES, repeat=n):
            for (sk, pat) in SUBS:
                for unique, live in ((False, False), (True, False), (False, True), (True, True)) if n < 3 else ((True, False), (False, True)):
                    for pos in range(n + 1):
                        ops = list(t[:pos]) + [(sk, 2, 1, pat, unique, live)] + list(t[pos:])
                        if n >= 2 and pos < n - 1 and (n_exh % 3 == 0):
                            ops.insert(n, ("unsub", 2, 1))
                        cases.append((f"x{n_exh}", ops)); n_exh += 1
    nrand = 1500 if tier == "quick" else 30000
    for i in range(nrand):
        g = Gen(seed * 104729 + i, segs=["a", "b", "", "é"], depth=3, wild_in_keys=0.0)
        cases.append((f"r{i}", random_case(g, g.r.randint(10, 100))))
    cpath = os.path.join(work, "cases.txt")
    write_cases(cpath, [(n, [render(o) for o in ops]) for n, ops in cases])
    impl, model = run_engine("core", "core_driver", cpath, work)
    ncases, nsteps, diffs, A, B = compare_obs(impl, model, project=canon_line)
    nontrivial, samples, nev = set(), [], 0
    for name, ops in cases:
        lines = A.get(name, [])
        bad = events_oracle(ops, lines, known=v.known)
        e = sum(len(events_of(l)) for l in lines)
        nev += e
        if e >= 2: nontrivial.add(tuple(map(str, ops)))
        if bad:
            step, msg = bad
            def fails(cand):
                wc = os.path.join(work, "shrink.txt")
                write_cases(wc, [("s", [render(o) for o in cand])])
                i2, _ = run_engine("core", "core_driver", wc, work, tag="-shrink")
                return events_oracle(cand, read_obs(i2)["s"]) is not None
            small = shrink(ops[:step + 1], fails)
            v.violation({"what": msg, "case": name, "ops": [render(o) for o in small], "ops_readable": [str(o) for o in small]})
            if len(v.violations) >= 3: break
        if len(samples) < 2 and name.startswith("r") and e > 5:
            samples.append({"case": name, "ops": [str(o) for o in ops[:10]], "observed": [decode_tok(l) for l in lines[:10]]})
    if diffs and not v.violations:
        name, step, x, y = diffs[0]
        ops = dict(cases)[name]
        v.violation({"what": "model and implementation disagree; the event specification accepts every observed trace", "case": name,
                     "ops": [render(o) for o in ops[:step + 1]], "step": step, "impl": decode_tok(x), "model": decode_tok(y), "disagreeing_cases": len(diffs),
                     "broken_obligation": "correspondence core/C03 (Model/Core.v notify, do_subscribe, do_psubscribe; Model/Subs.v)"}, no_input=True)
    mix = run_rest_mix(v, tier, seed, work) if not v.violations else {}
    if not v.violations:
        import storm
        v.cov["concurrent"] = storm.run_storms(v, tier, seed, work, "-c03", "For C03: current state, then every matching change once, in the order the server applied them, on the socket.")
    v.cov.update({"evaluations": ncases, "distinct_nontrivial": len(nontrivial), "steps": nsteps, "disagreements": len(diffs), "events_observed": nev, **mix,
                  "rest_mix_rule": "three socket sessions of a real in-process server subscribe (key, pattern, ls); sets, deletes, pattern deletes, publishes, imports arrive over the REST front end, interleaved with socket writes: the REST answer and every message on every socket are compared with Model/RestWorld.v (a REST request runs on the one core, its traffic is routed to the sessions)",
                  "rule": f"corpus + every history of <= {L} writes over a {len(WRITES)}-op alphabet with a subscription (6 key/pattern shapes x unique x live-only) inserted at every position, unsubscribe inserted in a third of them ({n_exh} histories) + {nrand} random histories (subscribe/psubscribe/unsubscribe/spub/publish/import mixed with writes, several clients); non-trivial = at least two events delivered",
                  "samples": samples})
