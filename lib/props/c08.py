"""C08 -- clients cannot alter or fake the server's $SYS information."""
import itertools, os, random
from casefmt import write_cases, decode_tok, read_obs
from common import *
from coreops import *
from mapspec import MapSpec
from sysguard import *
from gen import uuid

ID = "C08"
SETUP = [("set", 0, "$SYS/sentinel", "s1", True), ("set", 0, "$SYS/sentinel/deep", "s2", True), ("set", 0, "$SYS/version", "v", True),
         ("conn", 1), ("conn", 2), ("set", 2, f"$SYS/clients/{uuid(2)}/graveGoods", ["keep/#"]), ("set", 0, "user/x", 1, True),
         ("psub", 0, 1, "$SYS/#", False, True), ("psub", 0, 2, "$SYS", False, True), ("dump",)]
N_SETUP = len(SETUP)

def shapes(depth):
    firsts = ["$SYS", "?", "#", "user", "$SYSTEM"]
    conts = ["clients", uuid(1), uuid(2), "graveGoods", "lastWill", "clientName", "sentinel", "deep", "version", "?", "#", "x"]
    out = []
    for f in firsts:
        out.append([f])
        for n in range(1, depth):
            for t in itertools.product(conts, repeat=n):
                # prune: keep continuations that can name something under $SYS
                if n >= 2 and t[0] not in ("clients", "sentinel", "?", "#"): continue
                if n >= 3 and t[1] not in (uuid(1), uuid(2), "?", "#", "deep"): continue
                out.append([f] + list(t))
    return ["/".join(s) for s in out]

def request_variants(k):
    c = 1
    return [
        [("set", c, k, "evil")], [("cset", c, k, "evil", 0)], [("cset", c, k, "evil", 1)], [("del", c, k)], [("pdel", c, k)],
        [("pub", k, "fake")], [("spubinit", c, 5, k), ("spub", c, 5, "fake")], [("lock", c, k), ("rel", c, k)], [("acq", c, k)],
        [("set", c, f"$SYS/clients/{uuid(1)}/graveGoods", [k]), ("disc", c)],
        [("set", c, f"$SYS/clients/{uuid(1)}/lastWill", [[k, "evil"]]), ("disc", c)],
    ]

def sys_state(dump_res):
    sp = MapSpec(); sp.load_dump(dump_res)
    return {"/".join(k): e for k, e in sp.m.items() if k[0] == "$SYS"}

def sys_oracle(ops, lines, known=None):
    """between two dumps, the client requests in between must leave every protected $SYS key as it was, and the
    internal observer of $SYS must see no event for a protected key -- except the server's own bookkeeping at
    connect/disconnect ($SYS/clients and $SYS/clients/<that client>/..)"""
    prev = None
    pending = []     # (step, op, events) since the last dump
    gg = {}          # client -> grave goods it registered (accepted set on its graveGoods key)
    def wild_gg(c):
        return any(isinstance(p, str) and p.split("/")[0] in ("?", "#") for p in (gg.get(c) or []))
    for i, op in enumerate(ops):
        if op[0] == "set" and i < len(lines) and res_of(lines[i]) == "ok" and op[1] != 0 and op[2] == f"$SYS/clients/{uuid(op[1])}/graveGoods":
            gg[op[1]] = op[3] if isinstance(op[3], list) else None
        if i >= len(lines): return (i, "implementation stopped answering")
        r = res_of(lines[i])
        if r == "crash": return (i, "implementation crashed")
        if op[0] == "dump":
            cur = sys_state(r)
            if prev is not None:
                actors = [o for _, o, _ in pending]
                clients = {o[1] for o in actors if o[0] not in ("pub", "get", "cget", "pget", "ls", "pls", "len") and isinstance(o[1], int)}
                for key in set(prev) | set(cur):
                    if prev.get(key) == cur.get(key): continue
                    allowed = False
                    for o in actors:
                        if o[0] in ("conn", "disc") and (key == "$SYS/clients" or key.startswith(f"$SYS/clients/{uuid(o[1])}")): allowed = True
                        if o[0] in ("set", "cset", "del", "pdel") and (o[1] == 0 or not is_protected(key, o[1])): allowed = True
                        if o[0] == "disc" and not is_protected(key, o[1]): allowed = True
                    if allowed: continue
                    # known classes
                    f4 = [o for o in actors if (o[0] == "pdel" and o[2].split("/")[0] in ("?", "#")) or (o[0] == "disc" and wild_gg(o[1]))]
                    if f4 and cur.get(key) is None:
                        if known: known("F4", "the $SYS guard looks at the literal first segment: a client pdelete (or grave good) whose first segment is a wildcard deletes protected $SYS keys (worterbuch.rs:1487-1520, 918-924)")
                        continue
                    return (i, f"protected key {key!r} changed from {prev.get(key)} to {cur.get(key)} by client requests {[str(o) for o in actors]}")
                for step, o, evs in pending:
                    for e in evs:
                        keys = list(kvs_of(e[2]).keys()) if e[1] in ("PV", "PD") else []
                        for key in keys:
                            if o[0] in ("conn", "disc") and (key == "$SYS/clients" or key.startswith(f"$SYS/clients/{uuid(o[1])}")): continue
                            if o[0] in ("set", "cset", "del", "pdel") and (o[1] == 0 or not is_protected(key, o[1])): continue
                            if o[0] == "disc" and not is_protected(key, o[1]): continue
                            if o[0] in ("pub", "spub"):
                                if known: known("F5", "publish / spub have no read-only check: a client can make subscribers of a protected $SYS key see an arbitrary value (worterbuch.rs:438-445)")
                                continue
                            if (o[0] == "pdel" and o[2].split("/")[0] in ("?", "#")) or (o[0] == "disc" and e[1] == "PD" and wild_gg(o[1])):
                                if known: known("F4", "the $SYS guard looks at the literal first segment: a client pdelete (or grave good) whose first segment is a wildcard deletes protected $SYS keys (worterbuch.rs:1487-1520, 918-924)")
                                continue
                            return (step, f"a subscriber of $SYS saw {decode_tok(str(e))} for protected key {key!r}, caused by {o}")
            prev = cur; pending = []
        else:
            pending.append((i, op, [e for e in events_of(lines[i]) if e[0] in (0, 1)]))
    return None

def run(v, tier, seed):
    work = os.path.join(WORK, ID); os.makedirs(work, exist_ok=True)
    cases = []
    depth = 3 if tier == "quick" else 4
    ks = shapes(depth)
    # the per-client entries: own id, another connected client's id, an id nobody has, a wildcard -- each field, and a level below it
    for cid in (uuid(1), uuid(2), uuid(9), "?"):
        for field in ("graveGoods", "lastWill", "clientName", "protocol", "address", "subscriptions", "x", "?", "#"):
            for suffix in ("", "/x"):
                k = f"$SYS/clients/{cid}/{field}{suffix}"
                if k not in ks: ks.append(k)
    n = 0
    for k in ks:
        for var in request_variants(k):
            cases.append((f"x{n}", SETUP + var + [("dump",)])); n += 1
    rnd = random.Random(seed)
    nrand = 300 if tier == "quick" else 5000
    for i in range(nrand):
        ops = list(SETUP)
        for _ in range(rnd.randint(3, 15)):
            ops += rnd.choice(request_variants(rnd.choice(ks)))[:1] if rnd.random() < 0.7 else [("disc", rnd.choice([1, 2])), ("dump",), ("conn", rnd.choice([1, 2]))]
            ops.append(("dump",))
        cases.append((f"r{i}", ops))
    cpath = os.path.join(work, "cases.txt")
    write_cases(cpath, [(nm, [render(o) for o in ops]) for nm, ops in cases])
    impl, model = run_engine("core", "core_driver", cpath, work)
    ncases, nsteps, diffs, A, B = compare_obs(impl, model, project=canon_line)
    nontrivial, samples = set(), []
    rejected = 0
    for name, ops in cases:
        lines = A.get(name, [])
        bad = sys_oracle(ops, lines, known=v.known)
        rj = sum(1 for l in lines[N_SETUP:] if res_of(l) == "err 9")
        rejected += rj
        if rj: nontrivial.add(tuple(map(str, ops[N_SETUP:])))
        if bad:
            step, msg = bad
            v.violation({"what": msg, "case": name, "ops": [render(o) for o in ops[:step + 1]], "ops_readable": [str(o) for o in ops[N_SETUP:step + 1]], "setup": [str(o) for o in SETUP]})
            if len(v.violations) >= 3: break
        if len(samples) < 2 and rj:
            samples.append({"case": name, "request": [str(o) for o in ops[N_SETUP:]], "observed": [decode_tok(l) for l in lines[N_SETUP:]]})
    if diffs and not v.violations:
        name, step, x, y = diffs[0]
        ops = dict(cases)[name]
        v.violation({"what": "model and implementation disagree; no protected key was altered or faked on any observed trace", "case": name,
                     "ops": [render(o) for o in ops[:step + 1]], "step": step, "impl": decode_tok(x), "model": decode_tok(y), "disagreeing_cases": len(diffs),
                     "broken_obligation": "correspondence core/C08 (Model/Core.v check_read_only and its call sites)"}, no_input=True)
    rstats = {}
    if not v.violations:
        import restcheck
        rstats = restcheck.check_sys(v, work, known=v.known)
    v.cov.update({"evaluations": ncases, "distinct_nontrivial": len(nontrivial), "steps": nsteps, "disagreements": len(diffs), "requests_refused_read_only": rejected, **rstats,
                  "rest_rule": "over the REST front end of a real server: set, delete, pdelete (literal and `$SYS/#`), a foreign grave-goods registration, the key `$SYS` and an import, then $SYS/version must read as before and none of the writes may have been served; `pdelete ?/version` is F4 again",
                  "rule": f"sentinel keys under $SYS planted by the internal client + internal psubscribe of $SYS/#; every key/pattern shape with first segment in {{$SYS,?,#,user}} and continuations to depth {depth} ({len(ks)} shapes) x 11 request kinds (set, cset v0/v1, delete, pdelete, publish, spub, lock, acquire, as grave good and as last will followed by disconnect), from client 1 against its own and client 2's entries, + {nrand} random sequences; projection: full store dump + events seen by the internal observer after every request; non-trivial = at least one request refused as read-only",
                  "samples": samples, "exhaustive": True})
