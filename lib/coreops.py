"""Structured core operations: rendering to case lines and the MapSpec oracle over an observed trace."""
from casefmt import Ops as O, xs, js, canon, decode_tok
from mapspec import MapSpec, segs, wf_pat, store_match

def render(op):
    k = op[0]
    f = {"get": O.get, "cget": O.cget, "pget": O.pget, "ls": O.ls, "pls": O.pls, "len": O.len, "set": O.set, "cset": O.cset,
         "del": O.delete, "pdel": O.pdelete, "pub": O.publish, "spubinit": O.spubinit, "spub": O.spub, "import": None,
         "sub": O.sub, "psub": O.psub, "unsub": O.unsub, "subls": O.subls, "unsubls": O.unsubls, "lock": O.lock,
         "acq": O.acq, "rel": O.rel, "conn": O.conn, "disc": O.disc, "dump": O.dump, "cgetr": O.cgetr, "csetr": O.csetr}[k]
    if k == "import":
        from gen import tree_of
        return O.imp(op[1] if isinstance(op[1], dict) and "data" in op[1] else tree_of(op[1]))
    return f(*op[1:])

def res_of(line):
    return line.split(" | ")[0]

def events_of(line):
    """-> list of (inst, kind, payload-token) in arrival order"""
    parts = line.split(" | ")
    if len(parts) < 2:
        return []
    out = []
    for tok in parts[1][3:].split(" "):
        if tok:
            inst, kind, payload = tok.split(":", 2)
            out.append((int(inst), kind, payload))
    return out

def ev_key(e):
    """the key an event is about ('' for state events and multi-key snapshots)"""
    if e[1] in ("PV", "PD") and ";" not in e[2] and "=" in e[2]:
        return e[2][1:-1].split("=")[0]
    return ""

def canon_line(line):
    """canonical form for comparing implementation and model: events of one request are ordered by
    (subscription, key) with the per-key arrival order kept (hash iteration only permutes different keys)"""
    parts = line.split(" | ")
    if len(parts) < 2:
        return line
    evs = sorted(events_of(line), key=lambda e: (e[0], ev_key(e)))
    parts[1] = "ev " + " ".join(f"{i}:{k}:{p}" for i, k, p in evs)
    return " | ".join(parts)

def kvs_of(tok):
    """'[x..=j..;...]' -> {key: canonical json text}"""
    inner = tok.strip()[1:-1]
    out = {}
    if inner:
        for item in inner.split(";"):
            k, v = item.split("=")
            out[bytes.fromhex(k[1:]).decode()] = bytes.fromhex(v[1:]).decode()
    return out

def names_of(tok):
    inner = tok.strip()[1:-1]
    return sorted(bytes.fromhex(x[1:]).decode() for x in inner.split(";")) if inner else []

def mapspec_oracle(ops, lines, check_acceptance=True):
    """replays the implementation's answers against MapSpec; returns None or (step, message)"""
    sp = MapSpec()
    mem = {}
    resync = False
    for i, op in enumerate(ops):
        if op[0] == "cgetr":
            r0 = res_of(lines[i]) if i < len(lines) else ""
            mem[(op[1], op[2])] = int(r0.split(" ")[1]) if r0.startswith("cval") else 0
            op = ("cget", op[2])
        elif op[0] == "csetr":
            op = ("cset", op[1], op[2], op[3], mem.get((op[1], op[2]), 0))
        if i >= len(lines):
            return (i, "implementation stopped answering (crash)")
        r = res_of(lines[i])
        if r == "crash":
            return (i, "implementation crashed")
        kind = op[0]
        ok = not r.startswith("err")
        if resync and kind not in ("dump", "conn", "disc"):
            continue
        if kind == "set":
            _, c, k, v, *rest = op
            force = rest[0] if rest else False
            if check_acceptance and not force and r == "ok" and sp.version(k) != 0:
                return (i, f"a plain set replaced the CAS-protected value of {k!r} (version {sp.version(k)})")
            if ok: sp.set(k, v)
        elif kind == "cset":
            _, c, k, v, ver, *rest = op
            force = rest[0] if rest else False
            if check_acceptance and not force and r in ("ok", "err 18"):
                expect_ok = (sp.version(k) == ver)
                if ok != expect_ok:
                    return (i, f"cset with version {ver} on a key whose version is {sp.version(k)} answered `{r}`")
            if ok: sp.cset(k, v, ver, force)
        elif kind == "del":
            if ok:
                want = sp.get(op[2])
                got = bytes.fromhex(r.split(" ")[1][1:]).decode()
                if want != got:
                    return (i, f"delete returned {got}, stored value was {want}")
                sp.delete(op[2])
            elif r == "err 5" and sp.get(op[2]) is not None:
                return (i, "delete answered NoSuchValue for a stored key")
        elif kind == "pdel":
            if ok:
                want = {"/".join(k): v for k, v in sp.pget(op[2]).items()}
                got = kvs_of(r[4:])
                if wf_pat(segs(op[2])) and want != got:
                    return (i, f"pdelete returned {got}, matching stored entries were {want}")
                sp.pdelete(op[2])
        elif kind == "import":
            if ok: sp.imp(op[1])
        elif kind == "get":
            want = sp.get(op[1])
            if ok and (want is None or bytes.fromhex(r.split(" ")[1][1:]).decode() != want):
                return (i, f"get answered {decode_tok(r)}, expected {want}")
            if r == "err 5" and want is not None:
                return (i, f"get answered NoSuchValue, expected {want}")
        elif kind == "cget":
            want = sp.get(op[1])
            if ok:
                _, ver, tok = r.split(" ")
                if want is None or bytes.fromhex(tok[1:]).decode() != want or int(ver) != sp.version(op[1]):
                    return (i, f"cget answered {decode_tok(r)}, expected {want} version {sp.version(op[1])}")
            if r == "err 5" and want is not None:
                return (i, f"cget answered NoSuchValue, expected {want}")
        elif kind == "pget":
            if ok and wf_pat(segs(op[1])):
                want = {"/".join(k): v for k, v in sp.pget(op[1]).items()}
                got = kvs_of(r[4:])
                if want != got:
                    return (i, f"pget returned {got}, expected {want}")
            if not ok and wf_pat(segs(op[1])):
                return (i, f"pget of a well-formed pattern answered {r}")
        elif kind == "ls":
            want = sp.ls(op[1])
            if ok and names_of(r[6:]) != (want or []) :
                return (i, f"ls returned {names_of(r[6:])}, expected {want}")
            if ok and want is None:
                return (i, "ls answered a list for a parent below which nothing is stored")
            if r == "err 5" and want is not None:
                return (i, f"ls answered NoSuchValue, expected {want}")
        elif kind == "pls":
            if ok and (op[1] is None or "#" not in segs(op[1])):
                want = sp.pls(op[1])
                if names_of(r[6:]) != want:
                    return (i, f"pls returned {names_of(r[6:])}, expected {want}")
        elif kind == "len":
            if r != f"len {len(sp.m)}":
                return (i, f"entry count answered {r}, expected {len(sp.m)}")
        elif kind in ("conn", "disc"):
            resync = True      # $SYS bookkeeping / burial: C07's business; the next dump resynchronises
        elif kind == "dump" and resync:
            sp.load_dump(r); resync = False
        elif kind == "dump":
            if r != sp.dump_token():
                return (i, f"stored content differs from the accepted writes: impl {decode_tok(r)} vs spec {decode_tok(sp.dump_token())}")
    return None

def shrink(ops, fails):
    """greedy delta debugging: remove ops while `fails(ops)` stays true"""
    cur = list(ops)
    n = 2
    while len(cur) >= 2:
        chunk = max(1, len(cur) // n)
        removed = False
        i = 0
        while i < len(cur):
            cand = cur[:i] + cur[i + chunk:]
            if cand and fails(cand):
                cur = cand; removed = True
            else:
                i += chunk
        if not removed:
            if chunk == 1: break
            n = min(len(cur), n * 2)
    return cur
