"""Concurrent traffic on a real server (session engine op `storm`): every connection a task of its own, writers pipelining
their requests, subscribers joining in the middle.  Two judgements:

 1. the schedule-independent facts that Proofs/ConcFacts.v proves of Model/Conc.v for EVERY schedule, evaluated on what the
    connections received (conc_answers: a writer's answers come in the order of its requests, one each; conc_stream: every
    live subscriber receives the same sequence -- the order in which the server applied the writes -- with every writer's
    values in its own order, each once; conc_ack_first: nothing of a subscription before its Ack; a subscriber that joins late
    gets the state at that moment and then exactly the rest of that sequence; the final state is the last write per key);
 2. the observed execution is one of the model's serial runs: the order the subscribers saw is replayed request by request
    through the extracted session model, and what the model delivers to every subscriber must be what that subscriber received.
"""
import os, subprocess, json
from common import *
from casefmt import *
import sessionops

def parse(line):
    """`storm:W0=..;S0=..;L0=..;G=..` -> dict name -> list of tokens"""
    item = next((x for x in line.split(" ") if x.startswith("storm:")), None)
    if item is None: return None
    d = {}
    for part in item[6:].split(";"):
        if "=" in part:
            k, v = part.split("=", 1)
            d[k] = v.split(",") if v else []
    return d

def judge(d, nsubs, nwr, nwrites, nlate, shared):
    """-> None or a description of what is wrong (facts 1)"""
    for j in range(nwr):
        got = d.get(f"W{j}")
        if got != [str(i + 1) for i in range(nwrites)]:
            return f"writer {j} pipelined sets with transaction ids 1..{nwrites}; its answers, in arrival order: {got}"
    order = None
    for k in range(nsubs):
        got = d.get(f"S{k}") or []
        if not got or got[0] != "A":
            return f"subscriber {k}: the first message of its subscription is not the Ack: {got[:5]}"
        evs = got[1:]
        if sorted(evs) != sorted(f"{j}.{i}" for j in range(nwr) for i in range(nwrites)):
            miss = sorted(set(f"{j}.{i}" for j in range(nwr) for i in range(nwrites)) - set(evs))
            dup = sorted(x for x in set(evs) if evs.count(x) > 1)
            return f"subscriber {k} did not receive every write exactly once: missing {miss[:6]}, duplicated {dup[:6]}, other {[x for x in evs if '.' not in x][:6]}"
        for j in range(nwr):
            mine = [x for x in evs if x.startswith(f"{j}.")]
            if mine != [f"{j}.{i}" for i in range(nwrites)]:
                return f"subscriber {k} received writer {j}'s values out of order: {mine[:12]}"
        if order is None: order = evs
        elif shared and evs != order:
            at = next(i for i, (x, y) in enumerate(zip(evs, order)) if x != y)
            return f"subscribers 0 and {k} of the same key saw its changes in different orders (position {at}: {order[at:at+4]} vs {evs[at:at+4]})"
    for k in range(nlate):
        got = d.get(f"L{k}") or []
        if not got or got[0] != "A":
            return f"late subscriber {k}: the first message of its subscription is not the Ack: {got[:5]}"
        evs = got[1:]
        if shared:
            # the value at that moment (none if the key did not exist yet), then exactly the rest of the order
            if not evs:
                return f"late subscriber {k} received nothing although the key was written"
            if evs[0] not in order: return f"late subscriber {k}: snapshot {evs[0]} is not a value that was written"
            at = order.index(evs[0])
            want = order[at:]
            if evs != want:
                return f"late subscriber {k}: first {evs[0]} (position {at} of the order), then {evs[1:5]}..: not the rest of the order {order[at+1:at+5]}.. ({len(evs)} vs {len(want)} items)"
        else:
            # pattern: a snapshot [a+b+..] (or a single value, or none), then per writer the values after its snapshot value, in order, to the end
            snap, rest = [], evs
            if evs and evs[0].startswith("["):
                snap = [x for x in evs[0][1:-1].split("+") if x]; rest = evs[1:]      # `[]`: subscribed before the first write
            seen = {}
            for x in snap:
                j, i = x.split("."); seen[int(j)] = int(i)
            for j in range(nwr):
                mine = ([seen[j]] if j in seen else []) + [int(x.split(".")[1]) for x in rest if x.startswith(f"{j}.")]
                if not mine or mine != list(range(mine[0], nwrites)):
                    return f"late subscriber {k}: writer {j}'s values (snapshot first) {mine[:8]}..{mine[-3:]}: not a gap-free run up to {nwrites - 1}"
    g = d.get("G")
    if g is not None:
        if shared:
            want = [f"st/k:{order[-1]}"] if order else []
        else:
            want = sorted(f"st/w{j}:{j}.{nwrites - 1}" for j in range(nwr))
        if sorted(g) != want and nsubs > 0:
            return f"the final state {g} is not the last write per key {want}"
    return None

def serial_case(d, nsubs, nwr, nwrites, shared):
    """the observed execution as a serial history for the session model: subscribers 0..nsubs-1, writers after them; sets in
    the order subscriber 0 saw them"""
    order = (d.get("S0") or ["A"])[1:]
    ops = ["cfg auth=0"]
    for s in range(nsubs + nwr): ops.append(f"open {s}")
    for s in range(nsubs):
        m = {"subscribe": {"transactionId": 7, "key": "st/k", "unique": False, "liveOnly": True}} if shared else \
            {"pSubscribe": {"transactionId": 7, "requestPattern": "st/#", "unique": False, "liveOnly": True}}
        ops.append(sessionops.R(("send", s, m)))
    for x in order:
        j, i = x.split(".")
        key = "st/k" if shared else f"st/w{j}"
        ops.append(sessionops.R(("send", nsubs + int(j), {"set": {"transactionId": int(i) + 1, "key": key, "value": x}})))
    return ops

def replay_in_model(tag, cases, work):
    """cases: list of (name, ops, d, nsubs).  Runs the extracted session model alone on the serial histories; returns a list
    of (name, message) where the model's deliveries differ from what the subscribers received"""
    cpath = os.path.join(work, f"storm-serial{tag}.txt")
    write_cases(cpath, [(nm, ops) for nm, ops, _, _ in cases])
    mout = os.path.join(work, f"storm-serial{tag}.model.out")
    if os.path.exists(mout): os.remove(mout)
    p = subprocess.run([os.path.join(OCAML, "session_driver"), cpath, mout], env=dict(ENV, OCAMLRUNPARAM="l=8G"), stdout=subprocess.PIPE, stderr=subprocess.STDOUT, timeout=1200)
    if p.returncode != 0 or not os.path.exists(mout):
        raise RuntimeError("model driver failed on the serial replay: " + p.stdout.decode()[-1500:])
    B = read_obs(mout)
    bad = []
    for nm, ops, d, nsubs in cases:
        per = {s: [] for s in range(nsubs)}
        for line in B.get(nm, [])[1:]:
            for s, tok in sessionops.parse_out(line):
                if s >= nsubs: continue
                m = sessionops.decode_msg(tok)
                if isinstance(m, dict):
                    if "ack" in m: per[s].append("A")
                    elif "state" in m: per[s].append(m["state"].get("value", "D"))
                    elif "pState" in m:
                        kv = m["pState"].get("keyValuePairs")
                        per[s].extend(x["value"] for x in kv) if kv else per[s].append("D")
        for s in range(nsubs):
            if per[s] != d.get(f"S{s}"):
                got = d.get(f"S{s}") or []
                at = next((i for i, (x, y) in enumerate(zip(per[s], got)) if x != y), min(len(per[s]), len(got)))
                bad.append((nm, f"replayed serially in the order the server applied the writes, the model delivers to subscriber {s} {per[s][at:at+4]}.. at position {at}; it received {got[at:at+4]}.. ({len(per[s])} vs {len(got)} messages)"))
                break
    return bad

def run_storms(v, tier, seed, work, engine_tag, prop_note):
    """generates storm cases, runs them on the real server, judges them; records violations on v; returns coverage dict"""
    import random
    r = random.Random(seed * 15485863 + 11)
    n = 6 if tier == "quick" else 40
    cases = []
    for i in range(n):
        shared = (i % 2 == 0)
        nsubs = r.choice([1, 2, 3, 4]); nwr = r.choice([2, 3, 4, 6]); nwrites = r.choice([20, 40, 80]) if tier == "quick" else r.choice([20, 50, 100, 200])
        nlate = r.choice([0, 1, 2])
        # every third case on a server whose channels have room for two messages only: the core task waits for the forwarding
        # tasks, the forwarding tasks for the socket writer (back-pressure instead of buffering)
        cfg = "cfg auth=0 buf=2" if i % 3 == 2 else "cfg auth=0"
        cases.append((f"storm{i}", [cfg, f"storm {nsubs} {nwr} {nwrites} {nlate} {'k' if shared else 'p'}"], (nsubs, nwr, nwrites, nlate, shared)))
    cpath = os.path.join(work, f"storm{engine_tag}.txt")
    write_cases(cpath, [(nm, ops) for nm, ops, _ in cases])
    impl, _model = run_engine("session", "session_driver", cpath, work, tag=f"-storm{engine_tag}")
    A = read_obs(impl)
    serial, events, lates, mid = [], 0, 0, 0
    for nm, ops, (nsubs, nwr, nwrites, nlate, shared) in cases:
        la = A.get(nm, [])
        d = parse(la[1]) if len(la) > 1 else None
        if d is None:
            v.violation({"what": "the session engine did not complete this concurrent case", "case": nm, "engine": "session", "driver": "session_driver", "ops": ops,
                         "broken_obligation": "correspondence session (storm)"}, no_input=True)
            continue
        bad = judge(d, nsubs, nwr, nwrites, nlate, shared)
        if bad:
            v.violation({"what": f"{nwr} writers pipelining {nwrites} sets each, {nsubs} subscribers, {nlate} joining late ({'one shared key' if shared else 'a key per writer under one pattern'}): {bad}",
                         "case": nm, "engine": "session", "driver": "session_driver", "ops": ops, "observed": {k: x[:40] for k, x in d.items()}})
            if len(v.violations) >= 3: break
            continue
        events += nsubs * nwr * nwrites; lates += nlate
        order0 = (d.get("S0") or ["A"])[1:]
        for k in range(nlate):
            ev = (d.get(f"L{k}") or ["A"])[1:]
            if ev and ((len(ev) > 1 and ev[0].startswith("[") and ev[0] != "[]") or ev[0] in order0[:-1]): mid += 1
        serial.append((nm, serial_case(d, nsubs, nwr, nwrites, shared), d, nsubs))
    if serial and not v.violations:
        for nm, msg in replay_in_model(engine_tag, serial, work)[:2]:
            ops = next(o for n_, o, _ in cases if n_ == nm)
            v.violation({"what": "concurrent traffic: " + msg, "case": nm, "engine": "session", "driver": "session_driver", "ops": ops,
                         "broken_obligation": "correspondence session (storm replayed serially; Proofs/ConcFacts.v conc_core, conc_stream)"}, no_input=True)
    return {"cases": len(cases), "events_checked": events, "late_subscribers": lates, "late_subscribers_that_joined_mid_traffic": mid,
            "rule": "every connection a task of its own on the multi-threaded runtime of a real in-process server: 1..4 live subscribers acknowledged first, 2..6 writers released at a barrier each PIPELINING 20..200 sets (one shared key, or a key per writer under one pattern), 0..2 subscribers with snapshot joining in the middle; every third case with a channel capacity of 2 (back-pressure); judged by the schedule-independent facts proved in Proofs/ConcFacts.v for every schedule (answers in request order, Ack first, every subscriber the same sequence = every writer's values in order, each once; a late subscriber: state at that moment, then exactly the rest; final state = last write per key) and replayed serially, in the order the subscribers saw, through the extracted session model (its deliveries per subscriber must be what that subscriber received). " + prop_note}
