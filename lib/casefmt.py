"""Case-file format shared by the Rust harness, the OCaml model driver and replay files."""
import json

def xs(s):
    return "x" + s.encode("utf-8").hex()

def xo(s):
    return "-" if s is None else xs(s)

def canon(v):
    """canonical serde_json text of a python value (object keys sorted bytewise, compact)"""
    return json.dumps(v, ensure_ascii=False, separators=(",", ":"), sort_keys=True)

def js(v):
    return "j" + canon(v).encode("utf-8").hex()

def b(x):
    return "1" if x else "0"

class Ops:
    """builders for op lines"""
    @staticmethod
    def get(k): return f"get {xs(k)}"
    @staticmethod
    def cget(k): return f"cget {xs(k)}"
    @staticmethod
    def pget(p): return f"pget {xs(p)}"
    @staticmethod
    def ls(p): return f"ls {xo(p)}"
    @staticmethod
    def pls(p): return f"pls {xo(p)}"
    @staticmethod
    def len(): return "len"
    @staticmethod
    def set(c, k, v, force=False): return f"set {c} {xs(k)} {js(v)} {b(force)}"
    @staticmethod
    def cset(c, k, v, ver, force=False): return f"cset {c} {xs(k)} {js(v)} {ver} {b(force)}"
    @staticmethod
    def delete(c, k): return f"del {c} {xs(k)}"
    @staticmethod
    def pdelete(c, p): return f"pdel {c} {xs(p)}"
    @staticmethod
    def publish(k, v): return f"pub {xs(k)} {js(v)}"
    @staticmethod
    def spubinit(c, t, k): return f"spubinit {c} {t} {xs(k)}"
    @staticmethod
    def spub(c, t, v): return f"spub {c} {t} {js(v)}"
    @staticmethod
    def imp(tree): return f"import {js(tree)}"
    @staticmethod
    def sub(c, t, k, unique=False, live=False): return f"sub {c} {t} {xs(k)} {b(unique)} {b(live)}"
    @staticmethod
    def psub(c, t, p, unique=False, live=False): return f"psub {c} {t} {xs(p)} {b(unique)} {b(live)}"
    @staticmethod
    def unsub(c, t): return f"unsub {c} {t}"
    @staticmethod
    def subls(c, t, p): return f"subls {c} {t} {xo(p)}"
    @staticmethod
    def unsubls(c, t): return f"unsubls {c} {t}"
    @staticmethod
    def lock(c, k): return f"lock {c} {xs(k)}"
    @staticmethod
    def acq(c, k): return f"acq {c} {xs(k)}"
    @staticmethod
    def rel(c, k): return f"rel {c} {xs(k)}"
    @staticmethod
    def conn(c): return f"conn {c}"
    @staticmethod
    def disc(c): return f"disc {c}"
    @staticmethod
    def dump(): return "dump"
    @staticmethod
    def cgetr(c, k): return f"cgetr {c} {xs(k)}"
    @staticmethod
    def csetr(c, k, v): return f"csetr {c} {xs(k)} {js(v)}"

def write_cases(path, cases):
    """cases: list of (name, [op lines])"""
    with open(path, "w") as f:
        for name, ops in cases:
            f.write(f"case {name}\n")
            for o in ops:
                f.write(o + "\n")
            f.write("end\n")

def read_obs(path):
    """-> dict name -> [lines]"""
    res = {}
    cur = None
    with open(path) as f:
        for line in f:
            line = line.rstrip("\n")
            if line.startswith("case "):
                cur = line[5:]
                res[cur] = []
            elif line == "end":
                cur = None
            elif cur is not None:
                res[cur].append(line)
    return res

def decode_tok(tok):
    """human-readable form of x.. / j.. tokens inside an observation or op line"""
    import re
    def rep(m):
        try:
            return repr(bytes.fromhex(m.group(2)).decode("utf-8"))
        except Exception:
            return m.group(0)
    return re.sub(r"\b([xj])((?:[0-9a-f]{2})*)\b", rep, tok)
