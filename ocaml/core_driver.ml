open Model
open Conv
open Core_driver_lib

(* client-side memory for the cget -> cset cycle (`cgetr` remembers the version a client
   read, `csetr` sends it back): driver glue, not part of the model *)
let run_case (ops : string list) : output list =
  let mem : (string * string, n) Hashtbl.t = Hashtbl.create 8 in
  let rec go (s : core) (ops : string list) : output list =
    match ops with
    | [] -> []
    | line :: rest ->
        let t = Array.of_list (String.split_on_char ' ' line) in
        let o =
          match t.(0) with
          | "cgetr" -> OCGet (str_of_tok t.(2))
          | "csetr" ->
              let ver = try Hashtbl.find mem (t.(1), t.(2)) with Not_found -> N0 in
              OCSet (nn t.(1), str_of_tok t.(2), json_of_tok t.(3), ver, false)
          | _ -> parse_op line in
        let (s', out) = step s o in
        (if t.(0) = "cgetr" then
           match out.o_res with
           | RCValue (_, ver) -> Hashtbl.replace mem (t.(1), t.(2)) ver
           | _ -> Hashtbl.replace mem (t.(1), t.(2)) N0);
        out :: (if is_crash out then [] else go s' rest) in
  go init ops

let () =
  let cases = read_cases Sys.argv.(1) in
  let oc = open_out Sys.argv.(2) in
  List.iter (fun (name, ops) ->
      Printf.fprintf oc "case %s\n" name;
      let outs = run_case ops in
      List.iter (fun o -> output_string oc (output_line o); output_char oc '\n') outs;
      output_string oc "end\n") cases;
  close_out oc
