(* extracted persistence machine (Model/Persist.v) + the core model; same grammar as
   harness/src/persist_engine.rs *)
open Model
open Conv

let rec sort_keys (j : json) : json =
  match j with
  | JArr l -> JArr (List.map sort_keys l)
  | JObj l -> JObj (List.sort (fun (a, _) (b, _) -> compare (string_of_str a) (string_of_str b)) (List.map (fun (k, v) -> (k, sort_keys v)) l))
  | x -> x
let text (j : json) : string = string_of_str (print (sort_keys j))
let starts s p = String.length s >= String.length p && String.sub s 0 (String.length p) = p
let ends s p = String.length s >= String.length p && String.sub s (String.length s - String.length p) (String.length p) = p

let listing (d : fs) : string =
  let names = List.sort compare (List.map (fun (n, _) -> string_of_str n) d) in
  let get n = List.assoc (str_of_string n) (List.map (fun (a, b) -> (a, b)) d) in
  let find n = try Some (get n) with Not_found -> None in
  let item name =
    let v = get name in
    let x = "x" ^ hex name in
    if ends name ".sha256" || name = ".store.sha" || name = ".store.sha~" then begin
      let base = if ends name ".sha256" then String.sub name 0 (String.length name - 7)
                 else if name = ".store.sha" then ".store.json" else ".store.json~" in
      let valid = (match v, find base with
                   | FSum j, Some (FJson j') -> text j = text j'
                   | _ -> false) in
      x ^ "=" ^ (if valid then "valid" else "stale")
    end
    else if ends name ".sha256.tmp" then
      x ^ "=sumtmp:" ^ (match v with FSum _ -> "64" | FSumTorn -> "32" | _ -> "0")
    else if starts name "gglw." || starts name ".gglw." then
      (match v with
       | FJson (JObj fs) ->
           let sorted k =
             (match (try Some (List.assoc (str_of_string k) fs) with Not_found -> None) with
              | Some (JArr l) -> String.concat "," (List.sort compare (List.map text l))
              | _ -> "") in
           x ^ "=gglw:" ^ hex (sorted "grave_goods" ^ "|" ^ sorted "last_will")
       | _ -> x ^ "=torn")
    else
      x ^ "=x" ^ (match v with
                  | FJson j -> hex (text j)
                  | FTorn j -> let t = text j in hex (String.sub t 0 (String.length t / 2))
                  | FEmpty -> ""
                  | FRaw b -> hex (string_of_str b)
                  | FSum _ | FSumTorn -> "??")
  in
  "fs [" ^ String.concat ";" (List.map item names) ^ "]"

let run_case (ops : string list) : string list =
  let st = ref (init, ([] : fs)) in
  let out = ref [] in
  let dead = ref false in
  List.iter (fun line ->
      if not !dead then begin
        let t = Array.of_list (String.split_on_char ' ' line) in
        let (s, d) = !st in
        let l =
          match t.(0) with
          | "flush" ->
              let n = int_of_string t.(1) in
              let (d', crashed) = flush (if n < 0 then None else Some (n_of_int n)) s d in
              st := (s, d');
              if crashed then "crashed " ^ string_of_int (n + 1) else "flushed"
          | "restart" ->
              let (r, d') = load d in
              (match r with
               | Some s' -> st := (s', d'); "loaded"
               | None -> st := (init, d'); "empty")
          | "fs" -> listing d
          | "writeraw" -> st := (s, fs_put (str_of_tok t.(1)) (FRaw (str_of_string (unhex t.(2)))) d); "ok"
          | "writejson" -> st := (s, fs_put (str_of_tok t.(1)) (FJson (json_of_tok t.(2))) d); "ok"
          | "writesum" -> st := (s, fs_put (str_of_tok t.(1)) (FSum (json_of_tok t.(2))) d); "ok"
          | "touch" -> st := (s, fs_put (str_of_tok t.(1)) FEmpty d); "ok"
          | "rmfile" -> st := (s, fs_del (str_of_tok t.(1)) d); "ok"
          | _ ->
              let (s', o) = step s (Core_driver_lib.parse_op line) in
              st := (s', d);
              if is_crash o then dead := true;
              Core_driver_lib.output_line o
        in
        out := l :: !out
      end) ops;
  List.rev !out

let () =
  let cases = read_cases Sys.argv.(1) in
  let oc = open_out Sys.argv.(2) in
  List.iter (fun (name, ops) ->
      Printf.fprintf oc "case %s\n" name;
      List.iter (fun l -> output_string oc l; output_char oc '\n') (run_case ops);
      output_string oc "end\n") cases;
  close_out oc
