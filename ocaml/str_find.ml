let find (s : string) (pat : string) : int =
  let n = String.length pat in
  let rec go i = if i + n > String.length s then raise Not_found else if String.sub s i n = pat then i else go (i + 1) in
  go 0
