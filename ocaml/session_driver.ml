(* extracted session model (Model/Session.v); same grammar as harness/src/session_engine.rs *)
open Model
open Conv

let rec sort_keys (j : json) : json =
  match j with
  | JArr l -> JArr (List.map sort_keys l)
  | JObj l -> JObj (List.sort (fun (a, _) (b, _) -> compare (string_of_str a) (string_of_str b)) (List.map (fun (k, v) -> (k, sort_keys v)) l))
  | x -> x
let text (j : json) : string = string_of_str (print (sort_keys j))
let sort_list (l : json list) : json list = List.sort (fun a b -> compare (text a) (text b)) l

let replace_all (s : string) (pat : string) (rep : string) : string =
  let b = Buffer.create (String.length s) in
  let n = String.length pat in
  let i = ref 0 in
  while !i < String.length s do
    if n > 0 && !i + n <= String.length s && String.sub s !i n = pat then (Buffer.add_string b rep; i := !i + n)
    else (Buffer.add_char b s.[!i]; incr i)
  done;
  Buffer.contents b

let uuid_of (sn : int) : string = string_of_str (client_str (n_of_int (sn + 1)))

let canon (m : smsg) (nsess : int) : string =
  match m with
  | SWelcome (_, _, _, auth, _) -> "welcome:auth=" ^ (if auth then "1" else "0")
  | SErr (t, c, _) -> "err:" ^ dec_of_n t ^ ":" ^ dec_of_n c
  | _ ->
      let j = enc_smsg m in
      let j = (match j with
               | JObj [(name, JObj fs)] ->
                   JObj [(name, JObj (List.map (fun (k, v) ->
                     let ks = string_of_str k in
                     if ks = "keyValuePairs" || ks = "deleted" || ks = "children" then
                       (match v with JArr l when (string_of_str name = "pState" || string_of_str name = "lsState") -> (k, JArr (sort_list l)) | _ -> (k, v))
                     else (k, v)) fs))]
               | x -> x) in
      let t = ref (text j) in
      for n = 0 to nsess do t := replace_all !t (uuid_of n) (Printf.sprintf "@CID%d@" n) done;
      "j" ^ hex !t

let claims_of (j : json) : claims =
  let strs j = (match j with JArr l -> List.filter_map (function JStr s -> Some s | _ -> None) l | _ -> []) in
  match j with
  | JObj fs ->
      (match (try Some (List.assoc (str_of_string "worterbuchPrivileges") fs) with Not_found -> None) with
       | Some (JObj ps) ->
           let get k = (try strs (List.assoc (str_of_string k) ps) with Not_found -> []) in
           { c_read = get "read"; c_write = get "write"; c_delete = get "delete" }
       | _ -> { c_read = []; c_write = []; c_delete = [] })
  | _ -> { c_read = []; c_write = []; c_delete = [] }

let run_case (ops : string list) : string list =
  match ops with
  | [] -> []
  | first :: rest ->
      let auth = (try ignore (Str_find.find first "auth=1"); true with Not_found -> false) in
      let w = ref (world_init auth) in
      let maxs = ref 0 in
      "ok" :: List.map (fun line ->
          let t = Array.of_list (String.split_on_char ' ' line) in
          if t.(0) = "rest" then begin
            (* a REST request on the same core: Model/RestWorld.v wrest *)
            let path = unhex t.(3) in
            let starts s p = String.length s >= String.length p && String.sub s 0 (String.length p) = p in
            let after s p = String.sub s (String.length p) (String.length s - String.length p) in
            let body () = json_of_tok t.(4) in
            let req =
              if path = "export" then Some RExport
              else if path = "import" then Some (RImport (body ()))
              else if path = "ls" then Some (RLs None)
              else if starts path "ls/" then Some (RLs (Some (str_of_string (after path "ls/"))))
              else if starts path "get/" then Some (RGet (str_of_string (after path "get/")))
              else if starts path "pget/" then Some (RPGet (str_of_string (after path "pget/")))
              else if starts path "set/" then Some (RSet (str_of_string (after path "set/"), body ()))
              else if starts path "publish/" then Some (RPublish (str_of_string (after path "publish/"), body ()))
              else if starts path "delete/" then Some (RDelete (str_of_string (after path "delete/")))
              else if starts path "pdelete/" then Some (RPDelete (str_of_string (after path "pdelete/")))
              else None in
            (match req with
             | None -> "rest:404"
             | Some r ->
                 let ((w', out), resp) = wrest !w TNone r in
                 w := w';
                 let kvs_str l = "kvs[" ^ String.concat ";" (List.sort compare (List.map (fun (k, v) -> xs k ^ "=" ^ js v) l)) ^ "]" in
                 let names_str l = "names[" ^ String.concat ";" (List.sort compare (List.map xs (List.filter (fun n -> string_of_str n <> "$SYS") l))) ^ "]" in
                 let first = (match resp with
                              | RStatus st -> "rest:" ^ dec_of_n st
                              | R200 BOk -> "rest:200:ok"
                              | R200 (BJson v) -> "rest:200:" ^ js v
                              | R200 (BKvs l) -> "rest:200:" ^ kvs_str l
                              | R200 (BNames l) -> "rest:200:" ^ names_str l
                              | R200 (BExport _) -> "rest:200:export") in
                 let items = ref [first] in
                 for n = 0 to !maxs do
                   List.iter (fun (s, m) -> if int_of_n s = n then items := Printf.sprintf "%d:%s" n (canon m !maxs) :: !items) out
                 done;
                 String.concat " " (List.rev !items))
          end else
          if t.(0) = "fill" then begin
            (* fill <s> <prefix> <n>: session s sets <prefix>/k<i> = i for i < n (pipelined on the wire, one after the other here) *)
            let sn = n_of_int (int_of_string t.(1)) in
            let acks = ref 0 in
            for i = 0 to int_of_string t.(3) - 1 do
              let m = MSet (n_of_int (i + 1), str_of_string (Printf.sprintf "%s/k%d" t.(2) i), JNum (str_of_string (string_of_int i))) in
              let (w', out) = sstep !w (SMsg (sn, m)) in
              w := w';
              List.iter (fun (s', m') -> if s' = sn then (match m' with SAck _ -> incr acks | _ -> ())) out
            done;
            Printf.sprintf "%s:fill=%d" t.(1) !acks
          end else
          if t.(0) = "storm" then
            (* concurrent traffic: judged by lib/storm.py on the implementation's observations (schedule-independent facts of
               Proofs/ConcFacts.v) and replayed serially through this driver in the order the server applied it *)
            "storm:-"
          else
          if t.(0) = "race" then begin
            (* n fresh sessions send the same cSet: in the model one after the other (the core handles one request at a time) *)
            let n = int_of_string t.(1) in
            let res = List.init n (fun i ->
                let s = n_of_int (100000 + i) in
                let (w1, _) = sstep !w (SOpen s) in
                let m = MCSet (n_of_int 1, str_of_tok t.(2), json_of_tok t.(3), n_of_int (int_of_string t.(4))) in
                let (w2, out) = sstep w1 (SMsg (s, m)) in
                let (w3, _) = sstep w2 (SClose s) in
                w := w3;
                (match List.filter (fun (s', _) -> s' = s) out with
                 | (_, SAck _) :: _ -> "ack"
                 | (_, SErr (_, code, _)) :: _ -> "err" ^ dec_of_n code
                 | _ -> "noanswer")) in
            "race:" ^ String.concat "," (List.sort compare res)
          end else
          let sn = int_of_string t.(1) in
          if sn > !maxs then maxs := sn;
          let was_open = List.init (!maxs + 1) (fun n -> sess_open !w (n_of_int n)) in
          let ev =
            match t.(0) with
            | "open" -> Some (SOpen (n_of_int sn))
            | "close" -> Some (SClose (n_of_int sn))
            | "auth" -> Some (SAuth (n_of_int sn, Some (claims_of (json_of_tok t.(2)))))
            | "badauth" -> Some (SAuth (n_of_int sn, None))
            | "send" | "raw" ->
                let txt = ref (unhex t.(2)) in
                for n = 0 to !maxs do txt := replace_all !txt (Printf.sprintf "@CID%d@" n) (uuid_of n) done;
                (match (try (if valid_utf8 !txt then Some (parse_json !txt) else None) with _ -> None) with
                 | None -> Some (SGarbage (n_of_int sn))
                 | Some JNull -> Some (SGarbage (n_of_int sn))
                 | Some j ->
                     (match dec_cmsg j with
                      | None -> Some (SGarbage (n_of_int sn))
                      | Some (MAuthorizationRequest _) -> Some (SAuth (n_of_int sn, None))
                      | Some m -> Some (SMsg (n_of_int sn, m))))
            | _ -> failwith "op" in
          let out = (match ev with
                     | None -> []
                     | Some e -> let (w', o) = sstep !w e in w := w'; o) in
          let items = ref [] in
          for n = 0 to !maxs do
            List.iter (fun (s, m) -> if int_of_n s = n then items := Printf.sprintf "%d:%s" n (canon m !maxs) :: !items) out;
            if List.nth was_open n && not (sess_open !w (n_of_int n)) && not (t.(0) <> "close" && socket_held !w (n_of_int n)) then items := Printf.sprintf "%d:closed" n :: !items
          done;
          String.concat " " (List.rev !items)) rest

let () =
  let cases = read_cases Sys.argv.(1) in
  let oc = open_out Sys.argv.(2) in
  List.iter (fun (name, ops) ->
      Printf.fprintf oc "case %s\n" name;
      List.iter (fun l -> output_string oc l; output_char oc '\n') (run_case ops);
      output_string oc "end\n") cases;
  close_out oc
