(* extracted aggregator model; same grammar as harness/src/agg_engine.rs *)
open Model
open Conv

let parse_kvs (tok : string) : (str * json) list =
  if tok = "" then [] else
  List.map (fun item ->
      let i = String.index item '=' in
      (str_of_tok (String.sub item 0 i), json_of_tok (String.sub item (i + 1) (String.length item - i - 1))))
    (String.split_on_char ';' tok)

let batch kvs = String.concat ";" (List.map (fun (k, v) -> xs k ^ "=" ^ js v) kvs)

let run_case (ops : string list) : string list =
  match ops with
  | [] -> []
  | first :: rest ->
      let d = int_of_string (List.nth (String.split_on_char ' ' first) 1) in
      let a = ref (agg_init (n_of_int d)) in
      "ok" :: List.map (fun line ->
          let (op, arg) = (match String.index_opt line ' ' with
                           | Some i -> (String.sub line 0 i, String.sub line (i + 1) (String.length line - i - 1))
                           | None -> (line, "")) in
          let x = (match op with
                   | "kvs" -> Arrive (AKvs (parse_kvs arg))
                   | "del" -> Arrive (ADel (parse_kvs arg))
                   | "adv" -> Advance (n_of_int (int_of_string arg))
                   | _ -> failwith "op") in
          let (a', out) = agg_step !a x in
          a := a';
          Printf.sprintf "t=%d %s" (int_of_n a'.now)
            (String.concat " " (List.map (function AKvs l -> "PV[" ^ batch l ^ "]" | ADel l -> "PD[" ^ batch l ^ "]") out))) rest

let () =
  let cases = read_cases Sys.argv.(1) in
  let oc = open_out Sys.argv.(2) in
  List.iter (fun (name, ops) ->
      Printf.fprintf oc "case %s\n" name;
      List.iter (fun l -> output_string oc l; output_char oc '\n') (run_case ops);
      output_string oc "end\n") cases;
  close_out oc
