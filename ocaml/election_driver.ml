(* extracted election model; same grammar as harness/src/election_engine.rs *)
open Model
open Conv

let n_of_decimal (s : string) : n =
  let acc = ref N0 in
  String.iter (fun c -> acc := N.add (N.mul !acc (n_of_int 10)) (n_of_int (Char.code c - 48))) s;
  !acc

let z_of_decimal (s : string) : z =
  if String.length s > 0 && s.[0] = '-' then
    (match n_of_decimal (String.sub s 1 (String.length s - 1)) with N0 -> Z0 | Npos p -> Zneg p)
  else (match n_of_decimal s with N0 -> Z0 | Npos p -> Zpos p)

let decimal_of_z (x : z) : string =
  match x with
  | Z0 -> "0"
  | Zpos p -> string_of_str (dec_of_N (Npos p))
  | Zneg p -> "-" ^ string_of_str (dec_of_N (Npos p))

let ids_of (tok : string) : str list =
  if tok = "-" then [] else List.map str_of_tok (String.split_on_char ',' tok)

let rec index_of (id : str) (l : str list) (i : int) : int option =
  match l with [] -> None | x :: r -> if x = id then Some i else index_of id r (i + 1)

let run_case (ops : string list) : string list =
  match ops with
  | [] -> []
  | first :: rest ->
      let t = Array.of_list (String.split_on_char ' ' first) in
      let me = str_of_tok t.(1) in
      let q = if t.(3) = "-" then None else Some (n_of_int (int_of_string t.(3))) in
      let prio = if t.(4) = "-" then z_of_decimal "9223372036854775807" else z_of_decimal t.(4) in
      (match einit me prio q (ids_of t.(5)) with
       | None -> List.map (fun _ -> "refused") ops
       | Some s0 ->
           let s = ref s0 in
           let finished = ref false in
           "ok" :: List.map (fun line ->
               let (op, arg) = (match String.index_opt line ' ' with
                                | Some i -> (String.sub line 0 i, String.sub line (i + 1) (String.length line - i - 1))
                                | None -> (line, "")) in
               if !finished then " | done" else begin
                 let ev = (match op with
                           | "recv" ->
                               let bytes = unhex arg in
                               if String.length bytes = 0 then ERecv Empty
                               else ERecv (try (if valid_utf8 bytes then dec_pmsg (parse_json bytes) else Garbage) with _ -> Garbage)
                           | "timeout" -> ETimeout
                           | "peers" -> EPeers (ids_of arg)
                           | _ -> failwith "op") in
                 let before = !s in
                 let (s', out) = estep !s ev in
                 s := s';
                 (* request_votes walks the peer list (index = list position); support_vote answers the first entry with that id *)
                 let items = ref [] in
                 let pos = ref 0 in
                 List.iter (fun m ->
                     match m with
                     | SVoteReq _ -> items := (!pos, Printf.sprintf "%d:VR:%s:%s" !pos (xs s'.me) (decimal_of_z s'.prio)) :: !items; incr pos
                     | SVoteResp id ->
                         (match index_of id before.peers 0 with
                          | Some i -> items := (i, Printf.sprintf "%d:VS:%s" i (xs s'.me)) :: !items
                          | None -> ())) out;
                 let sent = List.map snd (List.stable_sort (fun (a, _) (b, _) -> compare a b) (List.rev !items)) in
                 let oc = (match s'.ph with
                           | Done Leader -> finished := true; "leader"
                           | Done (Follower id) ->
                               finished := true;
                               "follower:" ^ xs id ^ (match started s' with FollowerServer _ -> ":server" | _ -> ":noserver")
                           | Done Failed -> finished := true; "failed"
                           | _ -> "-") in
                 String.concat " " sent ^ " | " ^ oc
               end) rest)

let () =
  let cases = read_cases Sys.argv.(1) in
  let oc = open_out Sys.argv.(2) in
  List.iter (fun (name, ops) ->
      Printf.fprintf oc "case %s\n" name;
      List.iter (fun l -> output_string oc l; output_char oc '\n') (run_case ops);
      output_string oc "end\n") cases;
  close_out oc
