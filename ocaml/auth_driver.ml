(* extracted Auth model on a case file; same grammar as harness/src/auth_engine.rs *)
open Model
open Conv

let strs (j : json) : str list option =
  match j with
  | JArr l -> (try Some (List.map (function JStr s -> s | _ -> raise Exit) l) with Exit -> None)
  | JNull -> Some []
  | _ -> None

let field k fs = try Some (List.assoc (str_of_string k) fs) with Not_found -> None

let one (line : string) : string =
  let t = Array.of_list (String.split_on_char ' ' line) in
  match t.(0) with
  | "pm" -> if pattern_matches (str_of_tok t.(1)) (str_of_tok t.(2)) then "1" else "0"
  | "authz" ->
      let p = (match t.(1) with "read" -> PRead | "write" -> PWrite | _ -> PDelete) in
      (* claims are generated well-formed; only the privilege lists are read *)
      (match parse_json (unhex t.(2)) with
       | JObj fs ->
           (match field "worterbuchPrivileges" fs with
            | Some (JObj ps) ->
                let get k = (match field k ps with None -> Some [] | Some j -> strs j) in
                (match get "read", get "write", get "delete" with
                 | Some r, Some w, Some d ->
                     if authorize { c_read = r; c_write = w; c_delete = d } p (str_of_tok t.(3)) then "ok" else "denied"
                 | _ -> "invalid")
            | _ -> "invalid")
       | _ -> "invalid")
  | _ -> failwith "op"

let () =
  let cases = read_cases Sys.argv.(1) in
  let oc = open_out Sys.argv.(2) in
  List.iter (fun (name, ops) ->
      Printf.fprintf oc "case %s\n" name;
      List.iter (fun l -> output_string oc (one l); output_char oc '\n') ops;
      output_string oc "end\n") cases;
  close_out oc
