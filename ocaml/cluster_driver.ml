(* extracted cluster model (Model/Sync.v over Model/Core.v and Model/Persist.v); grammar of harness/src/cluster_engine.rs *)
open Model
open Conv

let replace_all (s : string) (pat : string) (rep : string) : string =
  let b = Buffer.create (String.length s) in
  let n = String.length pat in
  let i = ref 0 in
  while !i < String.length s do
    if n > 0 && !i + n <= String.length s && String.sub s !i n = pat then (Buffer.add_string b rep; i := !i + n)
    else (Buffer.add_char b s.[!i]; incr i)
  done;
  Buffer.contents b

let uuid_of (c : int) : string = string_of_str (client_str (n_of_int c))
let maxc = 8
let subst (s : string) : string =
  let t = ref s in
  for c = 0 to maxc do t := replace_all !t (Printf.sprintf "@CID%d@" c) (uuid_of c) done; !t
let unsubst (s : string) : string =
  let t = ref s in
  for c = 0 to maxc do t := replace_all !t (uuid_of c) (Printf.sprintf "@CID%d@" c) done; !t

let res_str (r : result) (okname : string) : string =
  match r with
  | RErr c -> "r:err" ^ dec_of_n c
  | RCrash -> "r:crash"
  | _ -> "r:" ^ okname

let dump_core (s : core) : string =
  (* the observation channel is the REST export, which cannot show a plain null (the file format of F8) *)
  let user = List.sort compare (List.map (fun (p, e) ->
      let key = string_of_str (join slash p) in
      match e with
      | Plain v -> Printf.sprintf "x%s=P:%s" (hex key) (js v)
      | Cas (v, n) -> if n = N0 then Printf.sprintf "x%s=P:%s" (hex key) (js v) else Printf.sprintf "x%s=C%s:%s" (hex key) (dec_of_n n) (js v)) (List.filter (fun (_, e) -> e <> Plain JNull) (user_entries s))) in
  let reg = List.sort compare (List.map (fun (p, e) ->
      match List.map string_of_str p with
      | [_; _; who; leaf] ->
          let v = (match e with Plain v -> v | Cas (v, _) -> v) in
          let text = unsubst (string_of_str (print v)) in
          Printf.sprintf "x%s/%s=j%s" (hex (unsubst who)) leaf (hex text)
      | _ -> "?") (registrations s)) in
  Printf.sprintf "user[%s] reg[%s]" (String.concat ";" user) (String.concat ";" reg)

let run_case (ops : string list) : string list =
  let cl = ref { c_leader = init; c_followers = [] } in
  let fnames = ref [] in
  let marker = ref 0 in
  let req o = let (cl', out) = cl_request !cl o in cl := cl'; out in
  List.map (fun line ->
      let t = Array.of_list (String.split_on_char ' ' line) in
      let cnum i = n_of_int (int_of_string t.(i)) in
      let skey i = str_of_string (subst (unhex t.(i))) in
      let sval i = parse_json (subst (unhex t.(i))) in
      match t.(0) with
      | "leader" -> "ok"
      | "join" -> cl := cl_join !cl; fnames := !fnames @ [t.(1)]; "ok"
      | "conn" -> ignore (req (OConnected (cnum 1))); "ok"
      | "disc" -> ignore (req (ODisconnected (cnum 1))); "ok"
      | "set" -> res_str (req (OSet (cnum 1, skey 2, sval 3, false))).o_res "ack"
      | "cset" -> res_str (req (OCSet (cnum 1, skey 2, sval 3, n_of_int (int_of_string t.(4)), false))).o_res "ack"
      | "del" -> res_str (req (ODelete (cnum 1, skey 2))).o_res "state"
      | "pdel" -> res_str (req (OPDelete (cnum 1, skey 2))).o_res "pState"
      | "import" ->
          (match (try Some (parse_json (subst (unhex t.(1)))) with _ -> None) with
           | None -> "r:err4"                    (* the body is not JSON: serde error before anything is touched *)
           | Some j ->
               (match (req (OImport j)).o_res with
                | RImported _ -> "r:imported"
                | RErr c -> "r:err" ^ dec_of_n c
                | _ -> "r:?"))
      | "fwrite" ->
          let key = str_of_string (unhex t.(3)) in
          let idx = (let rec f i = function [] -> 0 | x :: r -> if x = t.(1) then i else f (i + 1) r in f 0 !fnames) in
          let (fc, _) = List.nth !cl.c_followers idx in
          let (o, okname) = (match t.(2) with
                             | "set" -> (OSet (n_of_int 9, key, JNum (str_of_string "1"), false), "ack")
                             | "cset" -> (OCSet (n_of_int 9, key, JNum (str_of_string "1"), N0, false), "ack")
                             | "del" -> (ODelete (n_of_int 9, key), "state")
                             | "pdel" -> (OPDelete (n_of_int 9, key), "pState")
                             | "publish" -> (OPublish (key, JNum (str_of_string "1")), "ack")
                             | "lock" -> (OLock (n_of_int 9, key), "ack")
                             | "get" -> (OGet key, "state")
                             | "import" -> (OImport (JObj []), "imported")
                             | _ -> failwith "fwrite") in
          res_str (snd (fstep_api fc o)).o_res okname
      | "sync" ->
          incr marker;
          ignore (req (OSet (n_of_int 9, str_of_string "marker", JNum (str_of_string (string_of_int !marker)), false)));
          cl := cl_drain !cl;
          "ok"
      | "dump" ->
          if t.(1) = "leader" then dump_core !cl.c_leader
          else begin
            let idx = (let rec f i = function [] -> 0 | x :: r -> if x = t.(1) then i else f (i + 1) r in f 0 !fnames) in
            dump_core (fst (List.nth !cl.c_followers idx))
          end
      | "promote" ->
          let idx = (let rec f i = function [] -> 0 | x :: r -> if x = t.(1) then i else f (i + 1) r in f 0 !fnames) in
          let fc = fst (List.nth !cl.c_followers idx) in
          cl := { c_leader = promote fc; c_followers = [] };
          fnames := [];
          "ok"
      | _ -> failwith "op") ops

let () =
  let cases = read_cases Sys.argv.(1) in
  let oc = open_out Sys.argv.(2) in
  List.iter (fun (name, ops) ->
      Printf.fprintf oc "case %s\n" name;
      List.iter (fun l -> output_string oc l; output_char oc '\n') (run_case ops);
      output_string oc "end\n") cases;
  close_out oc
