(* Runs the extracted Core model on a case file; prints the same observation lines as the
   Rust harness (harness/src/core_engine.rs). *)
open Model
open Conv

let nn s = n_of_dec s
let bb s = (s = "1")

let parse_op (line : string) : op =
  let t = Array.of_list (String.split_on_char ' ' line) in
  match t.(0) with
  | "get" -> OGet (str_of_tok t.(1))
  | "cget" -> OCGet (str_of_tok t.(1))
  | "pget" -> OPGet (str_of_tok t.(1))
  | "ls" -> OLs (opt_of_tok t.(1))
  | "pls" -> OPLs (opt_of_tok t.(1))
  | "len" -> OLen
  | "set" -> OSet (nn t.(1), str_of_tok t.(2), json_of_tok t.(3), bb t.(4))
  | "cset" -> OCSet (nn t.(1), str_of_tok t.(2), json_of_tok t.(3), nn t.(4), bb t.(5))
  | "del" -> ODelete (nn t.(1), str_of_tok t.(2))
  | "pdel" -> OPDelete (nn t.(1), str_of_tok t.(2))
  | "pub" -> OPublish (str_of_tok t.(1), json_of_tok t.(2))
  | "spubinit" -> OSPubInit (nn t.(1), nn t.(2), str_of_tok t.(3))
  | "spub" -> OSPub (nn t.(1), nn t.(2), json_of_tok t.(3))
  | "import" -> OImport (json_of_tok t.(1))
  | "sub" -> OSubscribe (nn t.(1), nn t.(2), str_of_tok t.(3), bb t.(4), bb t.(5))
  | "psub" -> OPSubscribe (nn t.(1), nn t.(2), str_of_tok t.(3), bb t.(4), bb t.(5))
  | "unsub" -> OUnsubscribe (nn t.(1), nn t.(2))
  | "subls" -> OSubscribeLs (nn t.(1), nn t.(2), opt_of_tok t.(3))
  | "unsubls" -> OUnsubscribeLs (nn t.(1), nn t.(2))
  | "lock" -> OLock (nn t.(1), str_of_tok t.(2))
  | "acq" -> OAcquire (nn t.(1), str_of_tok t.(2))
  | "rel" -> ORelease (nn t.(1), str_of_tok t.(2))
  | "conn" -> OConnected (nn t.(1))
  | "disc" -> ODisconnected (nn t.(1))
  | "dump" -> ODump
  | other -> failwith ("unknown op " ^ other)

let sorted l = List.sort compare l
let kvs_tok (kvs : (str * json) list) : string =
  "[" ^ String.concat ";" (sorted (List.map (fun (k, v) -> xs k ^ "=" ^ js v) kvs)) ^ "]"
let names_tok (l : str list) : string = "[" ^ String.concat ";" (sorted (List.map xs l)) ^ "]"

let result_tok (r : result) : string =
  match r with
  | RUnit -> "ok"
  | RValue v -> "val " ^ js v
  | RCValue (v, ver) -> "cval " ^ dec_of_n ver ^ " " ^ js v
  | RKvs l -> "kvs " ^ kvs_tok l
  | RNames l -> "names " ^ names_tok l
  | RLen x -> "len " ^ dec_of_n x
  | RSub i -> "sub " ^ dec_of_n i
  | RReq i -> "req " ^ dec_of_n i
  | RImported l ->
      "imp [" ^ String.concat ";" (sorted (List.map (fun ((k, e), ch) ->
        xs k ^ "=" ^ (match e with Plain v -> "P:" ^ js v | Cas (v, ver) -> "C" ^ dec_of_n ver ^ ":" ^ js v)
        ^ ":" ^ (if ch then "1" else "0")) l)) ^ "]"
  | RDump (d, len) ->
      let items = ref [] in
      let rec walk (Node (v, cs)) (path : str list) =
        let ptok = if path = [] then "-" else xs (join slash (List.rev path)) in
        items := (ptok ^ (match (if path = [] then None else v) with None -> "" | Some (Plain j) -> "|P:" ^ js j | Some (Cas (j, ver)) -> if ver = N0 then "|P:" ^ js j else "|C" ^ dec_of_n ver ^ ":" ^ js j)) :: !items;
        List.iter (fun (k, c) -> walk c (k :: path)) cs in
      walk d [];
      "dump len=" ^ dec_of_n len ^ " nodes=[" ^ String.concat ";" (sorted !items) ^ "]"
  | RErr c -> "err " ^ dec_of_n c
  | RCrash -> "crash"

let event_tok ((i, e) : n * event) : string =
  dec_of_n i ^ ":" ^
  (match e with
   | EValue v -> "V:" ^ js v
   | EDeleted v -> "D:" ^ js v
   | EPValue kvs -> "PV:" ^ kvs_tok kvs
   | EPDeleted kvs -> "PD:" ^ kvs_tok kvs)

let output_line (o : output) : string =
  match o.o_res with
  | RCrash -> "crash"
  | r ->
      let evs = List.map event_tok (List.stable_sort (fun (i, _) (j, _) -> compare (int_of_n i) (int_of_n j)) o.o_events) in
      (* per ls instance: count and last list *)
      let tbl = Hashtbl.create 8 in
      List.iter (fun (i, l) ->
          let i = int_of_n i in
          let (c, _) = try Hashtbl.find tbl i with Not_found -> (0, []) in
          Hashtbl.replace tbl i (c + 1, l)) o.o_ls;
      let lss = List.sort compare (Hashtbl.fold (fun i (c, l) acc -> (i, c, l) :: acc) tbl []) in
      let lss = List.map (fun (i, c, l) -> Printf.sprintf "%d:%d:%s" i c (names_tok l)) lss in
      let nums l = String.concat " " (List.map string_of_int (List.sort compare (List.map int_of_n l))) in
      Printf.sprintf "%s | ev %s | ls %s | g %s | c %s" (result_tok r)
        (String.concat " " evs) (String.concat " " lss) (nums o.o_granted) (nums o.o_cancelled)

