(* extracted ReDB persistence model (Model/Redb.v over Model/Core.v); grammar of the standalone-node ops of
   harness/src/cluster_engine.rs.  After a kill the disk holds the result of SOME prefix of the actions queued since the
   last quiescent point: `dump` then prints every candidate, separated by ` || `. *)
open Model
open Conv

let replace_all (s : string) (pat : string) (rep : string) : string =
  let b = Buffer.create (String.length s) in
  let n = String.length pat in
  let i = ref 0 in
  while !i < String.length s do
    if n > 0 && !i + n <= String.length s && String.sub s !i n = pat then (Buffer.add_string b rep; i := !i + n)
    else (Buffer.add_char b s.[!i]; incr i)
  done;
  Buffer.contents b
let uuid_of (c : int) : string = string_of_str (client_str (n_of_int c))
let subst (s : string) : string =
  let t = ref s in
  for c = 0 to 8 do t := replace_all !t (Printf.sprintf "@CID%d@" c) (uuid_of c) done; !t

let res_str (r : result) (okname : string) : string =
  match r with RErr c -> "r:err" ^ dec_of_n c | RCrash -> "r:crash" | _ -> "r:" ^ okname

let dump_core (s : core) : string =
  let user = List.sort compare (List.map (fun (p, e) ->
      let key = string_of_str (join slash p) in
      match e with
      | Plain v -> Printf.sprintf "x%s=P:%s" (hex key) (js v)
      | Cas (v, n) -> if n = N0 then Printf.sprintf "x%s=P:%s" (hex key) (js v) else Printf.sprintf "x%s=C%s:%s" (hex key) (dec_of_n n) (js v))
      (List.filter (fun (_, e) -> e <> Plain JNull) (user_all s))) in
  Printf.sprintf "user[%s] reg[]" (String.concat ";" user)

let rec firstn n l = if n = 0 then [] else match l with [] -> [] | x :: r -> x :: firstn (n - 1) r

let run_case (ops : string list) : string list =
  let cands = ref [init] in            (* the possible server states (one, except after a kill) *)
  let disk = ref t_empty in
  let pending = ref [] in
  let req o =
    let s = List.hd !cands in
    pending := !pending @ actions_of s o;
    let (s', out) = step s o in
    cands := [s']; out in
  List.map (fun line ->
      let t = Array.of_list (String.split_on_char ' ' line) in
      let cnum i = n_of_int (int_of_string t.(i)) in
      let skey i = str_of_string (subst (unhex t.(i))) in
      let sval i = parse_json (subst (unhex t.(i))) in
      match t.(0) with
      | "node" -> "ok"
      | "conn" -> ignore (req (OConnected (cnum 1))); "ok"
      | "disc" -> ignore (req (ODisconnected (cnum 1))); "ok"
      | "set" -> res_str (req (OSet (cnum 1, skey 2, sval 3, false))).o_res "ack"
      | "cset" -> res_str (req (OCSet (cnum 1, skey 2, sval 3, n_of_int (int_of_string t.(4)), false))).o_res "ack"
      | "del" -> res_str (req (ODelete (cnum 1, skey 2))).o_res "state"
      | "pdel" -> res_str (req (OPDelete (cnum 1, skey 2))).o_res "pState"
      | "burst" ->
          let n = int_of_string t.(2) in
          let prefix = unhex t.(3) in
          for i = 0 to n - 1 do
            ignore (req (OSet (cnum 1, str_of_string (Printf.sprintf "%s/%d" prefix i), JNum (str_of_string (string_of_int i)), false)))
          done;
          "ok"
      | "churn" ->
          let n = int_of_string t.(2) in
          let last = ref "r:noanswer" in
          for i = 0 to n - 1 do
            ignore (req (ODelete (cnum 1, skey 3)));
            last := res_str (req (OSet (cnum 1, skey 3, JNum (str_of_string (string_of_int i)), false))).o_res "ack"
          done;
          !last
      | "churnd" ->
          let n = int_of_string t.(2) in
          let last = ref "r:noanswer" in
          for i = 0 to n - 1 do
            ignore (req (OSet (cnum 1, skey 3, JNum (str_of_string (string_of_int i)), false)));
            last := res_str (req (ODelete (cnum 1, skey 3))).o_res "state"
          done;
          !last
      | "settle" -> "ok"      (* a pause is no guarantee that the writer has caught up (fsync under load): every prefix stays possible *)
      | "stop" ->
          let (s1, acts) = shutdown_actions (List.hd !cands) in
          disk := apply_all !disk (!pending @ acts); pending := [];
          cands := [s1];
          "ok"
      | "kill" ->
          (* every cut the writer can produce *)
          let n = List.length !pending in
          cands := List.init (n + 1) (fun j -> recover (apply_all !disk (firstn j !pending)));
          pending := [];
          "ok"
      | "start" ->
          (match !cands with
           | [_] -> cands := [recover !disk]; disk := recover_tables !disk
           | _ -> ());                   (* after a kill the candidates are the recovered states already *)
          "ok"
      | "dump" ->
          let ds = List.sort_uniq compare (List.map dump_core !cands) in
          String.concat " || " ds
      | _ -> failwith "op") ops

let () =
  let cases = read_cases Sys.argv.(1) in
  let oc = open_out Sys.argv.(2) in
  List.iter (fun (name, ops) ->
      Printf.fprintf oc "case %s\n" name;
      List.iter (fun l -> output_string oc l; output_char oc '\n') (run_case ops);
      output_string oc "end\n") cases;
  close_out oc
