(* Runs the extracted codec model (Model/Codec.v, Model/JsonText.v) on a case file; same output
   grammar as harness/src/codec_engine.rs. *)
open Model
open Conv

let rec sort_keys (j : json) : json =
  match j with
  | JArr l -> JArr (List.map sort_keys l)
  | JObj l -> JObj (List.sort (fun (a, _) (b, _) -> compare (string_of_str a) (string_of_str b)) (List.map (fun (k, v) -> (k, sort_keys v)) l))
  | x -> x

let pr (j : json) : string = string_of_str (print j)

let one (line : string) : string =
  let i = String.index line ' ' in
  let kind = String.sub line 0 i in
  let tok = String.sub line (i + 1) (String.length line - i - 1) in
  match (try Some (parse_json (unhex tok)) with _ -> None) with
  | None -> "none"
  | Some j ->
      let fin enc dec m canon =
        let e = enc m in
        let text = pr (if canon then sort_keys e else e) in
        let rt = (match dec e with Some m2 -> m2 = m | None -> false) in
        Printf.sprintf "ok %s rt=%d line=%d" (hex text) (if rt then 1 else 0) (if String.contains text '\n' then 0 else 1) in
      (match kind with
       | "client" -> (match dec_cmsg j with None -> "none" | Some m -> fin enc_cmsg dec_cmsg m false)
       | "server" -> (match dec_smsg j with None -> "none" | Some m -> fin enc_smsg dec_smsg m false)
       | "sync" -> (match dec_sync j with None -> "none" | Some m -> fin enc_sync dec_sync m true)
       | k when String.length k >= 5 && String.sub k 0 5 = "entry" ->
           let e = (if String.length k > 7 && String.sub k 0 7 = "entryC:" then
                      Cas (j, (let d = String.sub k 7 (String.length k - 7) in
                               let acc = ref N0 in String.iter (fun c -> acc := N.add (N.mul !acc (n_of_int 10)) (n_of_int (Char.code c - 48))) d; !acc))
                    else Plain j) in
           let enc = enc_entry e in
           let text = pr enc in
           Printf.sprintf "ok %s rt=%d line=%d" (hex text) (if dec_entry enc = e then 1 else 0) (if String.contains text '\n' then 0 else 1)
       | _ -> failwith "kind")

let () =
  let cases = read_cases Sys.argv.(1) in
  let oc = open_out Sys.argv.(2) in
  List.iter (fun (name, ops) ->
      Printf.fprintf oc "case %s\n" name;
      List.iter (fun l -> output_string oc (one l); output_char oc '\n') ops;
      output_string oc "end\n") cases;
  close_out oc
