(* extracted client model (Model/Client.v) on top of the extracted session model (Model/Session.v);
   same grammar as harness/src/client_engine.rs *)
open Model
open Conv

let rec sort_keys (j : json) : json =
  match j with
  | JArr l -> JArr (List.map sort_keys l)
  | JObj l -> JObj (List.sort (fun (a, _) (b, _) -> compare (string_of_str a) (string_of_str b)) (List.map (fun (k, v) -> (k, sort_keys v)) l))
  | x -> x
let text (j : json) : string = string_of_str (print (sort_keys j))
let sort_list (l : json list) : json list = List.sort (fun a b -> compare (text a) (text b)) l

let replace_all (s : string) (pat : string) (rep : string) : string =
  let b = Buffer.create (String.length s) in
  let n = String.length pat in
  let i = ref 0 in
  while !i < String.length s do
    if n > 0 && !i + n <= String.length s && String.sub s !i n = pat then (Buffer.add_string b rep; i := !i + n)
    else (Buffer.add_char b s.[!i]; incr i)
  done;
  Buffer.contents b

let uuid_of (sn : int) : string = string_of_str (client_str (n_of_int (sn + 1)))

let strip_fields (names : string list) (j : json) : json =
  match j with
  | JObj [(name, JObj fs)] -> JObj [(name, JObj (List.filter (fun (k, _) -> not (List.mem (string_of_str k) names)) fs))]
  | x -> x

let canon_json (j : json) (nsess : int) (strip : bool) : string =
  let j = (match j with
           | JObj [(name, JObj fs)] ->
               JObj [(name, JObj (List.map (fun (k, v) ->
                 let ks = string_of_str k in
                 if ks = "keyValuePairs" || ks = "deleted" || ks = "children" then
                   (match v with JArr l when (string_of_str name = "pState" || string_of_str name = "lsState") -> (k, JArr (sort_list l)) | _ -> (k, v))
                 else (k, v)) fs))]
           | x -> x) in
  let j = strip_fields (if strip then ["metadata"; "transactionId"] else ["metadata"]) j in
  let t = ref (text j) in
  for n = 0 to nsess do t := replace_all !t (uuid_of n) (Printf.sprintf "@CID%d@" n) done;
  "j" ^ hex !t

let canon_s (m : smsg) nsess strip : string =
  match m with
  | SWelcome (_, _, _, auth, _) -> "welcome:auth=" ^ (if auth then "1" else "0")
  | _ -> canon_json (enc_smsg m) nsess strip

let kvs_str (l : (str * json) list) : string =
  "kvs[" ^ String.concat ";" (List.sort compare (List.map (fun (k, v) -> xs k ^ "=" ^ js v) l)) ^ "]"
let names_str (tag : string) (l : str list) : string =
  tag ^ "[" ^ String.concat ";" (List.map xs (List.sort (fun a b -> compare (string_of_str a) (string_of_str b)) l)) ^ "]"

let result_str (r : cresult) : string =
  match r with
  | CROk -> "ok" | CRNone -> "none" | CRVal v -> "val:" ^ js v | CRCVal (v, ver) -> "cval:" ^ dec_of_n ver ^ ":" ^ js v
  | CRKvs l -> kvs_str l | CRNames l -> names_str "names" l | CRTid t -> "tid:" ^ dec_of_n t | CRErr c -> "err:" ^ dec_of_n c
  | CRUnexpected -> "unexpected"

let event_str (m : smsg) : string =
  match m with
  | SState (_, SValue v) -> "V" ^ js v
  | SState (_, SDeleted _) -> "D"
  | SPState (_, _, PKvs l) -> "P" ^ kvs_str l
  | SPState (_, _, PDel l) -> "X" ^ kvs_str l
  | SLsState (_, l) -> names_str "L" l
  | _ -> "?"

type handle = { mutable cs : cstate }

let run_case (ops : string list) : string list =
  let w = ref (world_init false) in
  let handles : (int, handle) Hashtbl.t = Hashtbl.create 4 in
  let nh = ref 0 in
  let calls : (int, (int * ccmd)) Hashtbl.t = Hashtbl.create 64 in        (* call -> (handle, command) *)
  let sub_tid : (int, int) Hashtbl.t = Hashtbl.create 16 in               (* subscription call -> tid *)
  let buffers : (string, (int * sbuf ref)) Hashtbl.t = Hashtbl.create 4 in
  let buffer_order = ref [] in
  let ncall = ref 0 in
  (* one round trip: the message goes to the server model, every message the server sends goes to the client model of its session *)
  let msgs = ref [] and answers = ref [] and events = ref [] in
  let to_server (h : int) (m : cmsg) =
    msgs := (h, 'C', `C m) :: !msgs;
    let (w', out) = sstep !w (SMsg (n_of_int h, m)) in
    w := w';
    List.iter (fun (sn, sm) ->
        let s = int_of_n sn in
        msgs := (s, 'S', `S sm) :: !msgs;
        (match Hashtbl.find_opt handles s with
         | Some hd ->
             let (c', ds) = on_msg hd.cs sm in
             hd.cs <- c';
             List.iter (function
                 | DAnswer (call, m) -> answers := (int_of_n call, m) :: !answers
                 | DEvent (call, m) -> events := (int_of_n call, m) :: !events) ds
         | None -> ())) out in
  let do_call (h : int) (cmd : ccmd) : int * ticket =
    incr ncall;
    let call = !ncall in
    Hashtbl.replace calls call (h, cmd);
    let hd = Hashtbl.find handles h in
    let ((c', m), tk) = on_cmd hd.cs (n_of_int call) cmd in
    hd.cs <- c';
    to_server h m;
    (call, tk) in
  let answer_of (call : int) (cmd : ccmd) (tk : ticket) : string =
    match tk with
    | Ticket t -> "tid:" ^ dec_of_n t
    | NoTicket ->
        (match List.find_opt (fun (c, _) -> c = call) (List.rev !answers) with
         | Some (_, m) -> result_str (result_of cmd m)
         | None -> "noanswer") in
  List.map (fun line ->
      let t = Array.of_list (String.split_on_char ' ' line) in
      msgs := []; answers := []; events := [];
      let strip = ref false in
      let a i = str_of_tok t.(i) in
      let opt i = if t.(i) = "-" then None else Some (str_of_tok t.(i)) in
      let result =
        (match t.(0) with
         | "connect" ->
             let h = !nh in incr nh;
             Hashtbl.replace handles h { cs = cinit };
             let (w', out) = sstep !w (SOpen (n_of_int h)) in
             w := w';
             List.iter (fun (sn, sm) -> msgs := (int_of_n sn, 'S', `S sm) :: !msgs) out;
             to_server h (MProtocolSwitchRequest (n_of_int 1));
             "ok"
         | "call" ->
             let h = int_of_string t.(1) in
             let nn i = n_of_int (int_of_string t.(i)) in
             let cmd = (match t.(2) with
                        | "set" -> CSet (a 3, json_of_tok t.(4)) | "cset" -> CCSet (a 3, json_of_tok t.(4), nn 5)
                        | "publish" -> CPublish (a 3, json_of_tok t.(4)) | "get" -> CGet (a 3) | "cget" -> CCGet (a 3) | "pget" -> CPGet (a 3)
                        | "delete" -> CDelete (a 3) | "pdelete" -> CPDelete (a 3, t.(4) = "1") | "ls" -> CLs (opt 3) | "pls" -> CPLs (opt 3)
                        | "spubinit" -> CSPubInit (a 3) | "spub" -> CSPub (nn 3, json_of_tok t.(4))
                        | "lock" -> CLock (a 3) | "release" -> CReleaseLock (a 3)
                        | "set_async" -> CSetAsync (a 3, json_of_tok t.(4)) | "get_async" -> CGetAsync (a 3)
                        | "subscribe" -> CSubscribe (a 3, t.(4) = "1", t.(5) = "1")
                        | "psubscribe" -> CPSubscribe (a 3, t.(4) = "1", t.(5) = "1", None)
                        | "subls" -> CSubscribeLs (opt 3)
                        | "unsubscribe" -> CUnsubscribe (nn 3) | "unsubscribe_async" -> CUnsubscribeAsync (nn 3)
                        | "unsubls" -> CUnsubscribeLs (nn 3) | "unsubls_async" -> CUnsubscribeLsAsync (nn 3)
                        | "cset_async" -> CCSetAsync (a 3, json_of_tok t.(4), nn 5) | "spubinit_async" -> CSPubInitAsync (a 3)
                        | "spub_async" -> CSPubAsync (nn 3, json_of_tok t.(4)) | "publish_async" -> CPublishAsync (a 3, json_of_tok t.(4))
                        | "cget_async" -> CCGetAsync (a 3) | "pget_async" -> CPGetAsync (a 3) | "delete_async" -> CDeleteAsync (a 3)
                        | "pdelete_async" -> CPDeleteAsync (a 3, t.(4) = "1") | "ls_async" -> CLsAsync (opt 3) | "pls_async" -> CPLsAsync (opt 3)
                        | "subscribe_async" -> CSubscribeAsync (a 3, t.(4) = "1", t.(5) = "1")
                        | "psubscribe_async" -> CPSubscribeAsync (a 3, t.(4) = "1", t.(5) = "1", None)
                        | "subls_async" -> CSubscribeLsAsync (opt 3)
                        | "lock_async" -> CLockAsync (a 3) | "release_async" -> CReleaseLockAsync (a 3)
                        | _ -> failwith "call") in
             let (call, tk) = do_call h cmd in
             let r = answer_of call cmd tk in
             (match cmd with
              | CSubscribe _ | CPSubscribe _ | CSubscribeLs _ ->
                  if String.length r > 4 && String.sub r 0 4 = "tid:" then Hashtbl.replace sub_tid call (int_of_string (String.sub r 4 (String.length r - 4)))
              | _ -> ());
             r
         | "par" ->
             strip := true;
             let h = int_of_string t.(1) in
             let n = int_of_string t.(2) in
             let prefix = unhex t.(3) in
             String.concat "," (List.init n (fun i ->
                 let key = str_of_string (Printf.sprintf "%s/%d" prefix i) in
                 let c1 = CSet (key, JNum (str_of_string (string_of_int i))) in
                 let (k1, t1) = do_call h c1 in
                 let r1 = answer_of k1 c1 t1 in
                 let c2 = CGet key in
                 let (k2, t2) = do_call h c2 in
                 let r2 = answer_of k2 c2 t2 in
                 let c3 = CCGet (str_of_string (Printf.sprintf "%s/%d/absent" prefix i)) in
                 let (k3, t3) = do_call h c3 in
                 let r3 = answer_of k3 c3 t3 in
                 Printf.sprintf "%d:%s:%d" (if r1 = "ok" then 1 else 0)
                   (if String.length r2 > 4 && String.sub r2 0 4 = "val:" then String.sub r2 4 (String.length r2 - 4) else "none")
                   (if r3 = "none" then 1 else 0)))
         | "parspub" ->
             strip := true;
             let h = int_of_string t.(1) in
             let tid = n_of_int (int_of_string t.(2)) in
             let n = int_of_string t.(3) in
             let okc = ref 0 in
             for i = 0 to n - 1 do
               let c = CSPub (tid, JNum (str_of_string (string_of_int i))) in
               let (k, tk) = do_call h c in
               if answer_of k c tk = "ok" then incr okc
             done;
             Printf.sprintf "spub:%d/%d" !okc n
         | "buffer" ->
             Hashtbl.replace buffers t.(2) (int_of_string t.(1), ref sb_init);
             buffer_order := !buffer_order @ [t.(2)];
             "ok"
         | "later" ->
             let (_, sb) = Hashtbl.find buffers t.(1) in
             let (s', _) = bstep !sb (Later ((if t.(2) = "set" then BSet else BPub), a 3, json_of_tok t.(4))) in
             sb := s';
             "ok"
         | "lover" ->
             strip := true;
             let (h, sb) = Hashtbl.find buffers t.(1) in
             let n = int_of_string t.(2) in
             let prefix = unhex t.(3) in
             for round = 0 to 1 do
               for i = 0 to n - 1 do
                 let key = str_of_string (Printf.sprintf "%s/%d" prefix i) in
                 let v = JNum (str_of_string (string_of_int (round * 1000 + i))) in
                 let (s', _) = bstep !sb (Later ((if i mod 5 = 0 then BPub else BSet), key, v)) in
                 sb := s'
               done;
               if round = 0 then
                 List.iter (fun (k, key) ->
                     let (s', out) = bstep !sb (Fire (k, key)) in
                     sb := s';
                     List.iter (function
                         | SendSet (key, v) -> ignore (do_call h (CSet (key, v)))
                         | SendPublish (key, v) -> ignore (do_call h (CPublish (key, v)))) out) !sb.sb_timers
             done;
             "ok"
         | "lburst" ->
             let (_, sb) = Hashtbl.find buffers t.(1) in
             let n = int_of_string t.(2) in
             let prefix = unhex t.(3) in
             let base = int_of_string t.(4) in
             for i = 0 to n - 1 do
               let key = str_of_string (Printf.sprintf "%s/%d" prefix i) in
               let v = JNum (str_of_string (string_of_int (base + i))) in
               let (s', _) = bstep !sb (Later ((if i mod 5 = 0 then BPub else BSet), key, v)) in
               sb := s'
             done;
             "ok"
         | "sleep" ->
             strip := true;
             (* long enough for every sleeping task to wake up *)
             List.iter (fun b ->
                 let (h, sb) = Hashtbl.find buffers b in
                 List.iter (fun (k, key) ->
                     let (s', out) = bstep !sb (Fire (k, key)) in
                     sb := s';
                     List.iter (function
                         | SendSet (key, v) -> ignore (do_call h (CSet (key, v)))
                         | SendPublish (key, v) -> ignore (do_call h (CPublish (key, v)))) out) !sb.sb_timers) !buffer_order;
             "ok"
         | _ -> failwith "op") in
      let nsess = !nh in
      let lines = List.rev_map (fun (c, d, m) ->
          Printf.sprintf "%d:%c>%s" c d (match m with `C cm -> canon_json (enc_cmsg cm) nsess !strip | `S sm -> canon_s sm nsess !strip)) !msgs in
      let evs = List.rev_map (fun (call, m) ->
          let (h, _) = Hashtbl.find calls call in
          (call, Printf.sprintf "%d.%d:%s" h (try Hashtbl.find sub_tid call with Not_found -> 0) (event_str m))) !events in
      let evs = List.map snd (List.stable_sort (fun (a, _) (b, _) -> compare a b) evs) in
      result ^ " | " ^ String.concat " " lines ^ " | " ^ String.concat " " evs) ops

let () =
  let cases = read_cases Sys.argv.(1) in
  let oc = open_out Sys.argv.(2) in
  List.iter (fun (name, ops) ->
      Printf.fprintf oc "case %s\n" name;
      List.iter (fun l -> output_string oc l; output_char oc '\n') (run_case ops);
      output_string oc "end\n") cases;
  close_out oc
