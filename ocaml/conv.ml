(* Trusted glue between text and the extracted model's types. *)
open Model

let rec pos_of_int (i : int) : positive =
  if i = 1 then XH else if i land 1 = 0 then XO (pos_of_int (i lsr 1)) else XI (pos_of_int (i lsr 1))
let n_of_int (i : int) : n = if i = 0 then N0 else Npos (pos_of_int i)
let rec int_of_pos (p : positive) : int =
  match p with XH -> 1 | XO q -> 2 * int_of_pos q | XI q -> 2 * int_of_pos q + 1
let int_of_n (x : n) : int = match x with N0 -> 0 | Npos p -> int_of_pos p

let ten = n_of_int 10
(* decimal text -> N, any size *)
let n_of_dec (s : string) : n =
  let acc = ref N0 in
  String.iter (fun c -> acc := N.add (N.mul !acc ten) (n_of_int (Char.code c - 48))) s;
  !acc

let str_of_string (s : string) : str =
  List.init (String.length s) (fun i -> n_of_int (Char.code s.[i]))
let string_of_str (l : str) : string =
  let b = Buffer.create 16 in
  List.iter (fun c -> Buffer.add_char b (Char.chr (int_of_n c))) l;
  Buffer.contents b
let dec_of_n (x : n) : string = string_of_str (dec_of_N x)

let hexdigit c =
  match c with
  | '0' .. '9' -> Char.code c - 48
  | 'a' .. 'f' -> Char.code c - 87
  | 'A' .. 'F' -> Char.code c - 55
  | _ -> failwith "hex"
let unhex (tok : string) : string =
  (* token: one prefix char followed by hex *)
  let n = (String.length tok - 1) / 2 in
  String.init n (fun i -> Char.chr ((hexdigit tok.[1 + 2 * i] lsl 4) lor hexdigit tok.[2 + 2 * i]))
let hex (s : string) : string =
  let b = Buffer.create (2 * String.length s) in
  String.iter (fun c -> Buffer.add_string b (Printf.sprintf "%02x" (Char.code c))) s;
  Buffer.contents b
let xs (l : str) : string = "x" ^ hex (string_of_str l)
let str_of_tok (tok : string) : str = str_of_string (unhex tok)
let opt_of_tok (tok : string) : str option = if tok = "-" then None else Some (str_of_tok tok)

(* ---- JSON text <-> Model.json (canonical serde_json text) ---- *)

exception Json_error of string

let add_utf8 b cp =
  if cp < 0x80 then Buffer.add_char b (Char.chr cp)
  else if cp < 0x800 then begin
    Buffer.add_char b (Char.chr (0xC0 lor (cp lsr 6)));
    Buffer.add_char b (Char.chr (0x80 lor (cp land 0x3F))) end
  else if cp < 0x10000 then begin
    Buffer.add_char b (Char.chr (0xE0 lor (cp lsr 12)));
    Buffer.add_char b (Char.chr (0x80 lor ((cp lsr 6) land 0x3F)));
    Buffer.add_char b (Char.chr (0x80 lor (cp land 0x3F))) end
  else begin
    Buffer.add_char b (Char.chr (0xF0 lor (cp lsr 18)));
    Buffer.add_char b (Char.chr (0x80 lor ((cp lsr 12) land 0x3F)));
    Buffer.add_char b (Char.chr (0x80 lor ((cp lsr 6) land 0x3F)));
    Buffer.add_char b (Char.chr (0x80 lor (cp land 0x3F))) end

(* std::str::from_utf8: well-formed UTF-8 only (no overlongs, no surrogates, max U+10FFFF) *)
let valid_utf8 (s : string) : bool =
  let n = String.length s in
  let c i = Char.code s.[i] in
  let cont i = i < n && c i land 0xC0 = 0x80 in
  let rec go i =
    if i >= n then true
    else
      let b = c i in
      if b < 0x80 then go (i + 1)
      else if b >= 0xC2 && b <= 0xDF then cont (i + 1) && go (i + 2)
      else if b = 0xE0 then i + 1 < n && c (i + 1) >= 0xA0 && c (i + 1) <= 0xBF && cont (i + 2) && go (i + 3)
      else if b = 0xED then i + 1 < n && c (i + 1) >= 0x80 && c (i + 1) <= 0x9F && cont (i + 2) && go (i + 3)
      else if b >= 0xE1 && b <= 0xEF then cont (i + 1) && cont (i + 2) && go (i + 3)
      else if b = 0xF0 then i + 1 < n && c (i + 1) >= 0x90 && c (i + 1) <= 0xBF && cont (i + 2) && cont (i + 3) && go (i + 4)
      else if b >= 0xF1 && b <= 0xF3 then cont (i + 1) && cont (i + 2) && cont (i + 3) && go (i + 4)
      else if b = 0xF4 then i + 1 < n && c (i + 1) >= 0x80 && c (i + 1) <= 0x8F && cont (i + 2) && cont (i + 3) && go (i + 4)
      else false in
  go 0

(* serde_json's reader (StrRead, no arbitrary_precision): strict RFC 8259, recursion limit 128,
   numbers that overflow f64 are errors, lone surrogates are errors, raw control characters in
   strings are errors, trailing characters are errors *)
let parse_json (s : string) : json =
  let pos = ref 0 in
  let len = String.length s in
  let depth = ref 128 in
  let peek () = if !pos < len then s.[!pos] else raise (Json_error "eof") in
  let skip_ws () =
    while !pos < len && (match s.[!pos] with ' ' | '\t' | '\n' | '\r' -> true | _ -> false) do incr pos done in
  let expect c = if peek () = c then incr pos else raise (Json_error (Printf.sprintf "expected %c at %d" c !pos)) in
  let lit w = String.iter (fun c -> expect c) w in
  let enter () = decr depth; if !depth = 0 then raise (Json_error "recursion limit") in
  let leave () = incr depth in
  let hex4 () =
    let v = ref 0 in
    for _ = 1 to 4 do v := (!v lsl 4) lor hexdigit (peek ()); incr pos done; !v in
  let parse_string () : string =
    expect '"';
    let b = Buffer.create 16 in
    let fin = ref false in
    while not !fin do
      let c = peek () in
      incr pos;
      if c = '"' then fin := true
      else if c = '\\' then begin
        let e = peek () in
        incr pos;
        match e with
        | '"' -> Buffer.add_char b '"' | '\\' -> Buffer.add_char b '\\' | '/' -> Buffer.add_char b '/'
        | 'b' -> Buffer.add_char b '\b' | 'f' -> Buffer.add_char b '\012' | 'n' -> Buffer.add_char b '\n'
        | 'r' -> Buffer.add_char b '\r' | 't' -> Buffer.add_char b '\t'
        | 'u' ->
            let cp = hex4 () in
            if cp >= 0xDC00 && cp < 0xE000 then raise (Json_error "lone trailing surrogate")
            else if cp >= 0xD800 && cp < 0xDC00 then begin
              expect '\\'; expect 'u';
              let lo = hex4 () in
              if lo < 0xDC00 || lo > 0xDFFF then raise (Json_error "lone leading surrogate");
              add_utf8 b (0x10000 + ((cp - 0xD800) lsl 10) + (lo - 0xDC00)) end
            else add_utf8 b cp
        | _ -> raise (Json_error "escape") end
      else if Char.code c < 0x20 then raise (Json_error "control character in string")
      else Buffer.add_char b c
    done;
    Buffer.contents b in
  let digits () =
    let st = !pos in
    while !pos < len && (match s.[!pos] with '0' .. '9' -> true | _ -> false) do incr pos done;
    if !pos = st then raise (Json_error "digit expected") in
  let number () : json =
    let start = !pos in
    if peek () = '-' then incr pos;
    (match peek () with
     | '0' -> incr pos; if !pos < len && (match s.[!pos] with '0' .. '9' -> true | _ -> false) then raise (Json_error "leading zero")
     | '1' .. '9' -> digits ()
     | _ -> raise (Json_error (Printf.sprintf "unexpected char at %d" !pos)));
    let isfloat = ref false in
    if !pos < len && s.[!pos] = '.' then (isfloat := true; incr pos; digits ());
    if !pos < len && (s.[!pos] = 'e' || s.[!pos] = 'E') then begin
      isfloat := true;
      incr pos; if !pos < len && (s.[!pos] = '+' || s.[!pos] = '-') then incr pos; digits () end;
    let txt = String.sub s start (!pos - start) in
    (match classify_float (float_of_string txt) with FP_infinite | FP_nan -> raise (Json_error "number out of range") | _ -> ());
    ignore !isfloat;
    JNum (str_of_string txt) in
  let rec value () : json =
    skip_ws ();
    match peek () with
    | 'n' -> lit "null"; JNull
    | 't' -> lit "true"; JBool true
    | 'f' -> lit "false"; JBool false
    | '"' -> JStr (str_of_string (parse_string ()))
    | '[' ->
        enter ();
        incr pos; skip_ws ();
        let r =
          if peek () = ']' then (incr pos; JArr [])
          else begin
            let items = ref [] in
            let fin = ref false in
            while not !fin do
              items := value () :: !items;
              skip_ws ();
              if peek () = ',' then incr pos else (expect ']'; fin := true)
            done;
            JArr (List.rev !items) end in
        leave (); r
    | '{' ->
        enter ();
        incr pos; skip_ws ();
        let r =
          if peek () = '}' then (incr pos; JObj [])
          else begin
            let items = ref [] in
            let fin = ref false in
            while not !fin do
              skip_ws ();
              let k = parse_string () in
              skip_ws (); expect ':';
              let v = value () in
              items := (str_of_string k, v) :: !items;
              skip_ws ();
              if peek () = ',' then incr pos else (expect '}'; fin := true)
            done;
            JObj (List.rev !items) end in
        leave (); r
    | _ -> number ()
  in
  let v = value () in
  skip_ws ();
  if !pos <> len then raise (Json_error "trailing");
  v

(* serde_json's compact writer *)
let print_json (j : json) : string =
  let b = Buffer.create 64 in
  let put_string (s : string) =
    Buffer.add_char b '"';
    String.iter (fun c ->
        match c with
        | '"' -> Buffer.add_string b "\\\""
        | '\\' -> Buffer.add_string b "\\\\"
        | '\b' -> Buffer.add_string b "\\b"
        | '\012' -> Buffer.add_string b "\\f"
        | '\n' -> Buffer.add_string b "\\n"
        | '\r' -> Buffer.add_string b "\\r"
        | '\t' -> Buffer.add_string b "\\t"
        | c when Char.code c < 0x20 -> Buffer.add_string b (Printf.sprintf "\\u%04x" (Char.code c))
        | c -> Buffer.add_char b c) s;
    Buffer.add_char b '"' in
  let rec go j =
    match j with
    | JNull -> Buffer.add_string b "null"
    | JBool true -> Buffer.add_string b "true"
    | JBool false -> Buffer.add_string b "false"
    | JNum l -> Buffer.add_string b (string_of_str l)
    | JStr s -> put_string (string_of_str s)
    | JArr l ->
        Buffer.add_char b '[';
        List.iteri (fun i x -> if i > 0 then Buffer.add_char b ','; go x) l;
        Buffer.add_char b ']'
    | JObj l ->
        Buffer.add_char b '{';
        List.iteri (fun i (k, x) -> if i > 0 then Buffer.add_char b ','; put_string (string_of_str k); Buffer.add_char b ':'; go x) l;
        Buffer.add_char b '}'
  in
  go j;
  Buffer.contents b

let js (j : json) : string = "j" ^ hex (string_of_str (Model.print j))
let json_of_tok (tok : string) : json = parse_json (unhex tok)

let read_cases (path : string) : (string * string list) list =
  let ic = open_in path in
  let cases = ref [] in
  let cur_name = ref "" in
  let cur_ops = ref [] in
  (try
     while true do
       let line = String.trim (input_line ic) in
       if line = "" then ()
       else if String.length line > 5 && String.sub line 0 5 = "case " then begin
         cur_name := String.sub line 5 (String.length line - 5); cur_ops := [] end
       else if line = "end" then cases := (!cur_name, List.rev !cur_ops) :: !cases
       else cur_ops := line :: !cur_ops
     done
   with End_of_file -> close_in ic);
  List.rev !cases
