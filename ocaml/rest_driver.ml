(* extracted REST model (Model/Rest.v) on a case file; same grammar as harness/src/rest_engine.rs *)
open Model
open Conv

let rec sort_keys (j : json) : json =
  match j with
  | JArr l -> JArr (List.map sort_keys l)
  | JObj l -> JObj (List.sort (fun (a, _) (b, _) -> compare (string_of_str a) (string_of_str b)) (List.map (fun (k, v) -> (k, sort_keys v)) l))
  | x -> x

let claims_of (j : json) : claims =
  let strs j = (match j with JArr l -> List.filter_map (function JStr s -> Some s | _ -> None) l | _ -> []) in
  match j with
  | JObj fs ->
      (match (try Some (List.assoc (str_of_string "worterbuchPrivileges") fs) with Not_found -> None) with
       | Some (JObj ps) ->
           let get k = (try strs (List.assoc (str_of_string k) ps) with Not_found -> []) in
           { c_read = get "read"; c_write = get "write"; c_delete = get "delete" }
       | _ -> { c_read = []; c_write = []; c_delete = [] })
  | _ -> { c_read = []; c_write = []; c_delete = [] }

let starts s p = String.length s >= String.length p && String.sub s 0 (String.length p) = p
let after s p = String.sub s (String.length p) (String.length s - String.length p)

let kvs_str (l : (str * json) list) : string =
  "kvs[" ^ String.concat ";" (List.sort compare (List.map (fun (k, v) -> xs k ^ "=" ^ js v) l)) ^ "]"
let names_str (l : str list) : string =
  "names[" ^ String.concat ";" (List.sort compare (List.map xs l)) ^ "]"

let run_case (ops : string list) : string list =
  match ops with
  | [] -> []
  | first :: rest ->
      let auth = (try ignore (Str_find.find first "auth=1"); true with Not_found -> false) in
      (* a running server has populated $SYS (version, license, ...): one internal entry stands for it *)
      let core = ref (fst (step init (OSet (n_of_int 0, str_of_string "$SYS/version", JStr (str_of_string "x"), true))) ) in
      "ok" :: List.map (fun line ->
          let t = Array.of_list (String.split_on_char ' ' line) in
          let tok = (match t.(1) with
                     | "none" -> TNone
                     | "bad" -> TInvalid
                     | x when starts x "expired:" || starts x "forged:" -> TInvalid
                     | x -> TClaims (claims_of (json_of_tok x))) in
          let path = unhex t.(3) in
          let body () = json_of_tok t.(4) in
          let req =
            if path = "export" then Some RExport
            else if path = "import" then Some (RImport (body ()))
            else if path = "ls" then Some (RLs None)
            else if starts path "ls/" then Some (RLs (Some (str_of_string (after path "ls/"))))
            else if starts path "get/" then Some (RGet (str_of_string (after path "get/")))
            else if starts path "pget/" then Some (RPGet (str_of_string (after path "pget/")))
            else if starts path "set/" then Some (RSet (str_of_string (after path "set/"), body ()))
            else if starts path "publish/" then Some (RPublish (str_of_string (after path "publish/"), body ()))
            else if starts path "delete/" then Some (RDelete (str_of_string (after path "delete/")))
            else if starts path "pdelete/" then Some (RPDelete (str_of_string (after path "pdelete/")))
            else None in
          match req with
          | None -> "404"
          | Some r ->
              let ((core', _), resp) = rest_handle auth tok !core r in
              core := core';
              (match resp with
               | RStatus st -> dec_of_n st
               | R200 BOk -> "200 ok"
               | R200 (BJson v) -> "200 " ^ js v
               | R200 (BKvs l) -> "200 " ^ kvs_str l
               | R200 (BNames l) -> "200 " ^ names_str (List.filter (fun n -> string_of_str n <> "$SYS") l)
               | R200 (BExport j) -> "200 " ^ js (sort_keys j))) rest

let () =
  let cases = read_cases Sys.argv.(1) in
  let oc = open_out Sys.argv.(2) in
  List.iter (fun (name, ops) ->
      Printf.fprintf oc "case %s\n" name;
      List.iter (fun l -> output_string oc l; output_char oc '\n') (run_case ops);
      output_string oc "end\n") cases;
  close_out oc
