//! C20: the real client library (worterbuch-client) against a real in-process server, through a recording
//! proxy on the unix socket: everything the library sends and receives is observed, next to what its API returns.
//!   connect <h>                                   a new connection (handle h = index of the connection)
//!   call <h> <kind> <args..>                      one awaited API call; kinds below
//!   par <h> <n> <x key prefix>                    n tasks on clones of handle h: set prefix/<i> = i, then get prefix/<i>
//!   buffer <h> <b> <delay ms>                     a SendBuffer on handle h
//!   later <b> set|pub <x key> <j value>           set_later / publish_later
//!   sleep <ms>
//! output per op: `<result> | <c>:C><msg> ... <c>:S><msg> ... | <events of subscriptions>`
//!   messages are canonical JSON texts (hex); for `par` they are sorted and stripped of transaction ids
use crate::util::*;
use serde_json::{Value, json};
use std::collections::HashMap;
use std::path::PathBuf;
use std::sync::{Arc, Mutex};
use std::time::Duration;
use tokio::io::{AsyncBufReadExt, AsyncWriteExt, BufReader};
use tokio::net::{UnixListener, UnixStream};
use tokio::sync::mpsc;
use worterbuch::{Config, UnixEndpoint, spawn_worterbuch};
use worterbuch_client::{self as wbc, Worterbuch};

type Log = Arc<Mutex<Vec<(usize, char, String)>>>;

async fn proxy(listener: UnixListener, server: PathBuf, log: Log) {
    let mut n = 0usize;
    loop {
        let Ok((client, _)) = listener.accept().await else { break };
        let idx = n;
        n += 1;
        let Ok(upstream) = UnixStream::connect(&server).await else { break };
        let (cr, mut cw) = client.into_split();
        let (sr, mut sw) = upstream.into_split();
        let l1 = log.clone();
        tokio::spawn(async move {
            let mut lines = BufReader::new(cr).lines();
            while let Ok(Some(line)) = lines.next_line().await {
                l1.lock().expect("log").push((idx, 'C', line.clone()));
                if sw.write_all(line.as_bytes()).await.is_err() || sw.write_all(b"\n").await.is_err() {
                    break;
                }
            }
            sw.shutdown().await.ok();
        });
        let l2 = log.clone();
        tokio::spawn(async move {
            let mut lines = BufReader::new(sr).lines();
            while let Ok(Some(line)) = lines.next_line().await {
                l2.lock().expect("log").push((idx, 'S', line.clone()));
                if cw.write_all(line.as_bytes()).await.is_err() || cw.write_all(b"\n").await.is_err() {
                    break;
                }
            }
            l2.lock().expect("log").push((idx, 'S', "closed".to_owned()));
            cw.shutdown().await.ok();
        });
    }
}

fn canon_msg(line: &str, cids: &[String], strip_tid: bool) -> String {
    if line == "closed" {
        return "closed".to_owned();
    }
    let mut text = line.to_owned();
    for (n, cid) in cids.iter().enumerate() {
        text = text.replace(cid.as_str(), &format!("@CID{n}@"));
    }
    let mut v: Value = match serde_json::from_str(&text) {
        Ok(v) => v,
        Err(_) => return format!("?{}", hex::encode(text)),
    };
    if let Some(w) = v.get("welcome") {
        return format!("welcome:auth={}", w["info"]["authorizationRequired"].as_bool().unwrap_or(false) as u8);
    }
    if let Some(p) = v.get_mut("pState") {
        for k in ["keyValuePairs", "deleted"] {
            if let Some(a) = p.get_mut(k).and_then(|x| x.as_array_mut()) {
                a.sort_by_key(|x| x["key"].as_str().unwrap_or("").to_owned());
            }
        }
    }
    if let Some(p) = v.get_mut("lsState") {
        if let Some(a) = p.get_mut("children").and_then(|x| x.as_array_mut()) {
            a.sort_by_key(|x| x.as_str().unwrap_or("").to_owned());
        }
    }
    if let Some(e) = v.get_mut("err") {
        if let Some(o) = e.as_object_mut() {
            o.remove("metadata");
        }
    }
    if strip_tid {
        if let Some(o) = v.as_object_mut() {
            for (_, body) in o.iter_mut() {
                if let Some(b) = body.as_object_mut() {
                    b.remove("transactionId");
                }
            }
        }
    }
    js(&v)
}

fn res_str<T: std::fmt::Debug>(r: Result<T, wbc::ConnectionError>, f: impl FnOnce(T) -> String) -> String {
    match r {
        Ok(v) => f(v),
        Err(wbc::ConnectionError::ServerResponse(e)) => format!("err:{}", e.error_code as u8),
        Err(wbc::ConnectionError::WorterbuchError(e)) => format!("werr:{}", worterbuch_common::ErrorCode::from(&*e) as u8),
        Err(e) => format!("connerr:{}", hex::encode(format!("{e:?}").chars().take(40).collect::<String>())),
    }
}

fn kvs_str(kvs: Vec<worterbuch_common::KeyValuePair>) -> String {
    let mut items: Vec<String> = kvs.iter().map(|kv| format!("{}={}", xs(&kv.key), js(&kv.value))).collect();
    items.sort();
    format!("kvs[{}]", items.join(";"))
}

enum SubRx {
    Val(mpsc::UnboundedReceiver<Option<Value>>),
    PSt(mpsc::UnboundedReceiver<worterbuch_common::PStateEvent>),
    Ls(mpsc::UnboundedReceiver<Vec<String>>),
}

async fn run_case(dir: PathBuf, ops: Vec<String>) -> Vec<String> {
    let sock = dir.join("server.sock");
    let psock = dir.join("proxy.sock");
    let mut config = Config::new(None).await.expect("config");
    config.ws_endpoint = None;
    config.tcp_endpoint = None;
    config.unix_endpoint = Some(UnixEndpoint { path: sock.clone() });
    config.unix_disabled = false;
    config.use_persistence = false;
    config.extended_monitoring = false;
    config.channel_buffer_size = 10_000;
    config.auth_token_key = None;
    config.leader = false;
    config.follower = false;
    let (done_tx, done_rx) = tokio::sync::oneshot::channel::<Vec<String>>();
    let _ = tosub::build_root("client-harness")
        .start(async move |s: tosub::SubsystemHandle| {
            let _api = spawn_worterbuch(&s, config).await.map_err(|e| miette::miette!("{e}"))?;
            for _ in 0..500 {
                if sock.exists() {
                    break;
                }
                tokio::time::sleep(Duration::from_millis(2)).await;
            }
            let log: Log = Arc::new(Mutex::new(vec![]));
            let listener = UnixListener::bind(&psock).expect("bind proxy");
            tokio::spawn(proxy(listener, sock.clone(), log.clone()));
            let mut handles: Vec<Worterbuch> = vec![];
            let mut cids: Vec<String> = vec![];
            let mut buffers: HashMap<String, wbc::buffer::SendBuffer> = HashMap::new();
            let mut subs: Vec<(u64, usize, SubRx)> = vec![];
            let mut lines = vec![];
            let mut seen = 0usize;
            for line in &ops {
                let t: Vec<&str> = line.split(' ').collect();
                let mut strip = false;
                let result: String = match t[0] {
                    "connect" => {
                        let mut cc = wbc::config::Config::default();
                        cc.proto = "unix".to_owned();
                        cc.socket_path = Some(psock.clone());
                        cc.channel_buffer_size = 1000;
                        match wbc::connect(cc).await {
                            Ok((wb, _on_disconnect)) => {
                                cids.push(wb.client_id().to_owned());
                                handles.push(wb);
                                "ok".to_owned()
                            }
                            Err(e) => format!("connerr:{}", hex::encode(format!("{e:?}"))),
                        }
                    }
                    "call" => {
                        let h: usize = t[1].parse().expect("h");
                        let wb = handles[h].clone();
                        let a = |i: usize| unhex(t[i]);
                        let opt = |i: usize| if t[i] == "-" { None } else { Some(unhex(t[i])) };
                        let tmo = Duration::from_secs(15);      // (under load an answer may take long; a call that never resolves is what is reported)
                        let fut = async {
                            match t[2] {
                                "set" => res_str(wb.set_generic(a(3), json_of(t[4])).await, |_| "ok".into()),
                                "cset" => res_str(wb.cset_generic(a(3), json_of(t[4]), t[5].parse().expect("ver")).await, |_| "ok".into()),
                                "publish" => res_str(wb.publish_generic(a(3), json_of(t[4])).await, |_| "ok".into()),
                                "get" => res_str(wb.get_generic(a(3)).await, |v| v.map(|v| format!("val:{}", js(&v))).unwrap_or("none".into())),
                                "cget" => res_str(wb.cget_generic(a(3)).await, |v| v.map(|(v, n)| format!("cval:{}:{}", n, js(&v))).unwrap_or("none".into())),
                                "pget" => res_str(wb.pget_generic(a(3)).await, kvs_str),
                                "delete" => res_str(wb.delete_generic(a(3)).await, |v| v.map(|v| format!("val:{}", js(&v))).unwrap_or("none".into())),
                                "pdelete" => res_str(wb.pdelete_generic(a(3), t[4] == "1").await, kvs_str),
                                "ls" => res_str(wb.ls(opt(3)).await, |mut v| { v.sort(); format!("names[{}]", v.iter().map(|n| xs(n)).collect::<Vec<_>>().join(";")) }),
                                "pls" => res_str(wb.pls(opt(3)).await, |mut v| { v.sort(); format!("names[{}]", v.iter().map(|n| xs(n)).collect::<Vec<_>>().join(";")) }),
                                "spubinit" => res_str(wb.spub_init(a(3)).await, |tid| format!("tid:{tid}")),
                                "spub" => res_str(wb.spub_generic(t[3].parse().expect("tid"), json_of(t[4])).await, |_| "ok".into()),
                                "lock" => res_str(wb.lock(a(3)).await, |_| "ok".into()),
                                "release" => res_str(wb.release_lock(a(3)).await, |_| "ok".into()),
                                "set_async" => res_str(wb.set_generic_async(a(3), json_of(t[4])).await, |tid| format!("tid:{tid}")),
                                "get_async" => res_str(wb.get_async(a(3)).await, |tid| format!("tid:{tid}")),
                                "subscribe" => match wb.subscribe_generic(a(3), t[4] == "1", t[5] == "1").await {
                                    Ok((rx, tid)) => { subs.push((tid, h, SubRx::Val(rx))); format!("tid:{tid}") }
                                    Err(e) => res_str::<()>(Err(e), |_| String::new()),
                                },
                                "psubscribe" => match wb.psubscribe_generic(a(3), t[4] == "1", t[5] == "1", None).await {
                                    Ok((rx, tid)) => { subs.push((tid, h, SubRx::PSt(rx))); format!("tid:{tid}") }
                                    Err(e) => res_str::<()>(Err(e), |_| String::new()),
                                },
                                "subls" => match wb.subscribe_ls(opt(3)).await {
                                    Ok((rx, tid)) => { subs.push((tid, h, SubRx::Ls(rx))); format!("tid:{tid}") }
                                    Err(e) => res_str::<()>(Err(e), |_| String::new()),
                                },
                                "unsubscribe" => res_str(wb.unsubscribe(t[3].parse().expect("tid")).await, |_| "ok".into()),
                                "unsubscribe_async" => res_str(wb.unsubscribe_async(t[3].parse().expect("tid")).await, |tid| format!("tid:{tid}")),
                                "unsubls" => res_str(wb.unsubscribe_ls(t[3].parse().expect("tid")).await, |_| "ok".into()),
                                "unsubls_async" => res_str(wb.unsubscribe_ls_async(t[3].parse().expect("tid")).await, |tid| format!("tid:{tid}")),
                                "cset_async" => res_str(wb.cset_generic_async(a(3), json_of(t[4]), t[5].parse().expect("ver")).await, |tid| format!("tid:{tid}")),
                                "spubinit_async" => res_str(wb.spub_init_async(a(3)).await, |tid| format!("tid:{tid}")),
                                "spub_async" => res_str(wb.spub_generic_async(t[3].parse().expect("tid"), json_of(t[4])).await, |tid| format!("tid:{tid}")),
                                "publish_async" => res_str(wb.publish_generic_async(a(3), json_of(t[4])).await, |tid| format!("tid:{tid}")),
                                "cget_async" => res_str(wb.cget_async(a(3)).await, |tid| format!("tid:{tid}")),
                                "pget_async" => res_str(wb.pget_async(a(3)).await, |tid| format!("tid:{tid}")),
                                "delete_async" => res_str(wb.delete_async(a(3)).await, |tid| format!("tid:{tid}")),
                                "pdelete_async" => res_str(wb.pdelete_async(a(3), t[4] == "1").await, |tid| format!("tid:{tid}")),
                                "ls_async" => res_str(wb.ls_async(opt(3)).await, |tid| format!("tid:{tid}")),
                                "pls_async" => res_str(wb.pls_async(opt(3)).await, |tid| format!("tid:{tid}")),
                                "subscribe_async" => res_str(wb.subscribe_async(a(3), t[4] == "1", t[5] == "1").await, |tid| format!("tid:{tid}")),
                                "psubscribe_async" => res_str(wb.psubscribe_async(a(3), t[4] == "1", t[5] == "1", None).await, |tid| format!("tid:{tid}")),
                                "subls_async" => res_str(wb.subscribe_ls_async(opt(3)).await, |tid| format!("tid:{tid}")),
                                "lock_async" => res_str(wb.lock_async(a(3)).await, |tid| format!("tid:{tid}")),
                                "release_async" => res_str(wb.release_lock_async(a(3)).await, |tid| format!("tid:{tid}")),
                                other => panic!("unknown call {other}"),
                            }
                        };
                        match tokio::time::timeout(tmo, fut).await {
                            Ok(r) => r,
                            Err(_) => "noanswer".to_owned(),
                        }
                    }
                    "par" => {
                        strip = true;
                        let h: usize = t[1].parse().expect("h");
                        let n: usize = t[2].parse().expect("n");
                        let prefix = unhex(t[3]);
                        let mut tasks = vec![];
                        for i in 0..n {
                            let wb = handles[h].clone();
                            let key = format!("{prefix}/{i}");
                            tasks.push(tokio::spawn(async move {
                                let r1 = wb.set_generic(key.clone(), json!(i)).await.is_ok();
                                let r2 = wb.get_generic(key.clone()).await.ok().flatten();
                                let r3 = wb.cget_generic(format!("{key}/absent")).await.ok().flatten().is_none();
                                format!("{}:{}:{}", r1 as u8, r2.map(|v| js(&v)).unwrap_or("none".into()), r3 as u8)
                            }));
                        }
                        let mut rs = vec![];
                        for tk in tasks {
                            rs.push(tokio::time::timeout(Duration::from_secs(20), tk).await.ok().and_then(|r| r.ok()).unwrap_or("noanswer".into()));
                        }
                        rs.join(",")
                    }
                    "parspub" => {
                        // n tasks publish on the same stream at once
                        strip = true;
                        let h: usize = t[1].parse().expect("h");
                        let tid: u64 = t[2].parse().expect("tid");
                        let n: usize = t[3].parse().expect("n");
                        let mut tasks = vec![];
                        for i in 0..n {
                            let wb = handles[h].clone();
                            tasks.push(tokio::spawn(async move {
                                tokio::time::timeout(Duration::from_millis(800), wb.spub_generic(tid, json!(i))).await.map(|r| r.is_ok()).unwrap_or(false)
                            }));
                        }
                        let mut okc = 0;
                        for tk in tasks {
                            if tk.await.unwrap_or(false) { okc += 1; }
                        }
                        format!("spub:{okc}/{n}")
                    }
                    "buffer" => {
                        let h: usize = t[1].parse().expect("h");
                        let b = handles[h].send_buffer(Duration::from_millis(t[3].parse().expect("ms"))).await;
                        buffers.insert(t[2].to_owned(), b);
                        "ok".to_owned()
                    }
                    "later" => {
                        let b = buffers.get(t[1]).expect("buffer");
                        let r = match t[2] {
                            "set" => b.set_later(unhex(t[3]), json_of(t[4])).await,
                            _ => b.publish_later(unhex(t[3]), json_of(t[4])).await,
                        };
                        if r.is_ok() { "ok".to_owned() } else { "err".to_owned() }
                    }
                    "lover" => {
                        // two bursts on the same keys, the second one <delay + extra> ms after the first: it lands while the
                        // flushes of the first are on their way (nothing is awaited in between)
                        strip = true;
                        let b = buffers.get(t[1]).expect("buffer");
                        let n: usize = t[2].parse().expect("n");
                        let prefix = unhex(t[3]);
                        let gap: u64 = t[4].parse().expect("ms");
                        for round in 0..2i64 {
                            for i in 0..n {
                                let v = json!(round * 1000 + i as i64);
                                let _ = if i % 5 == 0 { b.publish_later(format!("{prefix}/{i}"), v).await } else { b.set_later(format!("{prefix}/{i}"), v).await };
                            }
                            if round == 0 {
                                tokio::time::sleep(Duration::from_millis(gap)).await;
                            }
                        }
                        "ok".to_owned()
                    }
                    "lburst" => {
                        // n values handed to the buffer back to back: keys <prefix>/i, values base + i, every 5th a publish
                        let b = buffers.get(t[1]).expect("buffer");
                        let n: usize = t[2].parse().expect("n");
                        let prefix = unhex(t[3]);
                        let base: i64 = t[4].parse().expect("base");
                        let mut ok = true;
                        for i in 0..n {
                            let r = if i % 5 == 0 { b.publish_later(format!("{prefix}/{i}"), json!(base + i as i64)).await } else { b.set_later(format!("{prefix}/{i}"), json!(base + i as i64)).await };
                            ok &= r.is_ok();
                        }
                        if ok { "ok".to_owned() } else { "err".to_owned() }
                    }
                    "sleep" => {
                        // sleep <ms> [<n>]: at least <ms>; with <n>, until n set / publish messages have left the library since the
                        // previous step (the sleeping tasks of the buffer wake up late under load), 20 s at most
                        strip = true;
                        tokio::time::sleep(Duration::from_millis(t[1].parse().expect("ms"))).await;
                        if let Some(n) = t.get(2).and_then(|x| x.parse::<usize>().ok()) {
                            let start = tokio::time::Instant::now();
                            loop {
                                let sent = { let l = log.lock().expect("log"); l[seen..].iter().filter(|(_, d, line)| *d == 'C' && (line.starts_with("{\"set\"") || line.starts_with("{\"publish\""))).count() };
                                if sent >= n || start.elapsed() > Duration::from_secs(20) { break; }
                                tokio::time::sleep(Duration::from_millis(20)).await;
                            }
                        }
                        "ok".to_owned()
                    }
                    other => panic!("unknown op {other}"),
                };
                // settle: until the proxy has been quiet for a moment
                let mut last = log.lock().expect("log").len();
                let start = tokio::time::Instant::now();
                loop {
                    tokio::time::sleep(Duration::from_millis(if t[0] == "later" || t[0] == "lburst" { 1 } else { 12 })).await;
                    // a fire-and-forget call returns before its message is written: wait for that message first
                    let want_c = t[0] == "call" && t[2].ends_with("_async");
                    let (now, sent) = {
                        let l = log.lock().expect("log");
                        (l.len(), !want_c || l[seen..].iter().any(|(c, d, _)| *d == 'C' && Some(*c) == t[1].parse::<usize>().ok()))
                    };
                    if (now == last && sent) || start.elapsed() > Duration::from_millis(1500) || t[0] == "later" || t[0] == "lburst" {
                        break;
                    }
                    last = now;
                }
                let new: Vec<(usize, char, String)> = { let l = log.lock().expect("log"); l[seen..].to_vec() };
                seen += new.len();
                let mut msgs: Vec<String> = new.iter().map(|(c, d, l)| format!("{c}:{d}>{}", canon_msg(l, &cids, strip))).collect();
                if strip && matches!(t[0], "par" | "parspub") {
                    msgs.sort();
                } else if strip {
                    // buffer steps (lover, sleep): ids stripped, the order on the wire kept (per direction) -- the oracle reads the
                    // order in which the values of one key were sent off it; the comparison with the model sorts
                    msgs.sort_by_key(|m| m.contains(":S>") as u8);
                } else {
                    // keep the order per connection and direction, group by connection
                    msgs.sort_by_key(|m| (m.split(':').next().unwrap_or("").parse::<usize>().unwrap_or(0), m.contains(":S>") as u8));
                }
                let mut evs = vec![];
                for (tid, h, rx) in subs.iter_mut() {
                    loop {
                        let item = match rx {
                            SubRx::Val(r) => r.try_recv().ok().map(|v| v.map(|v| format!("V{}", js(&v))).unwrap_or("D".into())),
                            SubRx::PSt(r) => r.try_recv().ok().map(|e| match e {
                                worterbuch_common::PStateEvent::KeyValuePairs(k) => format!("P{}", kvs_str(k)),
                                worterbuch_common::PStateEvent::Deleted(k) => format!("X{}", kvs_str(k)),
                            }),
                            SubRx::Ls(r) => r.try_recv().ok().map(|mut v| { v.sort(); format!("L[{}]", v.iter().map(|n| xs(n)).collect::<Vec<_>>().join(";")) }),
                        };
                        match item {
                            Some(i) => evs.push(format!("{h}.{tid}:{i}")),
                            None => break,
                        }
                    }
                }
                lines.push(format!("{result} | {} | {}", msgs.join(" "), evs.join(" ")));
            }
            done_tx.send(lines).ok();
            s.request_global_shutdown();
            Ok::<(), miette::Error>(())
        })
        .await;
    done_rx.await.unwrap_or_else(|_| vec!["HARNESS-FAILURE".to_owned()])
}

pub fn main(cases: &str, out: &str) {
    let cases = read_cases(cases);
    let base = PathBuf::from(out).with_extension("csocks");
    std::fs::create_dir_all(&base).expect("mkdir");
    let b2 = base.clone();
    run_parallel(cases, out, move |name, ops| {
        let dir = b2.join(name);
        std::fs::create_dir_all(&dir).expect("dir");
        let rt = tokio::runtime::Builder::new_multi_thread().worker_threads(2).enable_all().build().expect("rt");
        let r = rt.block_on(run_case(dir.clone(), ops.to_vec()));
        rt.shutdown_timeout(Duration::from_millis(200));
        std::fs::remove_dir_all(&dir).ok();
        r
    });
    std::fs::remove_dir_all(&base).ok();
}
