//! C19: the real `elect_leader` of worterbuch-cluster-orchestrator on tokio's paused clock, with real UDP
//! sockets on loopback for the node and for every configured peer.
//!   cfg <x me> <min ms> <quorum|-> <prio|-> <x peer,x peer,...|->     first op; `refused` if the configuration is rejected
//!   recv <x bytes>          a datagram with these bytes arrives at the node's socket
//!   timeout                 time passes until the timer of the current phase has expired (min + 1 ms)
//!   peers <x peer,...|->    the config-file watcher delivers a changed peer list (try_send on peers_rx)
//! output per op: `<datagrams the node sent, in order per destination> | <outcome>`
//!   datagram: `<peer index>:VR:<prio>` (vote request) | `<peer index>:VS` (vote response) | `<idx>:HB..`
//!   outcome:  `-` | `leader` | `follower:<x id>:<server|noserver>` | `failed` | `done`
//! The random part of the election timeout is pinned to 0 through the `verif` hook, so every phase timer is
//! exactly <min> ms from the start of its phase.
use crate::util::*;
use std::net::{IpAddr, Ipv4Addr, SocketAddr, UdpSocket as StdUdp};
use std::time::Duration;
use tokio::net::UdpSocket;
use tokio::sync::mpsc;
use worterbuch_cluster_orchestrator::verif::*;

fn ids_of(tok: &str) -> Vec<String> {
    if tok == "-" { vec![] } else { tok.split(',').map(unhex).collect() }
}

struct PeerSock {
    id: String,
    sock: StdUdp,
}

fn mk_peers(ids: &[String], socks: &mut Vec<PeerSock>) -> Peers {
    // one socket per list position (a node id listed twice gets two entries, as in the config file)
    let lo = IpAddr::V4(Ipv4Addr::LOCALHOST);
    let mut infos = vec![];
    socks.clear();
    for id in ids {
        let s = StdUdp::bind(SocketAddr::new(lo, 0)).expect("bind peer");
        s.set_nonblocking(true).expect("nonblocking");
        let port = s.local_addr().expect("addr").port();
        infos.push(peer_info(id, lo, port, port, None));
        socks.push(PeerSock { id: id.clone(), sock: s });
    }
    Peers::verif_new(infos)
}

fn canon_dgram(bytes: &[u8]) -> String {
    let v: serde_json::Value = match serde_json::from_slice(bytes) {
        Ok(v) => v,
        Err(_) => return format!("RAW{}", hex::encode(bytes)),
    };
    if let Some(r) = v.pointer("/vote/request") {
        format!("VR:{}:{}", xs(r["nodeId"].as_str().unwrap_or("?")), r["priority"])
    } else if let Some(r) = v.pointer("/vote/response") {
        format!("VS:{}", xs(r["nodeId"].as_str().unwrap_or("?")))
    } else if let Some(r) = v.pointer("/heartbeat/request") {
        format!("HQ:{}", xs(r["nodeId"].as_str().unwrap_or("?")))
    } else if let Some(r) = v.pointer("/heartbeat/response") {
        format!("HS:{}", xs(r["nodeId"].as_str().unwrap_or("?")))
    } else {
        format!("RAW{}", hex::encode(bytes))
    }
}

fn drain(socks: &[PeerSock]) -> Vec<String> {
    let mut out = vec![];
    let mut buf = [0u8; 65507];
    for (i, p) in socks.iter().enumerate() {
        while let Ok((n, _)) = p.sock.recv_from(&mut buf) {
            out.push(format!("{i}:{}", canon_dgram(&buf[..n])));
        }
        let _ = &p.id;
    }
    out
}

fn run_case(ops: &[String]) -> Vec<String> {
    let rt = tokio::runtime::Builder::new_current_thread().enable_all().start_paused(true).build().expect("rt");
    let ops = ops.to_vec();
    let (done_tx, done_rx) = std::sync::mpsc::channel::<Vec<String>>();
    rt.block_on(async move {
        let _ = tosub::build_root("election-harness")
            .start(async move |s: tosub::SubsystemHandle| {
                set_fixed_jitter(Some(0.0));
                let t: Vec<&str> = ops[0].split(' ').collect();
                assert_eq!(t[0], "cfg");
                let me = unhex(t[1]);
                let min: u64 = t[2].parse().expect("min");
                let quorum: Option<usize> = if t[3] == "-" { None } else { Some(t[3].parse().expect("quorum")) };
                let prio_cfg: Option<i64> = if t[4] == "-" { None } else { Some(t[4].parse().expect("prio")) };
                let mut socks = vec![];
                let mut peers = mk_peers(&ids_of(t[5]), &mut socks);
                let lo = IpAddr::V4(Ipv4Addr::LOCALHOST);
                let mut socket = UdpSocket::bind(SocketAddr::new(lo, 0)).await.expect("bind node");
                let node_addr = socket.local_addr().expect("addr");
                let sender = StdUdp::bind(SocketAddr::new(lo, 0)).expect("bind sender");
                let mut out = vec![];
                let mut config = match Config::verif_new(me.clone(), min, quorum, prio_cfg, node_addr.port(), node_addr.port(), "/bin/false".into(), "/nonexistent".into(), &peers) {
                    Ok(c) => c,
                    Err(_) => {
                        out.push("refused".to_owned());
                        for _ in 1..ops.len() { out.push("refused".to_owned()); }
                        done_tx.send(out).ok();
                        s.request_global_shutdown();
                        return Ok::<(), miette::Error>(());
                    }
                };
                out.push("ok".to_owned());
                let prio = config.priority().await;
                let me_info = peer_info(&me, lo, node_addr.port(), node_addr.port(), prio_cfg);
                let (peers_tx, mut peers_rx) = mpsc::channel::<(Peers, PeerInfo, Option<usize>)>(1);
                let mut result = None;
                {
                    let fut = elect_leader(&s, &mut socket, &mut config, &mut peers, &mut peers_rx, prio);
                    tokio::pin!(fut);
                    for line in &ops[1..] {
                        let (op, arg) = line.split_once(' ').unwrap_or((line.as_str(), ""));
                        if result.is_some() {
                            out.push(" | done".to_owned());
                            continue;
                        }
                        let mut wait = Duration::from_millis(3);
                        let mut new_socks: Option<Vec<PeerSock>> = None;
                        match op {
                            "recv" => {
                                let bytes = hex::decode(&arg[1..]).expect("hex");
                                sender.send_to(&bytes, node_addr).expect("send");
                            }
                            "timeout" => wait = Duration::from_millis(min + 1),
                            "peers" => {
                                let mut ns = vec![];
                                let p = mk_peers(&ids_of(arg), &mut ns);
                                if peers_tx.try_send((p, me_info.clone(), quorum)).is_ok() {
                                    new_socks = Some(ns);
                                }
                            }
                            other => panic!("unknown op {other}"),
                        }
                        tokio::select! {
                            biased;
                            r = &mut fut => result = Some(r),
                            _ = tokio::time::sleep(wait) => {}
                        }
                        if result.is_none() && op == "timeout" {
                            tokio::select! {
                                biased;
                                r = &mut fut => result = Some(r),
                                _ = tokio::time::sleep(Duration::from_millis(3)) => {}
                            }
                        }
                        let mut sent = drain(&socks);
                        if let Some(ns) = new_socks {
                            // datagrams to the new list can only be sent after the election took the new configuration
                            sent.extend(drain(&ns).into_iter().map(|d| format!("n{d}")));
                            socks = ns;
                        }
                        let oc = match &result {
                            None => "-".to_owned(),
                            Some(Ok(ElectionOutcome::Leader)) => "leader".to_owned(),
                            Some(Ok(ElectionOutcome::Follower(hb))) => format!("follower:{}", xs(heartbeat_node(hb))),
                            Some(Ok(ElectionOutcome::Cancelled)) => "cancelled".to_owned(),
                            Some(Err(_)) => "failed".to_owned(),
                        };
                        out.push(format!("{} | {}", sent.join(" "), oc));
                    }
                }
                // follower.rs: the server is started only if peers.sync_addr(leader) exists
                if let Some(Ok(ElectionOutcome::Follower(hb))) = &result {
                    let target = follow_target(&peers, hb).is_some();
                    for l in out.iter_mut() {
                        if l.contains("| follower:") {
                            l.push_str(if target { ":server" } else { ":noserver" });
                        }
                    }
                }
                done_tx.send(out).ok();
                s.request_global_shutdown();
                Ok::<(), miette::Error>(())
            })
            .await;
    });
    done_rx.try_recv().unwrap_or_else(|_| vec!["HARNESS-FAILURE".to_owned()])
}

pub fn main(cases: &str, out: &str) {
    let cases = read_cases(cases);
    run_parallel(cases, out, |_, ops| run_case(ops));
}
