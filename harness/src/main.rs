//! Correspondence harness: drives the real worterbuch code with the same cases the Coq model is
//! evaluated on and prints canonical observations, one line per operation.
mod agg_engine;
mod auth_engine;
mod client_engine;
mod cluster_engine;
mod codec_engine;
mod core_engine;
mod election_engine;
mod persist_engine;
mod rest_engine;
mod session_engine;
mod util;

fn main() {
    let args: Vec<String> = std::env::args().collect();
    if args.len() < 2 {
        eprintln!("usage: wbh <engine> <cases> <out>");
        std::process::exit(2);
    }
    std::panic::set_hook(Box::new(|_| {}));
    match args[1].as_str() {
        "core" => core_engine::main(&args[2], &args[3]),
        "codec" => codec_engine::main(&args[2], &args[3]),
        "auth" => auth_engine::main(&args[2], &args[3]),
        "persist" => persist_engine::main(&args[2], &args[3]),
        "agg" => agg_engine::main(&args[2], &args[3]),
        "session" => session_engine::main(&args[2], &args[3]),
        "cluster" => cluster_engine::main(&args[2], &args[3]),
        "client" => client_engine::main(&args[2], &args[3]),
        "election" => election_engine::main(&args[2], &args[3]),
        "rest" => rest_engine::main(&args[2], &args[3]),
        other => {
            eprintln!("unknown engine {other}");
            std::process::exit(2);
        }
    }
}
