//! C15: `auth::pattern_matches` and `JwtClaims::authorize` of the real code.
//!   pm x<granted> x<requested>                      -> 1 | 0
//!   authz <read|write|delete> j<claims json> x<pattern>  -> ok | denied | invalid
use crate::util::*;
use worterbuch::verif::{JwtClaims, pattern_matches};
use worterbuch_common::{AuthCheck, Privilege};

fn one(line: &str) -> String {
    let t: Vec<&str> = line.split(' ').collect();
    match t[0] {
        "pm" => (pattern_matches(&unhex(t[1]), &unhex(t[2])) as u8).to_string(),
        "authz" => {
            let p = match t[1] {
                "read" => Privilege::Read,
                "write" => Privilege::Write,
                _ => Privilege::Delete,
            };
            match serde_json::from_str::<JwtClaims>(&unhex(t[2])) {
                Err(_) => "invalid".into(),
                Ok(c) => match c.authorize(&p, AuthCheck::Pattern(&unhex(t[3]))) {
                    Ok(()) => "ok".into(),
                    Err(_) => "denied".into(),
                },
            }
        }
        other => panic!("unknown op {other}"),
    }
}

pub fn main(cases: &str, out: &str) {
    let cases = read_cases(cases);
    run_parallel(cases, out, |_, ops| ops.iter().map(|l| one(l)).collect());
}
