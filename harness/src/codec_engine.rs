//! C14: serde round trips of the real protocol types. One line per case:
//!   <kind> j<hex of JSON text>     kind = client | server | sync
//! output: `none` if the text does not decode as that type, else
//!   `ok <hex of re-encoded text> rt=<1|0> line=<1|0>`
//! (sync messages are re-encoded canonically -- object keys sorted -- because the node tree is a HashMap)
use crate::util::*;
use serde_json::Value;
use worterbuch::verif::LeaderSyncMessage;
use worterbuch_common::{ClientMessage, ServerMessage};

fn canon(text: &str) -> String {
    let v: Value = serde_json::from_str(text).expect("reparse");
    serde_json::to_string(&v).expect("ser")
}

fn one(line: &str) -> String {
    let (kind, tok) = line.split_once(' ').expect("kind tok");
    let text = unhex(tok);
    match kind {
        "client" => match serde_json::from_str::<ClientMessage>(&text) {
            Err(_) => "none".into(),
            Ok(m) => {
                let t2 = serde_json::to_string(&m).expect("ser");
                let rt = serde_json::from_str::<ClientMessage>(&t2).map(|m2| m2 == m).unwrap_or(false);
                format!("ok {} rt={} line={}", hex::encode(t2.as_bytes()), rt as u8, !t2.contains('\n') as u8)
            }
        },
        "server" => match serde_json::from_str::<ServerMessage>(&text) {
            Err(_) => "none".into(),
            Ok(m) => {
                let t2 = serde_json::to_string(&m).expect("ser");
                let rt = serde_json::from_str::<ServerMessage>(&t2).map(|m2| m2 == m).unwrap_or(false);
                format!("ok {} rt={} line={}", hex::encode(t2.as_bytes()), rt as u8, !t2.contains('\n') as u8)
            }
        },
        "sync" => match serde_json::from_str::<LeaderSyncMessage>(&text) {
            Err(_) => "none".into(),
            Ok(m) => {
                let t2 = serde_json::to_string(&m).expect("ser");
                let rt = serde_json::from_str::<LeaderSyncMessage>(&t2)
                    .map(|m2| canon(&serde_json::to_string(&m2).expect("ser")) == canon(&t2))
                    .unwrap_or(false);
                format!("ok {} rt={} line={}", hex::encode(canon(&t2).as_bytes()), rt as u8, !t2.contains('\n') as u8)
            }
        },
        k if k.starts_with("entry") => {
            // value level: a ValueEntry built in memory, written and read back (the node / file format of the store)
            let v: Value = serde_json::from_str(&text).expect("json");
            let e = match k.strip_prefix("entryC:") {
                Some(n) => worterbuch_common::ValueEntry::Cas(v, n.parse().expect("version")),
                None => worterbuch_common::ValueEntry::Plain(v),
            };
            let t2 = serde_json::to_string(&e).expect("ser");
            let rt = serde_json::from_str::<worterbuch_common::ValueEntry>(&t2).map(|e2| e2 == e).unwrap_or(false);
            format!("ok {} rt={} line={}", hex::encode(t2.as_bytes()), rt as u8, !t2.contains('\n') as u8)
        }
        other => panic!("unknown kind {other}"),
    }
}

pub fn main(cases: &str, out: &str) {
    let cases = read_cases(cases);
    run_parallel(cases, out, |_, ops| ops.iter().map(|l| one(l)).collect());
}
