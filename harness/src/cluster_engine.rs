//! C11 / C12: leader and followers as child processes of the freshly built `worterbuch` binary, started with the
//! argv the orchestrator uses (`--leader --sync-port P --instance-name N`, `--follower --leader-address A
//! --instance-name N`); clients are TCP connections speaking newline-delimited JSON.
//!   leader                          start the leader
//!   join <f>                        start follower f (it connects, receives the initial sync)
//!   conn <c> | disc <c>             client c opens / closes its connection to the leader
//!   set <c> <x key> <j val> | cset <c> <x key> <j val> <ver> | del <c> <x key> | pdel <c> <x pattern>
//!                                   (in keys and values @CID<c>@ stands for the client id of client c)
//!   fwrite <f> <kind> <x key>       a write offered to follower f directly (set|cset|del|pdel|publish|lock)
//!   sync                            marker write on the leader, awaited on every follower
//!   dump leader|<f>                 user keys with values and CAS versions + registrations
//!   promote <f>                     kill the leader, stop follower f the way the orchestrator does (SIGTERM),
//!                                   start it again with --leader on its own data directory
//! output per op: `ok` | `r:<answer kind or error code>` | `user[...] reg[...]` for dump
use crate::util::*;
use serde_json::{Value, json};
use std::collections::HashMap;
use std::path::{Path, PathBuf};
use std::process::{Child, Command, Stdio};
use std::time::Duration;
use tokio::io::{AsyncBufReadExt, AsyncWriteExt, BufReader};
use tokio::net::TcpStream;
use tokio::net::tcp::{OwnedReadHalf, OwnedWriteHalf};

struct Conn {
    rd: tokio::io::Lines<BufReader<OwnedReadHalf>>,
    wr: OwnedWriteHalf,
    cid: String,
    tid: u64,
}

struct Node {
    child: Child,
    port: u16,
    web: u16,
    dir: PathBuf,
    name: String,
}

/// Ports are handed out from a counter that is shared by all cases of this process (the servers bind their ports some
/// time after they were chosen, and the sync listener sets SO_REUSEPORT: a port picked by binding port 0 and releasing
/// it can be handed to two cases at once, and a follower would then join a foreign leader).
fn free_port() -> u16 {
    use std::sync::atomic::{AtomicU32, Ordering};
    static NEXT: AtomicU32 = AtomicU32::new(0);
    let base = 20000 + (std::process::id() % 16) * 2500;
    loop {
        let n = NEXT.fetch_add(1, Ordering::SeqCst);
        let port = (base + n % 2500) as u16;
        if std::net::TcpListener::bind(("127.0.0.1", port)).is_ok() {
            return port;
        }
    }
}

fn server_bin() -> PathBuf {
    std::env::var("WBH_SERVER_BIN").map(PathBuf::from).unwrap_or_else(|_| PathBuf::from("/verif/harness/target-bin/debug/worterbuch"))
}

fn pct(path: &str) -> String {
    path.bytes().map(|b| if b.is_ascii_alphanumeric() || b == b'/' || b == b'-' || b == b'_' || b == b'.' { (b as char).to_string() } else { format!("%{b:02X}") }).collect()
}

/// one HTTP/1.1 request on the REST endpoint (followers serve nothing else); returns (status, body)
async fn http(web: u16, method: &str, path: &str, body: Option<&str>) -> Option<(u16, String)> {
    let (status, bytes) = http_raw(web, method, path, body.map(|b| b.as_bytes())).await?;
    Some((status, String::from_utf8_lossy(&bytes).to_string()))
}

fn find(hay: &[u8], needle: &[u8]) -> Option<usize> {
    hay.windows(needle.len()).position(|w| w == needle)
}

async fn http_raw(web: u16, method: &str, path: &str, body: Option<&[u8]>) -> Option<(u16, Vec<u8>)> {
    use tokio::io::AsyncReadExt;
    let mut stream = TcpStream::connect(("127.0.0.1", web)).await.ok()?;
    let b = body.unwrap_or(b"");
    let head = format!("{method} {} HTTP/1.1\r\nHost: localhost\r\nConnection: close\r\nContent-Type: application/json\r\nContent-Length: {}\r\n\r\n", pct(path), b.len());
    stream.write_all(head.as_bytes()).await.ok()?;
    stream.write_all(b).await.ok()?;
    let mut buf = vec![];
    tokio::time::timeout(Duration::from_secs(20), stream.read_to_end(&mut buf)).await.ok()?.ok()?;
    let cut = find(&buf, b"\r\n\r\n")?;
    let head = String::from_utf8_lossy(&buf[..cut]).to_string();
    let rest = &buf[cut + 4..];
    let status: u16 = head.split(' ').nth(1)?.parse().ok()?;
    if head.to_ascii_lowercase().contains("transfer-encoding: chunked") {
        let mut out = vec![];
        let mut r = rest;
        loop {
            let Some(eol) = find(r, b"\r\n") else { break };
            let n = usize::from_str_radix(String::from_utf8_lossy(&r[..eol]).trim(), 16).unwrap_or(0);
            let tail = &r[eol + 2..];
            if n == 0 || tail.len() < n { break; }
            out.extend_from_slice(&tail[..n]);
            r = &tail[n..];
            if r.starts_with(b"\r\n") { r = &r[2..]; }
        }
        Some((status, out))
    } else {
        Some((status, rest.to_vec()))
    }
}

#[allow(dead_code)]
async fn http_old(web: u16, method: &str, path: &str, body: Option<&str>) -> Option<(u16, String)> {
    use tokio::io::AsyncReadExt;
    let mut stream = TcpStream::connect(("127.0.0.1", web)).await.ok()?;
    let b = body.unwrap_or("");
    let req = format!("{method} {} HTTP/1.1\r\nHost: localhost\r\nConnection: close\r\nContent-Type: application/json\r\nContent-Length: {}\r\n\r\n{b}", pct(path), b.len());
    stream.write_all(req.as_bytes()).await.ok()?;
    let mut buf = vec![];
    tokio::time::timeout(Duration::from_secs(20), stream.read_to_end(&mut buf)).await.ok()?.ok()?;
    let text = String::from_utf8_lossy(&buf).to_string();
    let (head, rest) = text.split_once("\r\n\r\n")?;
    let status: u16 = head.split(' ').nth(1)?.parse().ok()?;
    let body = if head.to_ascii_lowercase().contains("transfer-encoding: chunked") {
        let mut out = String::new();
        let mut r = rest;
        loop {
            let Some((len, tail)) = r.split_once("\r\n") else { break };
            let n = usize::from_str_radix(len.trim(), 16).unwrap_or(0);
            if n == 0 || tail.len() < n { break; }
            out.push_str(&tail[..n]);
            r = tail[n..].trim_start_matches("\r\n");
        }
        out
    } else {
        rest.to_owned()
    };
    Some((status, body))
}

async fn wait_web(web: u16) -> bool {
    for _ in 0..400 {
        if let Some((200, _)) = http(web, "GET", "/api/v1/pget/nothing-here", None).await {
            return true;
        }
        tokio::time::sleep(Duration::from_millis(25)).await;
    }
    false
}

fn spawn_node(dir: &Path, name: &str, port: u16, web: u16, role: &[String]) -> Child {
    spawn_node_env(dir, name, port, web, role, &[])
}

fn spawn_node_env(dir: &Path, name: &str, port: u16, web: u16, role: &[String], extra: &[(String, String)]) -> Child {
    std::fs::create_dir_all(dir).expect("data dir");
    let mut cmd = Command::new(server_bin());
    cmd.args(role).arg("--instance-name").arg(name);
    cmd.env_clear()
        .env("WORTERBUCH_DATA_DIR", dir)
        .env("WORTERBUCH_TCP_SERVER_PORT", port.to_string())
        .env("WORTERBUCH_TCP_BIND_ADDRESS", "127.0.0.1")
        .env("WORTERBUCH_DISABLE_WS", "true")
        .env("WORTERBUCH_WS_SERVER_PORT", web.to_string())
        .env("WORTERBUCH_WS_BIND_ADDRESS", "127.0.0.1")
        .env("WORTERBUCH_DISABLE_UNIX", "true")
        .env("WORTERBUCH_EXTENDED_MONITORING", "false")
        .env("WORTERBUCH_PERSISTENCE_INTERVAL", "3600")
        .env("WORTERBUCH_SHUTDOWN_TIMEOUT", "5")
        .env("RUST_LOG", "off")
        .stdin(Stdio::piped())
        .stdout(Stdio::null())
        .stderr(Stdio::null());
    for (k, v) in extra {
        cmd.env(k, v);
    }
    cmd.spawn().expect("spawn worterbuch")
}

async fn connect(port: u16) -> Option<Conn> {
    for _ in 0..400 {
        if let Ok(stream) = TcpStream::connect(("127.0.0.1", port)).await {
            let (r, w) = stream.into_split();
            let mut rd = BufReader::new(r).lines();
            if let Ok(Ok(Some(welcome))) = tokio::time::timeout(Duration::from_secs(3), rd.next_line()).await {
                let v: Value = serde_json::from_str(&welcome).ok()?;
                let cid = v["welcome"]["clientId"].as_str()?.to_owned();
                return Some(Conn { rd, wr: w, cid, tid: 0 });
            }
        }
        tokio::time::sleep(Duration::from_millis(25)).await;
    }
    None
}

/// sends one request and waits for the message carrying its transaction id
async fn request(c: &mut Conn, kind: &str, mut body: Value) -> Option<Value> {
    c.tid += 1;
    body["transactionId"] = json!(c.tid);
    let line = json!({ kind: body }).to_string();
    c.wr.write_all(line.as_bytes()).await.ok()?;
    c.wr.write_all(b"\n").await.ok()?;
    c.wr.flush().await.ok()?;
    let deadline = tokio::time::Instant::now() + Duration::from_secs(5);
    loop {
        match tokio::time::timeout_at(deadline, c.rd.next_line()).await {
            Ok(Ok(Some(l))) => {
                let v: Value = serde_json::from_str(&l).ok()?;
                let inner = v.as_object()?.values().next()?.clone();
                if inner["transactionId"] == json!(c.tid) {
                    return Some(v);
                }
            }
            _ => return None,
        }
    }
}

fn answer_str(v: Option<Value>) -> String {
    match v {
        None => "r:noanswer".to_owned(),
        Some(v) => {
            let (k, b) = v.as_object().and_then(|o| o.iter().next()).map(|(k, b)| (k.clone(), b.clone())).unwrap_or_default();
            if k == "err" { format!("r:err{}", b["errorCode"]) } else { format!("r:{k}") }
        }
    }
}

fn walk(prefix: &str, node: &Value, out: &mut Vec<String>) {
    if let Some(v) = node.get("v") {
        if !v.is_null() {
            // ValueEntry: plain value, or {"Cas":[value, version]}
            let item = match v.get("Cas").and_then(|c| c.as_array()) {
                Some(c) if v.as_object().map(|o| o.len() == 1).unwrap_or(false) && c.len() == 2 && c[1].is_u64() => {
                    let ver = c[1].as_u64().unwrap_or(0);
                    if ver == 0 { format!("{}=P:{}", xs(prefix), js(&c[0])) } else { format!("{}=C{}:{}", xs(prefix), ver, js(&c[0])) }
                }
                _ => format!("{}=P:{}", xs(prefix), js(v)),
            };
            out.push(item);
        }
    }
    if let Some(t) = node.get("t").and_then(|t| t.as_object()) {
        for (k, child) in t {
            let p = if prefix.is_empty() { k.clone() } else { format!("{prefix}/{k}") };
            walk(&p, child, out);
        }
    }
}

/// user keys with values and CAS versions (REST export: the store without $SYS) + the registrations
async fn dump(web: u16, cids: &HashMap<usize, String>) -> String {
    let Some((200, gz)) = http_raw(web, "GET", "/api/v1/export", None).await else { return "unreachable".to_owned() };
    let mut exported = String::new();
    {
        use std::io::Read;
        let mut d = flate2::read::GzDecoder::new(&gz[..]);
        if d.read_to_string(&mut exported).is_err() {
            return "bad-export".to_owned();
        }
    }
    let tree: Value = serde_json::from_str(&exported).unwrap_or(Value::Null);
    let mut user = vec![];
    walk("", tree.get("data").unwrap_or(&tree), &mut user);
    let mut reg = vec![];
    for leaf in ["graveGoods", "lastWill"] {
        let Some((200, body)) = http(web, "GET", &format!("/api/v1/pget/$SYS/clients/?/{leaf}"), None).await else { return "unreachable".to_owned() };
        let kvs: Value = serde_json::from_str(&body).unwrap_or(Value::Null);
        for kv in kvs.as_array().cloned().unwrap_or_default() {
            let key = kv["key"].as_str().unwrap_or("").to_owned();
            let segs: Vec<&str> = key.split('/').collect();
            let mut who = segs.get(2).copied().unwrap_or("").to_owned();
            for (n, cid) in cids {
                if cid == &who {
                    who = format!("@CID{n}@");
                }
            }
            let mut val = kv["value"].to_string();
            for (n, cid) in cids {
                val = val.replace(cid.as_str(), &format!("@CID{n}@"));
            }
            let v2: Value = serde_json::from_str(&val).unwrap_or(Value::Null);
            reg.push(format!("{}/{}={}", xs(&who), leaf, js(&v2)));
        }
    }
    user.sort();
    reg.sort();
    format!("user[{}] reg[{}]", user.join(";"), reg.join(";"))
}

fn stop_gracefully(child: &mut Child) {
    // tokio_process_terminate::terminate_wait: SIGTERM, then wait
    let _ = Command::new("kill").arg("-TERM").arg(child.id().to_string()).status();
    for _ in 0..400 {
        if let Ok(Some(_)) = child.try_wait() {
            return;
        }
        std::thread::sleep(Duration::from_millis(25));
    }
    let _ = child.kill();
    let _ = child.wait();
}

async fn run_case(root: PathBuf, ops: Vec<String>) -> Vec<String> {
    let mut leader: Option<Node> = None;
    let mut sync_port = 0u16;
    let mut followers: HashMap<String, Node> = HashMap::new();
    let mut conns: HashMap<usize, Conn> = HashMap::new();
    let mut cids: HashMap<usize, String> = HashMap::new();
    let mut marker = 0u64;
    let mut mode = String::from("Json");
    let mut out = vec![];
    let subst = |text: &str, cids: &HashMap<usize, String>| {
        let mut t = text.to_owned();
        for (n, cid) in cids {
            t = t.replace(&format!("@CID{n}@"), cid);
        }
        t
    };
    for line in &ops {
        let t: Vec<&str> = line.split(' ').collect();
        let res: String = match t[0] {
            "leader" => {
                // ports are picked by binding port 0 and releasing it: another process may take one in between, so retry
                let mut res = "unreachable".to_owned();
                for _ in 0..4 {
                    let port = free_port();
                    let web = free_port();
                    sync_port = free_port();
                    let dir = root.join("leader");
                    let mut child = spawn_node(&dir, "leader", port, web, &["--leader".to_owned(), "--sync-port".to_owned(), sync_port.to_string()]);
                    if connect(port).await.is_some() && wait_web(web).await {
                        leader = Some(Node { child, port, web, dir, name: "leader".to_owned() });
                        res = "ok".to_owned();
                        break;
                    }
                    let _ = child.kill();
                    let _ = child.wait();
                }
                res
            }
            "node" | "start" => {
                // a standalone server with the given persistence backend (C18); `start` opens the same directory again
                if t[0] == "node" {
                    mode = t[1].to_owned();
                }
                let extra = vec![("WORTERBUCH_USE_PERSISTENCE".to_owned(), "true".to_owned()), ("WORTERBUCH_PERSISTENCE_MODE".to_owned(), mode.clone())];
                let mut res = "unreachable".to_owned();
                for _ in 0..4 {
                    let port = free_port();
                    let web = free_port();
                    let dir = root.join("node");
                    let mut child = spawn_node_env(&dir, "node", port, web, &[], &extra);
                    if connect(port).await.is_some() && wait_web(web).await {
                        leader = Some(Node { child, port, web, dir, name: "node".to_owned() });
                        res = "ok".to_owned();
                        break;
                    }
                    let _ = child.kill();
                    let _ = child.wait();
                }
                res
            }
            "kill" | "stop" => {
                conns.clear();
                if let Some(mut l) = leader.take() {
                    if t[0] == "kill" {
                        let _ = l.child.kill();
                        let _ = l.child.wait();
                    } else {
                        stop_gracefully(&mut l.child);
                    }
                }
                "ok".to_owned()
            }
            "settle" => {
                tokio::time::sleep(Duration::from_millis(300)).await;
                "ok".to_owned()
            }
            "burst" => {
                // n sets sent back to back, nothing awaited
                let c: usize = t[1].parse().expect("c");
                let n: usize = t[2].parse().expect("n");
                let prefix = unhex(t[3]);
                if let Some(conn) = conns.get_mut(&c) {
                    let mut text = String::new();
                    for i in 0..n {
                        conn.tid += 1;
                        text.push_str(&json!({"set": {"transactionId": conn.tid, "key": format!("{prefix}/{i}"), "value": i}}).to_string());
                        text.push('\n');
                    }
                    conn.wr.write_all(text.as_bytes()).await.ok();
                    conn.wr.flush().await.ok();
                    if t.len() > 4 {
                        tokio::time::sleep(Duration::from_micros(t[4].parse().expect("us"))).await;
                    }
                }
                "ok".to_owned()
            }
            "churn" | "churnd" => {
                // churn: n times (delete key, set key = i); churnd: n times (set key = i, delete key) -- sent back to
                // back: consecutive actions for the writer to batch
                let set_first = t[0] == "churnd";
                let c: usize = t[1].parse().expect("c");
                let n: usize = t[2].parse().expect("n");
                let key = unhex(t[3]);
                let mut last = None;
                if let Some(conn) = conns.get_mut(&c) {
                    let mut text = String::new();
                    for i in 0..n {
                        let del = json!({"delete": {"transactionId": conn.tid + if set_first { 2 } else { 1 }, "key": key}}).to_string();
                        let set = json!({"set": {"transactionId": conn.tid + if set_first { 1 } else { 2 }, "key": key, "value": i}}).to_string();
                        conn.tid += 2;
                        let (first, second) = if set_first { (set, del) } else { (del, set) };
                        text.push_str(&first);
                        text.push('\n');
                        text.push_str(&second);
                        text.push('\n');
                    }
                    conn.wr.write_all(text.as_bytes()).await.ok();
                    conn.wr.flush().await.ok();
                    // wait for the answer to the last request
                    let want = json!(conn.tid);
                    let deadline = tokio::time::Instant::now() + Duration::from_secs(5);
                    while let Ok(Ok(Some(l))) = tokio::time::timeout_at(deadline, conn.rd.next_line()).await {
                        if let Ok(v) = serde_json::from_str::<Value>(&l) {
                            if v.as_object().and_then(|o| o.values().next()).map(|b| b["transactionId"] == want).unwrap_or(false) {
                                last = Some(v);
                                break;
                            }
                        }
                    }
                }
                answer_str(last)
            }
            "join" => {
                let mut res = "unreachable".to_owned();
                for _ in 0..4 {
                    let port = free_port();
                    let web = free_port();
                    let dir = root.join(format!("f{}", t[1]));
                    let mut child = spawn_node(&dir, &format!("f{}", t[1]), port, web,
                        &["--follower".to_owned(), "--leader-address".to_owned(), format!("127.0.0.1:{sync_port}")]);
                    if wait_web(web).await {
                        followers.insert(t[1].to_owned(), Node { child, port, web, dir, name: format!("f{}", t[1]) });
                        res = "ok".to_owned();
                        break;
                    }
                    let _ = child.kill();
                    let _ = child.wait();
                }
                res
            }
            "conn" => {
                let c: usize = t[1].parse().expect("c");
                match connect(leader.as_ref().expect("leader").port).await {
                    Some(conn) => {
                        cids.insert(c, conn.cid.clone());
                        conns.insert(c, conn);
                        "ok".to_owned()
                    }
                    None => "unreachable".to_owned(),
                }
            }
            "disc" => {
                let c: usize = t[1].parse().expect("c");
                if let Some(mut conn) = conns.remove(&c) {
                    conn.wr.shutdown().await.ok();
                    // the server ends the session: wait for its side to close
                    let _ = tokio::time::timeout(Duration::from_secs(3), async { while let Ok(Some(_)) = conn.rd.next_line().await {} }).await;
                }
                "ok".to_owned()
            }
            "set" | "cset" | "del" | "pdel" => {
                let c: usize = t[1].parse().expect("c");
                let key = subst(&unhex(t[2]), &cids);
                let r = match conns.get_mut(&c) {
                    None => None,
                    Some(conn) => match t[0] {
                        "set" => { let v: Value = serde_json::from_str(&subst(&unhex(t[3]), &cids)).expect("json"); request(conn, "set", json!({"key": key, "value": v})).await }
                        "cset" => { let v: Value = serde_json::from_str(&subst(&unhex(t[3]), &cids)).expect("json"); request(conn, "cSet", json!({"key": key, "value": v, "version": t[4].parse::<u64>().expect("ver")})).await }
                        "del" => request(conn, "delete", json!({"key": key})).await,
                        _ => request(conn, "pDelete", json!({"requestPattern": key, "quiet": true})).await,
                    },
                };
                answer_str(r)
            }
            "import" => {
                // REST import on the leader: gzip of the export format
                use std::io::Write;
                let text = subst(&unhex(t[1]), &cids);
                let mut e = flate2::write::GzEncoder::new(Vec::new(), flate2::Compression::default());
                e.write_all(text.as_bytes()).expect("gz");
                let gz = e.finish().expect("gz");
                match http_raw(leader.as_ref().expect("leader").web, "POST", "/api/v1/import", Some(&gz)).await {
                    Some((200, _)) => "r:imported".to_owned(),
                    Some((st, _)) => format!("r:http{st}"),
                    None => "r:noanswer".to_owned(),
                }
            }
            "fwrite" => {
                // a follower serves the REST API only
                let f = followers.get(t[1]).expect("follower");
                let key = unhex(t[3]);
                let r = match t[2] {
                    "set" => http(f.web, "POST", &format!("/api/v1/set/{key}"), Some("1")).await,
                    "del" => http(f.web, "DELETE", &format!("/api/v1/delete/{key}"), None).await,
                    "pdel" => http(f.web, "DELETE", &format!("/api/v1/pdelete/{key}"), None).await,
                    "publish" => http(f.web, "POST", &format!("/api/v1/publish/{key}"), Some("1")).await,
                    "get" => http(f.web, "GET", &format!("/api/v1/get/{key}"), None).await,
                    "import" => {
                        // the REST import endpoint of the follower: gzip of the export format, one plain value at <key>
                        use std::io::Write;
                        let mut node = json!({"v": "imported on the follower"});
                        for seg in key.split('/').rev() { node = json!({"t": {seg: node}}); }
                        let mut e = flate2::write::GzEncoder::new(Vec::new(), flate2::Compression::default());
                        e.write_all(node.to_string().as_bytes()).expect("gz");
                        let gz = e.finish().expect("gz");
                        http_raw(f.web, "POST", "/api/v1/import", Some(&gz)).await.map(|(st, b)| (st, String::from_utf8_lossy(&b).into_owned()))
                    }
                    other => panic!("fwrite {other}"),
                };
                match r {
                    None => "r:noanswer".to_owned(),
                    Some((status, _)) => format!("r:http{status}"),
                }
            }
            "sync" => {
                // a marker travels the same ordered channel as everything before it
                marker += 1;
                let mut ok = true;
                if let Some(mut c) = connect(leader.as_ref().expect("leader").port).await {
                    request(&mut c, "set", json!({"key": "marker", "value": marker})).await;
                } else {
                    ok = false;
                }
                for f in followers.values() {
                    let mut seen = false;
                    for _ in 0..500 {
                        if let Some((200, body)) = http(f.web, "GET", "/api/v1/get/marker", None).await {
                            if body.trim() == marker.to_string() {
                                seen = true;
                                break;
                            }
                        }
                        tokio::time::sleep(Duration::from_millis(10)).await;
                    }
                    ok &= seen;
                }
                if ok { "ok".to_owned() } else { "nosync".to_owned() }
            }
            "dump" => {
                let web = if t[1] == "leader" { leader.as_ref().expect("leader").web } else { followers.get(t[1]).expect("follower").web };
                dump(web, &cids).await
            }
            "promote" => {
                if let Some(mut l) = leader.take() {
                    let _ = l.child.kill();
                    let _ = l.child.wait();
                    let _ = (&l.dir, &l.name);
                }
                conns.clear();
                let mut f = followers.remove(t[1]).expect("follower");
                stop_gracefully(&mut f.child);
                let mut res = "unreachable".to_owned();
                for _ in 0..4 {
                    let port = free_port();
                    let web = free_port();
                    sync_port = free_port();
                    let mut child = spawn_node(&f.dir, &f.name, port, web, &["--leader".to_owned(), "--sync-port".to_owned(), sync_port.to_string()]);
                    if connect(port).await.is_some() && wait_web(web).await {
                        leader = Some(Node { child, port, web, dir: f.dir.clone(), name: f.name.clone() });
                        res = "ok".to_owned();
                        break;
                    }
                    stop_gracefully(&mut child);
                }
                res
            }
            other => panic!("unknown op {other}"),
        };
        out.push(res);
    }
    if let Some(mut l) = leader {
        let _ = l.child.kill();
        let _ = l.child.wait();
    }
    for (_, mut f) in followers {
        let _ = f.child.kill();
        let _ = f.child.wait();
    }
    out
}

pub fn main(cases: &str, out: &str) {
    let cases = read_cases(cases);
    let base = PathBuf::from(out).with_extension("cluster");
    std::fs::create_dir_all(&base).expect("mkdir");
    let b2 = base.clone();
    run_parallel(cases, out, move |name, ops| {
        let dir = b2.join(name);
        std::fs::create_dir_all(&dir).expect("dir");
        let rt = tokio::runtime::Builder::new_multi_thread().worker_threads(2).enable_all().build().expect("rt");
        let r = rt.block_on(run_case(dir.clone(), ops.to_vec()));
        rt.shutdown_timeout(Duration::from_millis(200));
        std::fs::remove_dir_all(&dir).ok();
        r
    });
    std::fs::remove_dir_all(&base).ok();
}
