//! D1: a `Worterbuch` value driven directly (no background tasks), one request at a time.
use crate::util::*;
use std::panic::{AssertUnwindSafe, catch_unwind};
use tokio::sync::{mpsc, oneshot};
use worterbuch::verif::Worterbuch;
use worterbuch::Config;
use worterbuch_common::{PStateEvent, Protocol, StateEvent, ValueEntry, error::WorterbuchError, ErrorCode};

pub enum Rx {
    State(mpsc::Receiver<StateEvent>),
    PState(mpsc::Receiver<PStateEvent>),
    Ls(mpsc::Receiver<Vec<String>>),
}

fn err(e: &WorterbuchError) -> String {
    format!("err {}", ErrorCode::from(e) as u8)
}

fn kvs_tok(kvs: &[worterbuch_common::KeyValuePair]) -> String {
    let mut items: Vec<String> = kvs.iter().map(|kv| format!("{}={}", xs(&kv.key), js(&kv.value))).collect();
    items.sort();
    format!("[{}]", items.join(";"))
}

fn names_tok(names: &[String]) -> String {
    let mut items: Vec<String> = names.iter().map(|n| xs(n)).collect();
    items.sort();
    format!("[{}]", items.join(";"))
}

pub struct Sess {
    pub mem: std::collections::HashMap<(u64, String), u64>,
    pub wb: Worterbuch,
    pub rxs: Vec<Rx>,
    pub reqs: Vec<Option<oneshot::Receiver<()>>>,
}

pub async fn exec(s: &mut Sess, line: &str) -> String {
    let t: Vec<&str> = line.split(' ').collect();
    let n = |i: usize| -> u64 { t[i].parse().expect("num") };
    let b = |i: usize| -> bool { t[i] == "1" };
    let wb = &mut s.wb;
    match t[0] {
        "get" => match wb.get(&unhex(t[1])) {
            Ok(v) => format!("val {}", js(&v)),
            Err(e) => err(&e),
        },
        "cget" => match wb.cget(&unhex(t[1])) {
            Ok((v, ver)) => format!("cval {} {}", ver, js(&v)),
            Err(e) => err(&e),
        },
        "cgetr" => {
            // client-side memory for the cget -> cset cycle
            let key = unhex(t[2]);
            match wb.cget(&key) {
                Ok((v, ver)) => {
                    s.mem.insert((n(1), key), ver);
                    format!("cval {} {}", ver, js(&v))
                }
                Err(e) => {
                    s.mem.insert((n(1), key), 0);
                    err(&e)
                }
            }
        }
        "csetr" => {
            let key = unhex(t[2]);
            let ver = s.mem.get(&(n(1), key.clone())).copied().unwrap_or(0);
            match wb.cset(key, json_of(t[3]), ver, client(n(1)), false).await {
                Ok(()) => "ok".into(),
                Err(e) => err(&e),
            }
        }
        "pget" => match wb.pget(&unhex(t[1])) {
            Ok(kvs) => format!("kvs {}", kvs_tok(&kvs)),
            Err(e) => err(&e),
        },
        "ls" => match wb.ls(&unhex_opt(t[1])) {
            Ok(l) => format!("names {}", names_tok(&l)),
            Err(e) => err(&e),
        },
        "pls" => match wb.pls(&unhex_opt(t[1])) {
            Ok(l) => format!("names {}", names_tok(&l)),
            Err(e) => err(&e),
        },
        "len" => format!("len {}", wb.len()),
        "set" => match wb.set(unhex(t[2]), json_of(t[3]), client(n(1)), b(4)).await {
            Ok(()) => "ok".into(),
            Err(e) => err(&e),
        },
        "cset" => match wb.cset(unhex(t[2]), json_of(t[3]), n(4), client(n(1)), b(5)).await {
            Ok(()) => "ok".into(),
            Err(e) => err(&e),
        },
        "del" => match wb.delete(unhex(t[2]), client(n(1))).await {
            Ok(v) => format!("val {}", js(&v)),
            Err(e) => err(&e),
        },
        "pdel" => match wb.pdelete(unhex(t[2]), client(n(1))).await {
            Ok(kvs) => format!("kvs {}", kvs_tok(&kvs)),
            Err(e) => err(&e),
        },
        "pub" => match wb.publish(unhex(t[1]), json_of(t[2])).await {
            Ok(()) => "ok".into(),
            Err(e) => err(&e),
        },
        "spubinit" => match wb.spub_init(n(2), unhex(t[3]), client(n(1))).await {
            Ok(()) => "ok".into(),
            Err(e) => err(&e),
        },
        "spub" => match wb.spub(n(2), json_of(t[3]), client(n(1))).await {
            Ok(()) => "ok".into(),
            Err(e) => err(&e),
        },
        "import" => match wb.import(&unhex(t[1])).await {
            Ok(ins) => {
                let mut items: Vec<String> = ins
                    .iter()
                    .map(|(k, (e, changed))| {
                        let e = match e {
                            ValueEntry::Plain(v) => format!("P:{}", js(v)),
                            ValueEntry::Cas(v, ver) => format!("C{}:{}", ver, js(v)),
                        };
                        format!("{}={}:{}", xs(k), e, if *changed { 1 } else { 0 })
                    })
                    .collect();
                items.sort();
                format!("imp [{}]", items.join(";"))
            }
            Err(e) => err(&e),
        },
        "sub" => match wb.subscribe(client(n(1)), n(2), unhex(t[3]), b(4), b(5)).await {
            Ok((rx, _)) => {
                s.rxs.push(Rx::State(rx));
                format!("sub {}", s.rxs.len() - 1)
            }
            Err(e) => err(&e),
        },
        "psub" => match wb.psubscribe(client(n(1)), n(2), unhex(t[3]), b(4), b(5)).await {
            Ok((rx, _)) => {
                s.rxs.push(Rx::PState(rx));
                format!("sub {}", s.rxs.len() - 1)
            }
            Err(e) => err(&e),
        },
        "unsub" => match wb.unsubscribe(client(n(1)), n(2)).await {
            Ok(()) => "ok".into(),
            Err(e) => err(&e),
        },
        "subls" => match wb.subscribe_ls(client(n(1)), n(2), unhex_opt(t[3])).await {
            Ok((rx, _)) => {
                s.rxs.push(Rx::Ls(rx));
                format!("sub {}", s.rxs.len() - 1)
            }
            Err(e) => err(&e),
        },
        "unsubls" => match wb.unsubscribe_ls(client(n(1)), n(2)) {
            Ok(()) => "ok".into(),
            Err(e) => err(&e),
        },
        "lock" => match wb.lock(unhex(t[2]), client(n(1))).await {
            Ok(()) => "ok".into(),
            Err(e) => err(&e),
        },
        "acq" => match wb.acquire_lock(unhex(t[2]), client(n(1))).await {
            Ok(rx) => {
                s.reqs.push(Some(rx));
                format!("req {}", s.reqs.len() - 1)
            }
            Err(e) => err(&e),
        },
        "rel" => match wb.release_lock(unhex(t[2]), client(n(1))).await {
            Ok(()) => "ok".into(),
            Err(e) => err(&e),
        },
        "conn" => match wb.connected(client(n(1)), None, &Protocol::TCP).await {
            Ok(()) => "ok".into(),
            Err(e) => err(&e),
        },
        "disc" => match wb.disconnected(client(n(1)), None).await {
            Ok(()) => "ok".into(),
            Err(e) => err(&e),
        },
        "dump" => {
            // the whole tree, discovered through the public read API only (ls + cget)
            let mut items = vec![];
            let mut stack: Vec<Option<String>> = vec![None];
            while let Some(path) = stack.pop() {
                let entry = match &path {
                    Some(p) => match wb.cget(p) {
                        Ok((v, 0)) => format!("|P:{}", js(&v)),
                        Ok((v, ver)) => format!("|C{}:{}", ver, js(&v)),
                        Err(_) => String::new(),
                    },
                    None => String::new(),
                };
                items.push(format!("{}{}", path.as_deref().map(xs).unwrap_or_else(|| "-".into()), entry));
                if let Ok(children) = wb.ls(&path) {
                    for c in children {
                        stack.push(Some(match &path {
                            Some(p) => format!("{p}/{c}"),
                            None => c,
                        }));
                    }
                }
            }
            items.sort();
            format!("dump len={} nodes=[{}]", wb.len(), items.join(";"))
        }
        other => panic!("unknown op {other}"),
    }
}

pub fn drain(s: &mut Sess) -> String {
    let mut evs: Vec<String> = vec![];
    let mut lss: Vec<String> = vec![];
    for (i, rx) in s.rxs.iter_mut().enumerate() {
        match rx {
            Rx::State(rx) => {
                while let Ok(ev) = rx.try_recv() {
                    evs.push(match ev {
                        StateEvent::Value(v) => format!("{i}:V:{}", js(&v)),
                        StateEvent::Deleted(v) => format!("{i}:D:{}", js(&v)),
                    });
                }
            }
            Rx::PState(rx) => {
                while let Ok(ev) = rx.try_recv() {
                    evs.push(match ev {
                        PStateEvent::KeyValuePairs(kvs) => format!("{i}:PV:{}", kvs_tok(&kvs)),
                        PStateEvent::Deleted(kvs) => format!("{i}:PD:{}", kvs_tok(&kvs)),
                    });
                }
            }
            Rx::Ls(rx) => {
                let mut count = 0;
                let mut last = None;
                while let Ok(l) = rx.try_recv() {
                    count += 1;
                    last = Some(l);
                }
                if let Some(l) = last {
                    lss.push(format!("{i}:{count}:{}", names_tok(&l)));
                }
            }
        }
    }
    // events stay in arrival order per subscription; the driver canonicalises (stable sort by key)
    let mut granted = vec![];
    let mut cancelled = vec![];
    for (i, r) in s.reqs.iter_mut().enumerate() {
        if let Some(rx) = r {
            match rx.try_recv() {
                Ok(()) => {
                    granted.push(i.to_string());
                    *r = None;
                }
                Err(oneshot::error::TryRecvError::Closed) => {
                    cancelled.push(i.to_string());
                    *r = None;
                }
                Err(oneshot::error::TryRecvError::Empty) => {}
            }
        }
    }
    format!(
        " | ev {} | ls {} | g {} | c {}",
        evs.join(" "),
        lss.join(" "),
        granted.join(" "),
        cancelled.join(" ")
    )
}

fn run_case(config: &Config, ops: &[String]) -> Vec<String> {
    let rt = tokio::runtime::Builder::new_current_thread().enable_all().build().expect("rt");
    let mut s = Sess { mem: Default::default(), wb: Worterbuch::with_config(config.clone()), rxs: vec![], reqs: vec![] };
    let mut out = vec![];
    for line in ops {
        let r = catch_unwind(AssertUnwindSafe(|| rt.block_on(exec(&mut s, line))));
        match r {
            Ok(res) => {
                let side = drain(&mut s);
                out.push(format!("{res}{side}"));
            }
            Err(_) => {
                out.push("crash".to_owned());
                break;
            }
        }
    }
    out
}

pub fn main(cases: &str, out: &str) {
    let rt = tokio::runtime::Builder::new_current_thread().enable_all().build().expect("rt");
    let mut config = rt.block_on(Config::new(None)).expect("config");
    config.extended_monitoring = false;
    config.channel_buffer_size = 100_000;
    config.use_persistence = false;
    let cases = read_cases(cases);
    run_parallel(cases, out, move |_, ops| run_case(&config, ops));
}
