//! C09 / C10: the JSON persistence of the real code on a real directory, with simulated process
//! crashes at the hook's crash points. Core operations are those of the core engine; in addition:
//!   flush <n>          json flush; the n-th crash point fails (n = -1: none) -> `flushed` | `crashed <k>`
//!   restart            drop the core, load from the directory                -> `loaded` | `empty`
//!   fs                 canonical listing of the data directory
//!   writefile x<name> x<content> | rmfile x<name>
use crate::core_engine::{Sess, drain, exec};
use crate::util::*;
use sha2::{Digest, Sha256};
use std::panic::{AssertUnwindSafe, catch_unwind};
use std::path::{Path, PathBuf};
use worterbuch::verif::{self, Worterbuch};
use worterbuch::Config;

fn sha(data: &[u8]) -> String {
    let mut h = Sha256::new();
    h.update(data);
    hex::encode(h.finalize())
}

fn listing(dir: &Path) -> String {
    let mut items = vec![];
    let mut names: Vec<String> = std::fs::read_dir(dir)
        .map(|rd| rd.filter_map(|e| e.ok()).map(|e| e.file_name().to_string_lossy().into_owned()).collect())
        .unwrap_or_default();
    names.sort();
    for name in names {
        let content = std::fs::read(dir.join(&name)).unwrap_or_default();
        let v1_base = match name.as_str() {
            ".store.sha" => Some(".store.json"),
            ".store.sha~" => Some(".store.json~"),
            _ => None,
        };
        if let Some(base) = name.strip_suffix(".sha256").or(v1_base) {
            let data = std::fs::read(dir.join(base)).ok();
            let valid = data.map(|d| sha(&d).as_bytes() == content.as_slice()).unwrap_or(false);
            items.push(format!("{}={}", xs(&name), if valid { "valid" } else { "stale" }));
        } else if name.ends_with(".sha256.tmp") {
            items.push(format!("{}=sumtmp:{}", xs(&name), content.len()));
        } else if name.starts_with("gglw.") || name.starts_with(".gglw.") {
            // registrations are collected in hash order: compare the complete file with both lists sorted
            match serde_json::from_slice::<serde_json::Value>(&content) {
                Ok(serde_json::Value::Object(m)) => {
                    let sorted = |k: &str| {
                        let mut l: Vec<String> = m.get(k).and_then(|v| v.as_array()).map(|a| a.iter().map(|x| x.to_string()).collect()).unwrap_or_default();
                        l.sort();
                        l.join(",")
                    };
                    items.push(format!("{}=gglw:{}", xs(&name), hex::encode(format!("{}|{}", sorted("grave_goods"), sorted("last_will")))));
                }
                _ => items.push(format!("{}=torn", xs(&name))),
            }
        } else {
            items.push(format!("{}=x{}", xs(&name), hex::encode(&content)));
        }
    }
    format!("fs [{}]", items.join(";"))
}

fn run_case(base: &Config, dir: PathBuf, ops: &[String]) -> Vec<String> {
    let rt = tokio::runtime::Builder::new_current_thread().enable_all().build().expect("rt");
    let _ = std::fs::remove_dir_all(&dir);
    std::fs::create_dir_all(&dir).expect("mkdir");
    let mut config = base.clone();
    config.data_dir = dir.to_string_lossy().into_owned();
    let mut s = Sess { mem: Default::default(), wb: Worterbuch::with_config(config.clone()), rxs: vec![], reqs: vec![] };
    let mut out = vec![];
    for line in ops {
        let t: Vec<&str> = line.split(' ').collect();
        let r = catch_unwind(AssertUnwindSafe(|| match t[0] {
            "flush" => {
                let n: i64 = t[1].parse().expect("n");
                verif::arm_crash(n);
                let res = rt.block_on(verif::json_flush_synchronous(&mut s.wb, &config));
                let passed = verif::crash_points_passed();
                verif::arm_crash(-1);
                match res {
                    Ok(()) => "flushed".to_owned(),
                    Err(_) => format!("crashed {passed}"),
                }
            }
            "restart" => {
                s.rxs.clear();
                s.reqs.clear();
                match rt.block_on(verif::json_load(&config)) {
                    Ok(wb) => {
                        s.wb = wb;
                        "loaded".to_owned()
                    }
                    Err(_) => {
                        s.wb = Worterbuch::with_config(config.clone());
                        "empty".to_owned()
                    }
                }
            }
            "fs" => listing(&dir),
            "writeraw" => {
                std::fs::write(dir.join(unhex(t[1])), hex::decode(&t[2][1..]).expect("hex")).expect("write");
                "ok".to_owned()
            }
            "writejson" => {
                std::fs::write(dir.join(unhex(t[1])), serde_json::to_string(&json_of(t[2])).expect("ser")).expect("write");
                "ok".to_owned()
            }
            "writesum" => {
                std::fs::write(dir.join(unhex(t[1])), sha(serde_json::to_string(&json_of(t[2])).expect("ser").as_bytes())).expect("write");
                "ok".to_owned()
            }
            "touch" => {
                std::fs::write(dir.join(unhex(t[1])), b"").expect("write");
                "ok".to_owned()
            }
            "rmfile" => {
                let _ = std::fs::remove_file(dir.join(unhex(t[1])));
                "ok".to_owned()
            }
            _ => {
                let res = rt.block_on(exec(&mut s, line));
                let side = drain(&mut s);
                format!("{res}{side}")
            }
        }));
        match r {
            Ok(l) => out.push(l),
            Err(_) => {
                out.push("crash".to_owned());
                break;
            }
        }
    }
    let _ = std::fs::remove_dir_all(&dir);
    out
}

pub fn main(cases: &str, out: &str) {
    let rt = tokio::runtime::Builder::new_current_thread().enable_all().build().expect("rt");
    let mut config = rt.block_on(Config::new(None)).expect("config");
    config.extended_monitoring = false;
    config.channel_buffer_size = 100_000;
    config.use_persistence = true;
    verif::unlock_persistence();
    let root = PathBuf::from(out).with_extension("dirs");
    let cases = read_cases(cases);
    let root2 = root.clone();
    run_parallel(cases, out, move |name, ops| run_case(&config, root2.join(name), ops));
    let _ = std::fs::remove_dir_all(&root);
}
