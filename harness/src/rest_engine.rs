//! The REST front end (server/axum/mod.rs) of a real in-process server.
//!   cfg auth=<0|1>
//!   rest <none|bad|expired|j<claims>> <GET|POST|DELETE> x<path below /api/v1/> [j<body>]
//! output: `<status>` for anything but 200, else `200 <canonical body>`:
//!   get / delete: j<value>; pget / pdelete: kvs[..] sorted; ls: names[..] sorted; set / publish / import: ok;
//!   export: j<the exported tree, gunzipped, object keys sorted>
use crate::util::*;
use serde_json::{Value, json};
use std::io::Read;
use std::time::Duration;
use tokio::io::{AsyncReadExt, AsyncWriteExt};
use tokio::net::TcpStream;
use worterbuch::{Config, Endpoint, WsEndpoint, spawn_worterbuch};

const SECRET: &str = "verif-secret";

pub(crate) fn free_port() -> u16 {
    use std::sync::atomic::{AtomicU32, Ordering};
    static NEXT: AtomicU32 = AtomicU32::new(0);
    let base = 45000 + (std::process::id() % 8) * 1000;
    loop {
        let n = NEXT.fetch_add(1, Ordering::SeqCst);
        let port = (base + n % 1000) as u16;
        if std::net::TcpListener::bind(("127.0.0.1", port)).is_ok() {
            return port;
        }
    }
}

fn pct(path: &str) -> String {
    path.bytes().map(|b| if b.is_ascii_alphanumeric() || b == b'/' || b == b'-' || b == b'_' || b == b'.' { (b as char).to_string() } else { format!("%{b:02X}") }).collect()
}

fn find(hay: &[u8], needle: &[u8]) -> Option<usize> {
    hay.windows(needle.len()).position(|w| w == needle)
}

pub(crate) async fn http(port: u16, method: &str, path: &str, token: Option<&str>, body: Option<&[u8]>) -> Option<(u16, Vec<u8>)> {
    let mut stream = TcpStream::connect(("127.0.0.1", port)).await.ok()?;
    let b = body.unwrap_or(b"");
    let auth = token.map(|t| format!("Authorization: Bearer {t}\r\n")).unwrap_or_default();
    let head = format!("{method} /api/v1/{} HTTP/1.1\r\nHost: localhost\r\nConnection: close\r\n{auth}Content-Type: application/json\r\nContent-Length: {}\r\n\r\n", pct(path), b.len());
    stream.write_all(head.as_bytes()).await.ok()?;
    stream.write_all(b).await.ok()?;
    let mut buf = vec![];
    tokio::time::timeout(Duration::from_secs(20), stream.read_to_end(&mut buf)).await.ok()?.ok()?;
    let cut = find(&buf, b"\r\n\r\n")?;
    let head = String::from_utf8_lossy(&buf[..cut]).to_string();
    let rest = &buf[cut + 4..];
    let status: u16 = head.split(' ').nth(1)?.parse().ok()?;
    if head.to_ascii_lowercase().contains("transfer-encoding: chunked") {
        let mut out = vec![];
        let mut r = rest;
        loop {
            let Some(eol) = find(r, b"\r\n") else { break };
            let n = usize::from_str_radix(String::from_utf8_lossy(&r[..eol]).trim(), 16).unwrap_or(0);
            let tail = &r[eol + 2..];
            if n == 0 || tail.len() < n { break; }
            out.extend_from_slice(&tail[..n]);
            r = &tail[n..];
            if r.starts_with(b"\r\n") { r = &r[2..]; }
        }
        Some((status, out))
    } else {
        Some((status, rest.to_vec()))
    }
}

fn sort_keys(v: &Value) -> Value {
    match v {
        Value::Object(m) => {
            let mut keys: Vec<&String> = m.keys().collect();
            keys.sort();
            let mut o = serde_json::Map::new();
            for k in keys { o.insert(k.clone(), sort_keys(&m[k])); }
            Value::Object(o)
        }
        Value::Array(a) => Value::Array(a.iter().map(sort_keys).collect()),
        x => x.clone(),
    }
}

pub(crate) fn canon(endpoint: &str, body: &[u8]) -> String {
    let text = String::from_utf8_lossy(body).to_string();
    match endpoint {
        "set" | "publish" | "import" => "ok".to_owned(),
        "get" | "delete" => serde_json::from_str::<Value>(&text).map(|v| js(&v)).unwrap_or(format!("?{}", hex::encode(body))),
        "pget" | "pdelete" => match serde_json::from_str::<Value>(&text) {
            Ok(Value::Array(a)) => {
                let mut items: Vec<String> = a.iter().map(|kv| format!("{}={}", xs(kv["key"].as_str().unwrap_or("")), js(&kv["value"]))).collect();
                items.sort();
                format!("kvs[{}]", items.join(";"))
            }
            _ => format!("?{}", hex::encode(body)),
        },
        "ls" => match serde_json::from_str::<Value>(&text) {
            Ok(Value::Array(a)) => {
                // the running server populates $SYS itself: left out (the model's store starts empty)
                let mut items: Vec<String> = a.iter().filter(|n| n.as_str() != Some("$SYS")).map(|n| xs(n.as_str().unwrap_or(""))).collect();
                items.sort();
                format!("names[{}]", items.join(";"))
            }
            _ => format!("?{}", hex::encode(body)),
        },
        "export" => {
            let mut d = flate2::read::GzDecoder::new(body);
            let mut s = String::new();
            if d.read_to_string(&mut s).is_err() { return format!("?gz{}", hex::encode(body)); }
            serde_json::from_str::<Value>(&s).map(|v| js(&sort_keys(&v))).unwrap_or(format!("?{}", hex::encode(s.as_bytes())))
        }
        _ => format!("?{}", hex::encode(body)),
    }
}

async fn run_case(ops: Vec<String>) -> Vec<String> {
    let auth = ops.first().map(|l| l.contains("auth=1")).unwrap_or(false);
    let port = free_port();
    let mut config = Config::new(None).await.expect("config");
    config.ws_endpoint = Some(WsEndpoint { endpoint: Endpoint { tls: false, bind_addr: "127.0.0.1".parse().expect("ip"), port }, public_addr: "localhost".to_owned() });
    config.ws_disabled = false;
    config.tcp_endpoint = None;
    config.tcp_disabled = true;
    config.unix_endpoint = None;
    config.unix_disabled = true;
    config.use_persistence = false;
    config.extended_monitoring = false;
    config.channel_buffer_size = 10_000;
    config.auth_token_key = if auth { Some(SECRET.to_owned()) } else { None };
    config.leader = false;
    config.follower = false;
    let (done_tx, done_rx) = tokio::sync::oneshot::channel::<Vec<String>>();
    let _ = tosub::build_root("rest-harness")
        .start(async move |s: tosub::SubsystemHandle| {
            let _api = spawn_worterbuch(&s, config).await.map_err(|e| miette::miette!("{e}"))?;
            let good = jsonwebtoken::encode(&jsonwebtoken::Header::new(jsonwebtoken::Algorithm::HS256),
                &json!({"sub": "u", "name": "n", "exp": 4102444800u64, "worterbuchPrivileges": {"read": ["#"]}}),
                &jsonwebtoken::EncodingKey::from_secret(SECRET.as_bytes())).expect("jwt");
            let mut up = false;
            for _ in 0..400 {
                if let Some((st, _)) = http(port, "GET", "pget/nothing-here", Some(&good), None).await {
                    if st == 200 { up = true; break; }
                }
                tokio::time::sleep(Duration::from_millis(10)).await;
            }
            let mut lines = vec![if up { "ok".to_owned() } else { "HARNESS-FAILURE".to_owned() }];
            for line in &ops[1..] {
                let t: Vec<&str> = line.split(' ').collect();
                let token: Option<String> = match t[1] {
                    "none" => None,
                    "bad" => Some("not.a.token".to_owned()),
                    x if x.starts_with("expired:") => {
                        let mut claims: Value = json_of(&x[8..]);
                        claims["exp"] = json!(1_000_000_000u64);
                        Some(jsonwebtoken::encode(&jsonwebtoken::Header::new(jsonwebtoken::Algorithm::HS256), &claims, &jsonwebtoken::EncodingKey::from_secret(SECRET.as_bytes())).expect("jwt"))
                    }
                    x if x.starts_with("forged:") => {
                        let claims: Value = json_of(&x[7..]);
                        Some(jsonwebtoken::encode(&jsonwebtoken::Header::new(jsonwebtoken::Algorithm::HS256), &claims, &jsonwebtoken::EncodingKey::from_secret(b"another secret")).expect("jwt"))
                    }
                    x => {
                        let claims: Value = json_of(x);
                        Some(jsonwebtoken::encode(&jsonwebtoken::Header::new(jsonwebtoken::Algorithm::HS256), &claims, &jsonwebtoken::EncodingKey::from_secret(SECRET.as_bytes())).expect("jwt"))
                    }
                };
                let method = t[2];
                let path = unhex(t[3]);
                let endpoint = path.split('/').next().unwrap_or("").to_owned();
                let body: Option<Vec<u8>> = t.get(4).map(|b| {
                    let text = unhex(b);
                    if endpoint == "import" {
                        // the import endpoint expects the gzip of an export
                        use std::io::Write;
                        let mut e = flate2::write::GzEncoder::new(Vec::new(), flate2::Compression::default());
                        e.write_all(text.as_bytes()).ok();
                        e.finish().unwrap_or_default()
                    } else { text.into_bytes() }
                });
                let r = http(port, method, &path, token.as_deref(), body.as_deref()).await;
                lines.push(match r {
                    None => "noanswer".to_owned(),
                    Some((200, b)) => format!("200 {}", canon(&endpoint, &b)),
                    Some((st, _)) => st.to_string(),
                });
            }
            done_tx.send(lines).ok();
            s.request_global_shutdown();
            Ok::<(), miette::Error>(())
        })
        .await;
    done_rx.await.unwrap_or_else(|_| vec!["HARNESS-FAILURE".to_owned()])
}

pub fn main(cases: &str, out: &str) {
    let cases = read_cases(cases);
    run_parallel(cases, out, move |_, ops| {
        let rt = tokio::runtime::Builder::new_multi_thread().worker_threads(2).enable_all().build().expect("rt");
        let r = rt.block_on(run_case(ops.to_vec()));
        rt.shutdown_timeout(Duration::from_millis(200));
        r
    });
}
