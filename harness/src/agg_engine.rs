//! C16: the real PStateAggregator on tokio's paused clock.
//!   interval <ms>            (first op of a case)
//!   kvs x<key>=j<val>;...    a KeyValuePairs event arrives now
//!   del x<key>=j<val>;...    a Deleted event arrives now
//!   adv <ms>                 time passes
//! output per op: `t=<ms since start> <batch> <batch> ...`, batch = PV[..] | PD[..] in emission order
use crate::util::*;
use std::time::Duration;
use tokio::sync::mpsc;
use worterbuch::verif::PStateAggregator;
use worterbuch_common::{KeyValuePair, PStateEvent, ServerMessage};

fn parse_kvs(tok: &str) -> Vec<KeyValuePair> {
    if tok.is_empty() {
        return vec![];
    }
    tok.split(';')
        .map(|item| {
            let (k, v) = item.split_once('=').expect("k=v");
            KeyValuePair::new(unhex(k), json_of(v))
        })
        .collect()
}

fn batch(kvs: &[KeyValuePair]) -> String {
    kvs.iter().map(|kv| format!("{}={}", xs(&kv.key), js(&kv.value))).collect::<Vec<_>>().join(";")
}

fn run_case(ops: &[String]) -> Vec<String> {
    let rt = tokio::runtime::Builder::new_current_thread().enable_all().start_paused(true).build().expect("rt");
    rt.block_on(async {
        let d: u64 = ops[0].split(' ').nth(1).expect("interval").parse().expect("ms");
        let (tx, mut rx) = mpsc::channel::<ServerMessage>(100_000);
        let agg = PStateAggregator::new(tx, "#".to_owned(), Duration::from_millis(d), 1, 100_000, client(1));
        let start = tokio::time::Instant::now();
        let mut out = vec!["ok".to_owned()];
        for line in &ops[1..] {
            let (op, arg) = line.split_once(' ').unwrap_or((line.as_str(), ""));
            match op {
                "kvs" => agg.aggregate(PStateEvent::KeyValuePairs(parse_kvs(arg))).await.expect("agg"),
                "del" => agg.aggregate(PStateEvent::Deleted(parse_kvs(arg))).await.expect("agg"),
                "adv" => tokio::time::advance(Duration::from_millis(arg.parse().expect("ms"))).await,
                other => panic!("unknown op {other}"),
            }
            for _ in 0..200 {
                tokio::task::yield_now().await;
            }
            let mut batches = vec![];
            while let Ok(m) = rx.try_recv() {
                if let ServerMessage::PState(p) = m {
                    batches.push(match p.event {
                        PStateEvent::KeyValuePairs(kvs) => format!("PV[{}]", batch(&kvs)),
                        PStateEvent::Deleted(kvs) => format!("PD[{}]", batch(&kvs)),
                    });
                }
            }
            out.push(format!("t={} {}", start.elapsed().as_millis(), batches.join(" ")));
        }
        out
    })
}

pub fn main(cases: &str, out: &str) {
    let cases = read_cases(cases);
    run_parallel(cases, out, |_, ops| run_case(ops));
}
