use serde_json::Value;
use uuid::Uuid;

pub fn unhex(tok: &str) -> String {
    // token: x<hex>
    let bytes = hex::decode(&tok[1..]).expect("hex");
    String::from_utf8(bytes).expect("utf8")
}

pub fn unhex_opt(tok: &str) -> Option<String> {
    if tok == "-" { None } else { Some(unhex(tok)) }
}

pub fn json_of(tok: &str) -> Value {
    serde_json::from_str(&unhex(tok)).expect("json")
}

pub fn xs(s: &str) -> String {
    format!("x{}", hex::encode(s.as_bytes()))
}

pub fn js(v: &Value) -> String {
    format!("j{}", hex::encode(serde_json::to_string(v).expect("ser").as_bytes()))
}

pub fn client(n: u64) -> Uuid {
    if n == 0 {
        Uuid::nil()
    } else {
        Uuid::parse_str(&format!("00000000-0000-4000-8000-0000000000{:02x}", n)).expect("uuid")
    }
}

/// split a case file into (name, ops)
pub fn read_cases(path: &str) -> Vec<(String, Vec<String>)> {
    let text = std::fs::read_to_string(path).expect("read cases");
    let mut cases = vec![];
    let mut cur: Option<(String, Vec<String>)> = None;
    for line in text.lines() {
        let line = line.trim();
        if line.is_empty() {
            continue;
        }
        if let Some(name) = line.strip_prefix("case ") {
            cur = Some((name.to_owned(), vec![]));
        } else if line == "end" {
            cases.push(cur.take().expect("end without case"));
        } else {
            cur.as_mut().expect("op outside case").1.push(line.to_owned());
        }
    }
    cases
}

pub fn run_parallel<F>(cases: Vec<(String, Vec<String>)>, out: &str, f: F)
where
    F: Fn(&str, &[String]) -> Vec<String> + Send + Sync + 'static,
{
    use std::sync::{Arc, Mutex, atomic::{AtomicUsize, Ordering}};
    let n = cases.len();
    let cases = Arc::new(cases);
    let next = Arc::new(AtomicUsize::new(0));
    let results: Arc<Mutex<Vec<Option<Vec<String>>>>> = Arc::new(Mutex::new(vec![None; n]));
    let f = Arc::new(f);
    let threads: usize = std::env::var("WBH_THREADS").ok().and_then(|s| s.parse().ok()).unwrap_or(16);
    let mut handles = vec![];
    for _ in 0..threads {
        let cases = cases.clone();
        let next = next.clone();
        let results = results.clone();
        let f = f.clone();
        handles.push(std::thread::Builder::new().stack_size(64 << 20).spawn(move || {
            loop {
                let i = next.fetch_add(1, Ordering::SeqCst);
                if i >= cases.len() {
                    break;
                }
                let (name, ops) = &cases[i];
                let lines = f(name, ops);
                results.lock().expect("lock")[i] = Some(lines);
            }
        }).expect("spawn"));
    }
    for h in handles {
        h.join().ok();
    }
    let mut text = String::new();
    let results = results.lock().expect("lock");
    for (i, (name, _)) in cases.iter().enumerate() {
        text.push_str(&format!("case {name}\n"));
        if let Some(lines) = &results[i] {
            for l in lines {
                text.push_str(l);
                text.push('\n');
            }
        } else {
            text.push_str("HARNESS-FAILURE\n");
        }
        text.push_str("end\n");
    }
    std::fs::write(out, text).expect("write out");
}
