//! C13 / C17 / C15(session part): a real in-process server (spawn_worterbuch) with a unix-socket
//! endpoint; the harness speaks newline-delimited JSON over real sockets.
//!   cfg auth=<0|1>
//!   open <s> | close <s>
//!   send <s> x<hex of json text>     (@CID<n>@ is replaced by the client id of session n)
//!   raw <s> x<hex bytes>              a line that is sent as it is
//!   auth <s> j<claims json> | badauth <s>
//! After every op the harness waits until all sessions have been quiet for a moment and prints
//! what arrived: `<s>:<canonical message>` ... in arrival order per session; `<s>:closed` on EOF.
use crate::util::*;
use serde_json::{Value, json};
use std::collections::HashMap;
use std::path::PathBuf;
use std::time::Duration;
use tokio::io::{AsyncBufReadExt, AsyncWriteExt, BufReader};
use tokio::net::UnixStream;
use tokio::net::unix::{OwnedReadHalf, OwnedWriteHalf};
use worterbuch::{Config, UnixEndpoint, spawn_worterbuch};

const SECRET: &str = "verif-secret";

struct Conn {
    rd: tokio::io::Lines<BufReader<OwnedReadHalf>>,
    wr: OwnedWriteHalf,
    cid: String,
    closed: bool,
}

fn canon(line: &str, cids: &HashMap<usize, String>) -> String {
    let mut text = line.to_owned();
    for (n, cid) in cids {
        text = text.replace(cid.as_str(), &format!("@CID{n}@"));
    }
    let v: Value = match serde_json::from_str(&text) {
        Ok(v) => v,
        Err(_) => return format!("?{}", hex::encode(text)),
    };
    let obj = v.as_object().cloned().unwrap_or_default();
    if let Some(w) = obj.get("welcome") {
        return format!("welcome:auth={}", w["info"]["authorizationRequired"].as_bool().unwrap_or(false) as u8);
    }
    if let Some(e) = obj.get("err") {
        return format!("err:{}:{}", e["transactionId"], e["errorCode"]);
    }
    // sort the lists whose order depends on hash iteration
    let mut v = v;
    if let Some(p) = v.get_mut("pState") {
        for k in ["keyValuePairs", "deleted"] {
            if let Some(Value::Array(a)) = p.get_mut(k) {
                a.sort_by_key(|x| x.to_string());
            }
        }
    }
    if let Some(p) = v.get_mut("lsState") {
        if let Some(Value::Array(a)) = p.get_mut("children") {
            a.sort_by_key(|x| x.to_string());
        }
    }
    format!("j{}", hex::encode(v.to_string()))
}

/// `expect`: the session and transaction id of the request just sent, when the protocol owes it an answer: the quiet period
/// only counts once a message with that id (or the end of that session) has been seen -- under load the answer may take
/// longer than any quiet period (bounded by 20 s: after that the missing answer is what is reported)
async fn settle(conns: &mut HashMap<usize, Conn>, cids: &HashMap<usize, String>, out: &mut Vec<String>, expect: Option<(usize, u64)>) -> bool {
    // read until every session has been silent for QUIET; give up after MAX
    let quiet = Duration::from_millis(12);
    let start = tokio::time::Instant::now();
    let mut answered = expect.is_none();
    loop {
        let mut any = false;
        let mut keys: Vec<usize> = conns.keys().copied().collect();
        keys.sort();
        for s in keys {
            let c = conns.get_mut(&s).expect("conn");
            if c.closed {
                continue;
            }
            loop {
                match tokio::time::timeout(Duration::from_millis(1), c.rd.next_line()).await {
                    Ok(Ok(Some(line))) => {
                        any = true;
                        if let Some((es, et)) = expect {
                            if es == s {
                                if let Ok(v) = serde_json::from_str::<Value>(&line) {
                                    if v.as_object().and_then(|o| o.values().next()).map(|b| b["transactionId"] == json!(et)).unwrap_or(false) { answered = true; }
                                }
                            }
                        }
                        out.push(format!("{s}:{}", canon(&line, cids)));
                    }
                    Ok(Ok(None)) | Ok(Err(_)) => {
                        any = true;
                        c.closed = true;
                        if expect.map(|(es, _)| es == s).unwrap_or(false) { answered = true; }
                        out.push(format!("{s}:closed"));
                        break;
                    }
                    Err(_) => break,
                }
            }
        }
        if !any {
            tokio::time::sleep(quiet).await;
            // one more sweep after the quiet period
            let mut again = false;
            for c in conns.values_mut() {
                if !c.closed {
                    if let Ok(r) = tokio::time::timeout(Duration::from_millis(1), c.rd.get_mut().fill_buf()).await {
                        if r.map(|b| !b.is_empty()).unwrap_or(true) {
                            again = true;
                        }
                    }
                }
            }
            if answered && (!again || start.elapsed() > Duration::from_millis(1500)) {
                break;
            }
        }
        if (answered && start.elapsed() > Duration::from_millis(3000)) || start.elapsed() > Duration::from_secs(20) {
            break;
        }
    }
    answered
}

async fn run_case(sock: PathBuf, ops: Vec<String>) -> Vec<String> {
    let auth = ops.first().map(|l| l.contains("auth=1")).unwrap_or(false);
    let mut config = Config::new(None).await.expect("config");
    // the REST front end on a port of its own (op `rest`): the same core behind both front ends
    let web_port = crate::rest_engine::free_port();
    config.ws_endpoint = Some(worterbuch::WsEndpoint { endpoint: worterbuch::Endpoint { tls: false, bind_addr: "127.0.0.1".parse().expect("ip"), port: web_port }, public_addr: "localhost".to_owned() });
    config.ws_disabled = false;
    config.tcp_endpoint = None;
    config.unix_endpoint = Some(UnixEndpoint { path: sock.clone() });
    config.unix_disabled = false;
    config.use_persistence = false;
    config.extended_monitoring = false;
    // `buf=<n>` in the cfg line: the capacity of every channel of the server (default here: large)
    config.channel_buffer_size = ops.first().and_then(|l| l.split(' ').find_map(|x| x.strip_prefix("buf=")).and_then(|x| x.parse().ok())).unwrap_or(10_000);
    config.auth_token_key = if auth { Some(SECRET.to_owned()) } else { None };
    config.leader = false;
    config.follower = false;
    let (done_tx, done_rx) = tokio::sync::oneshot::channel::<Vec<String>>();
    let mut done_rx = done_rx;
    let run = tosub::build_root("harness")
        .start(async move |s: tosub::SubsystemHandle| {
            let _api = spawn_worterbuch(&s, config).await.map_err(|e| miette::miette!("{e}"))?;
            // wait for the socket to appear
            for _ in 0..5000 {
                if sock.exists() {
                    break;
                }
                tokio::time::sleep(Duration::from_millis(2)).await;
            }
            let mut conns: HashMap<usize, Conn> = HashMap::new();
            let mut cids: HashMap<usize, String> = HashMap::new();
            let mut lines = vec!["ok".to_owned()];
            for line in &ops[1..] {
                let t: Vec<&str> = line.split(' ').collect();
                let sn: usize = t.get(1).and_then(|x| x.parse().ok()).unwrap_or(0);
                let mut out = vec![];
                match t[0] {
                    "open" => {
                        let stream = UnixStream::connect(&sock).await.expect("connect");
                        let (r, w) = stream.into_split();
                        let mut rd = BufReader::new(r).lines();
                        // the Welcome carries the client id
                        let welcome = tokio::time::timeout(Duration::from_secs(20), rd.next_line()).await.expect("welcome timeout").expect("io").expect("eof");
                        let v: Value = serde_json::from_str(&welcome).expect("welcome json");
                        let cid = v["welcome"]["clientId"].as_str().expect("cid").to_owned();
                        cids.insert(sn, cid.clone());
                        out.push(format!("{sn}:{}", canon(&welcome, &cids)));
                        conns.insert(sn, Conn { rd, wr: w, cid, closed: false });
                    }
                    "close" => {
                        if let Some(c) = conns.get_mut(&sn) {
                            c.wr.shutdown().await.ok();
                            // the server ends the session: wait for its side of the socket to close
                            if !c.closed {
                                let deadline = tokio::time::Instant::now() + Duration::from_secs(20);
                                loop {
                                    match tokio::time::timeout_at(deadline, c.rd.next_line()).await {
                                        Ok(Ok(Some(line))) => out.push(format!("{sn}:{}", canon(&line, &cids))),
                                        _ => break,
                                    }
                                }
                                c.closed = true;
                                out.push(format!("{sn}:closed"));
                            }
                        }
                    }
                    "send" | "raw" | "auth" | "badauth" => {
                        // raw lines may be arbitrary bytes (not UTF-8); @CIDn@ substitution only applies to text
                        let raw_bytes: Option<Vec<u8>> = match t[0] {
                            "send" | "raw" => { let b = hex::decode(&t[2][1..]).expect("hex"); if std::str::from_utf8(&b).is_err() { Some(b) } else { None } }
                            _ => None,
                        };
                        let mut text = match t[0] {
                            "send" | "raw" => if raw_bytes.is_some() { String::new() } else { unhex(t[2]) },
                            "auth" => {
                                let claims: Value = json_of(t[2]);
                                let token = jsonwebtoken::encode(&jsonwebtoken::Header::new(jsonwebtoken::Algorithm::HS256), &claims,
                                    &jsonwebtoken::EncodingKey::from_secret(SECRET.as_bytes())).expect("jwt");
                                json!({"authorizationRequest": {"authToken": token}}).to_string()
                            }
                            _ => {
                                // badauth <s> [expired|forged|noalg j<claims>]: tokens the server must refuse
                                let token = match t.get(2).copied() {
                                    Some("expired") => {
                                        let mut claims: Value = json_of(t[3]);
                                        claims["exp"] = json!(1_000_000_000u64);
                                        jsonwebtoken::encode(&jsonwebtoken::Header::new(jsonwebtoken::Algorithm::HS256), &claims,
                                            &jsonwebtoken::EncodingKey::from_secret(SECRET.as_bytes())).expect("jwt")
                                    }
                                    Some("forged") => {
                                        let claims: Value = json_of(t[3]);
                                        jsonwebtoken::encode(&jsonwebtoken::Header::new(jsonwebtoken::Algorithm::HS256), &claims,
                                            &jsonwebtoken::EncodingKey::from_secret(b"somebody else's secret")).expect("jwt")
                                    }
                                    Some("noalg") => {
                                        // an unsigned token: header {"alg":"none"}, the claims, an empty signature
                                        let claims: Value = json_of(t[3]);
                                        let b64 = |b: &[u8]| {
                                            const T: &[u8; 64] = b"ABCDEFGHIJKLMNOPQRSTUVWXYZabcdefghijklmnopqrstuvwxyz0123456789-_";
                                            let mut o = String::new();
                                            for ch in b.chunks(3) {
                                                let n = (ch[0] as u32) << 16 | (*ch.get(1).unwrap_or(&0) as u32) << 8 | *ch.get(2).unwrap_or(&0) as u32;
                                                o.push(T[(n >> 18) as usize & 63] as char);
                                                o.push(T[(n >> 12) as usize & 63] as char);
                                                if ch.len() > 1 { o.push(T[(n >> 6) as usize & 63] as char); }
                                                if ch.len() > 2 { o.push(T[n as usize & 63] as char); }
                                            }
                                            o
                                        };
                                        format!("{}.{}.", b64(br#"{"alg":"none","typ":"JWT"}"#), b64(claims.to_string().as_bytes()))
                                    }
                                    _ => "not.a.token".to_owned(),
                                };
                                json!({"authorizationRequest": {"authToken": token}}).to_string()
                            }
                        };
                        for (n, cid) in &cids {
                            text = text.replace(&format!("@CID{n}@"), cid);
                        }
                        if let Some(c) = conns.get_mut(&sn) {
                            if !c.closed {
                                match &raw_bytes { Some(b) => c.wr.write_all(b).await.ok(), None => c.wr.write_all(text.as_bytes()).await.ok() };
                                c.wr.write_all(b"\n").await.ok();
                                c.wr.flush().await.ok();
                            }
                        }
                    }
                    "rest" => {
                        // rest none <METHOD> x<path below /api/v1/> [j<body>]: a REST request while the sessions are open
                        let method = t[2];
                        let path = unhex(t[3]);
                        let endpoint = path.split('/').next().unwrap_or("").to_owned();
                        let body: Option<Vec<u8>> = t.get(4).map(|b| {
                            let text = unhex(b);
                            if endpoint == "import" {
                                use std::io::Write;
                                let mut e = flate2::write::GzEncoder::new(Vec::new(), flate2::Compression::default());
                                e.write_all(text.as_bytes()).ok();
                                e.finish().unwrap_or_default()
                            } else { text.into_bytes() }
                        });
                        let mut r = None;
                        for _ in 0..200 {
                            r = crate::rest_engine::http(web_port, method, &path, None, body.as_deref()).await;
                            if r.is_some() { break; }
                            tokio::time::sleep(Duration::from_millis(10)).await;      // the web server may still be starting
                        }
                        out.push(match r {
                            None => "rest:noanswer".to_owned(),
                            Some((200, b)) => format!("rest:200:{}", crate::rest_engine::canon(&endpoint, &b)),
                            Some((st, _)) => format!("rest:{st}"),
                        });
                    }
                    "race" => {
                        // race <n> x<key> j<value> <version>: n fresh connections send the same cSet at the same moment, each from a
                        // task of its own on the multi-threaded runtime; what comes back is counted (who wins is the scheduler's business)
                        let n: usize = t[1].parse().expect("n");
                        let line = json!({"cSet": {"transactionId": 1, "key": unhex(t[2]), "value": json_of(t[3]), "version": t[4].parse::<u64>().expect("ver")}}).to_string();
                        let barrier = std::sync::Arc::new(tokio::sync::Barrier::new(n));
                        let mut tasks = vec![];
                        for _ in 0..n {
                            let sock = sock.clone();
                            let line = line.clone();
                            let barrier = barrier.clone();
                            tasks.push(tokio::spawn(async move {
                                let stream = UnixStream::connect(&sock).await.ok()?;
                                let (r, mut w) = stream.into_split();
                                let mut rd = BufReader::new(r).lines();
                                let _welcome = tokio::time::timeout(Duration::from_secs(20), rd.next_line()).await.ok()?.ok()?;
                                barrier.wait().await;
                                w.write_all(line.as_bytes()).await.ok()?;
                                w.write_all(b"\n").await.ok()?;
                                w.flush().await.ok()?;
                                loop {
                                    let l = tokio::time::timeout(Duration::from_secs(20), rd.next_line()).await.ok()?.ok()??;
                                    let v: Value = serde_json::from_str(&l).ok()?;
                                    if let Some(a) = v.get("ack") { if a["transactionId"] == json!(1) { return Some("ack".to_owned()); } }
                                    if let Some(e) = v.get("err") { if e["transactionId"] == json!(1) { return Some(format!("err{}", e["errorCode"])); } }
                                }
                            }));
                        }
                        let mut res: Vec<String> = vec![];
                        for tk in tasks {
                            res.push(tk.await.ok().flatten().unwrap_or_else(|| "noanswer".to_owned()));
                        }
                        res.sort();
                        out.push(format!("race:{}", res.join(",")));
                        // let the server finish the session ends before the next step
                        tokio::time::sleep(Duration::from_millis(30)).await;
                    }
                    "fill" => {
                        // fill <s> <prefix> <n>: session s pipelines n sets <prefix>/k<i> = i and counts the acks
                        let n: usize = t[3].parse().expect("n");
                        let mut acks = 0usize;
                        if let Some(c) = conns.get_mut(&sn) {
                            let mut burst = String::new();
                            for i in 0..n {
                                burst.push_str(&json!({"set": {"transactionId": i + 1, "key": format!("{}/k{i}", t[2]), "value": i}}).to_string());
                                burst.push('\n');
                            }
                            c.wr.write_all(burst.as_bytes()).await.ok();
                            c.wr.flush().await.ok();
                            let mut got = 0usize;
                            while got < n {
                                match tokio::time::timeout(Duration::from_secs(20), c.rd.next_line()).await {
                                    Ok(Ok(Some(l))) => {
                                        got += 1;
                                        if serde_json::from_str::<Value>(&l).ok().map(|v| v.get("ack").is_some()).unwrap_or(false) { acks += 1; }
                                    }
                                    _ => break,
                                }
                            }
                        }
                        out.push(format!("{sn}:fill={acks}"));
                    }
                    "storm" => {
                        // storm <subs> <writers> <writes> <late> <k|p>: every connection is a task of its own on the multi-threaded
                        // runtime. <subs> subscribers (live only) are acknowledged first; then <writers> writers, released at a
                        // barrier, each PIPELINE <writes> sets (no waiting for answers) -- on one shared key (k) or on a key each
                        // under one pattern (p) --, while <late> more subscribers (with snapshot) join in the middle of the traffic.
                        // What every connection received is printed raw, in arrival order; nothing is judged here.
                        let nsubs: usize = t[1].parse().expect("subs");
                        let nwr: usize = t[2].parse().expect("writers");
                        let nwrites: usize = t[3].parse().expect("writes");
                        let nlate: usize = t[4].parse().expect("late");
                        let shared = t[5] == "k";
                        let total = nwr * nwrites;
                        let sub_line = move |live: bool| if shared {
                            json!({"subscribe": {"transactionId": 7, "key": "st/k", "unique": false, "liveOnly": live}}).to_string()
                        } else {
                            json!({"pSubscribe": {"transactionId": 7, "requestPattern": "st/#", "unique": false, "liveOnly": live}}).to_string()
                        };
                        // one subscriber: tokens in arrival order: A (ack 7), E<code> (err 7), value strings of events, D for a deletion
                        async fn subscriber(sock: PathBuf, line: String, ready: Option<std::sync::Arc<tokio::sync::Barrier>>, delay_us: u64, total: usize, late: bool, done: std::sync::Arc<std::sync::atomic::AtomicBool>, go: Option<std::sync::Arc<tokio::sync::Barrier>>) -> Vec<String> {
                            let mut seen: Vec<String> = vec![];
                            let Ok(stream) = UnixStream::connect(&sock).await else { return vec!["noconnect".into()] };
                            let (r, mut w) = stream.into_split();
                            let mut rd = BufReader::new(r).lines();
                            let Ok(Ok(Some(_welcome))) = tokio::time::timeout(Duration::from_secs(20), rd.next_line()).await else { return vec!["nowelcome".into()] };
                            if let Some(g) = &go { let _ = tokio::time::timeout(Duration::from_secs(30), g.wait()).await; }
                            if delay_us > 0 { tokio::time::sleep(Duration::from_micros(delay_us)).await; }
                            if w.write_all(format!("{line}\n").as_bytes()).await.is_err() { return vec!["nowrite".into()] }
                            w.flush().await.ok();
                            let mut acked = false;
                            let started = tokio::time::Instant::now();
                            let mut quiet_after_done = 0u32;      // a late subscriber stops after four quiet periods (1.6 s) once everybody else is done
                            let mut events = 0usize;
                            loop {
                                // a late subscriber cannot know how many events it will get: it stops when everybody else is done and
                                // its socket has been quiet for a while
                                let wait = if late { Duration::from_millis(400) } else { Duration::from_secs(20) };
                                let l = match tokio::time::timeout(wait, rd.next_line()).await {
                                    Ok(Ok(Some(l))) => l,
                                    Ok(_) => { seen.push("closed".into()); break; }
                                    Err(_) => {
                                        if late {
                                            if acked && done.load(std::sync::atomic::Ordering::SeqCst) { quiet_after_done += 1; if quiet_after_done >= 4 { break; } }
                                            if started.elapsed() > Duration::from_secs(40) { seen.push("timeout".into()); break; }
                                            continue;
                                        }
                                        seen.push("timeout".into()); break;
                                    }
                                };
                                quiet_after_done = 0;
                                let v: Value = serde_json::from_str(&l).unwrap_or(Value::Null);
                                if let Some(a) = v.get("ack") {
                                    if a["transactionId"] == json!(7) {
                                        seen.push("A".into());
                                        if !acked { acked = true; if let Some(b) = &ready { let _ = tokio::time::timeout(Duration::from_secs(30), b.wait()).await; } }
                                    }
                                } else if let Some(e) = v.get("err") {
                                    seen.push(format!("E{}", e["errorCode"]));
                                    if let Some(b) = &ready { if !acked { let _ = tokio::time::timeout(Duration::from_secs(30), b.wait()).await; } }
                                    break;
                                } else if let Some(st) = v.get("state") {
                                    if let Some(x) = st.get("value") { seen.push(x.as_str().unwrap_or("?").to_owned()); events += 1; }
                                    else { seen.push("D".into()); }
                                } else if let Some(ps) = v.get("pState") {
                                    if let Some(Value::Array(kvs)) = ps.get("keyValuePairs") {
                                        // a snapshot carries several pairs at once: kept together, sorted
                                        let mut vals: Vec<String> = kvs.iter().map(|kv| kv["value"].as_str().unwrap_or("?").to_owned()).collect();
                                        vals.sort();
                                        if vals.len() == 1 { seen.push(vals[0].clone()); } else { seen.push(format!("[{}]", vals.join("+"))); }
                                        events += vals.len();
                                    } else { seen.push("D".into()); }
                                } else {
                                    seen.push(format!("?{}", hex::encode(&l)));
                                }
                                if !late && events >= total { break; }
                            }
                            seen
                        }
                        let done = std::sync::Arc::new(std::sync::atomic::AtomicBool::new(false));
                        let ready = std::sync::Arc::new(tokio::sync::Barrier::new(nsubs + 1));
                        let mut subs = vec![];
                        for _ in 0..nsubs {
                            subs.push(tokio::spawn(subscriber(sock.clone(), sub_line(true), Some(ready.clone()), 0, total, false, done.clone(), None)));
                        }
                        let _ = tokio::time::timeout(Duration::from_secs(30), ready.wait()).await;
                        let go = std::sync::Arc::new(tokio::sync::Barrier::new(nwr + nlate));
                        let mut writers = vec![];
                        for j in 0..nwr {
                            let sock = sock.clone();
                            let go = go.clone();
                            writers.push(tokio::spawn(async move {
                                let mut acks: Vec<String> = vec![];
                                let Ok(stream) = UnixStream::connect(&sock).await else { return vec!["noconnect".to_owned()] };
                                let (r, mut w) = stream.into_split();
                                let mut rd = BufReader::new(r).lines();
                                let Ok(Ok(Some(_welcome))) = tokio::time::timeout(Duration::from_secs(20), rd.next_line()).await else { return vec!["nowelcome".to_owned()] };
                                let mut burst = String::new();
                                for i in 0..nwrites {
                                    let key = if shared { "st/k".to_owned() } else { format!("st/w{j}") };
                                    burst.push_str(&json!({"set": {"transactionId": i + 1, "key": key, "value": format!("{j}.{i}")}}).to_string());
                                    burst.push('\n');
                                }
                                let _ = tokio::time::timeout(Duration::from_secs(30), go.wait()).await;
                                if w.write_all(burst.as_bytes()).await.is_err() { return vec!["nowrite".to_owned()] }
                                w.flush().await.ok();
                                while acks.len() < nwrites {
                                    match tokio::time::timeout(Duration::from_secs(20), rd.next_line()).await {
                                        Ok(Ok(Some(l))) => {
                                            let v: Value = serde_json::from_str(&l).unwrap_or(Value::Null);
                                            if let Some(a) = v.get("ack") { acks.push(a["transactionId"].to_string()); }
                                            else if let Some(e) = v.get("err") { acks.push(format!("E{}@{}", e["errorCode"], e["transactionId"])); }
                                            else { acks.push(format!("?{}", hex::encode(&l))); }
                                        }
                                        Ok(_) => { acks.push("closed".to_owned()); break; }
                                        Err(_) => { acks.push("timeout".to_owned()); break; }
                                    }
                                }
                                acks
                            }));
                        }
                        let mut lates = vec![];
                        for k in 0..nlate {
                            let go = go.clone();
                            let sock = sock.clone();
                            let line = sub_line(false);
                            let done = done.clone();
                            lates.push(tokio::spawn(async move {
                                subscriber(sock, line, None, 300 * (k as u64 + 1), total, true, done, Some(go)).await
                            }));
                        }
                        let mut parts: Vec<String> = vec![];
                        for (j, tk) in writers.into_iter().enumerate() { parts.push(format!("W{j}={}", tk.await.unwrap_or_else(|_| vec!["died".to_owned()]).join(","))); }
                        for (k, tk) in subs.into_iter().enumerate() { parts.push(format!("S{k}={}", tk.await.unwrap_or_else(|_| vec!["died".to_owned()]).join(","))); }
                        done.store(true, std::sync::atomic::Ordering::SeqCst);
                        for (k, tk) in lates.into_iter().enumerate() { parts.push(format!("L{k}={}", tk.await.unwrap_or_else(|_| vec!["died".to_owned()]).join(","))); }
                        // a witness reads the final state
                        if let Ok(stream) = UnixStream::connect(&sock).await {
                            let (r, mut w) = stream.into_split();
                            let mut rd = BufReader::new(r).lines();
                            let _ = tokio::time::timeout(Duration::from_secs(20), rd.next_line()).await;
                            let q = json!({"pGet": {"transactionId": 1, "requestPattern": "st/#"}}).to_string();
                            w.write_all(format!("{q}\n").as_bytes()).await.ok();
                            w.flush().await.ok();
                            if let Ok(Ok(Some(l))) = tokio::time::timeout(Duration::from_secs(20), rd.next_line()).await {
                                let v: Value = serde_json::from_str(&l).unwrap_or(Value::Null);
                                let mut kv: Vec<String> = v["pState"]["keyValuePairs"].as_array().map(|a| a.iter().map(|x| format!("{}:{}", x["key"].as_str().unwrap_or("?"), x["value"].as_str().unwrap_or("?"))).collect()).unwrap_or_default();
                                kv.sort();
                                parts.push(format!("G={}", kv.join(",")));
                            }
                        }
                        // a connection of the harness that could not be set up (or a task of it that died) says nothing about the
                        // server: the case is marked for the retry of infrastructure failures
                        if parts.iter().any(|p| p.contains("noconnect") || p.contains("nowelcome") || p.contains("nowrite") || p.contains("died")) {
                            lines[0] = "HARNESS-FAILURE".to_owned();
                        }
                        out.push(format!("storm:{}", parts.join(";")));
                        tokio::time::sleep(Duration::from_millis(30)).await;
                    }
                    other => panic!("unknown op {other}"),
                }
                // which answer the protocol owes: every request with a transaction id, except a waiting acquireLock
                let expect: Option<(usize, u64)> = if t[0] == "send" {
                    hex::decode(&t[2][1..]).ok().and_then(|b| String::from_utf8(b).ok()).and_then(|txt| serde_json::from_str::<Value>(&txt).ok()).and_then(|v| {
                        let o = v.as_object()?;
                        if o.len() != 1 { return None; }
                        let (kind, body) = o.iter().next()?;
                        if kind == "acquireLock" || kind == "protocolSwitchRequest" || kind == "authorizationRequest" { return None; }
                        let tid = body.get("transactionId")?.as_u64()?;
                        if conns.get(&sn).map(|c| c.closed).unwrap_or(true) { return None; }
                        Some((sn, tid))
                    })
                } else { None };
                let t0 = tokio::time::Instant::now();
                let answered = settle(&mut conns, &cids, &mut out, expect).await;
                if std::env::var("WBH_SLOW").is_ok() && t0.elapsed() > Duration::from_secs(5) { eprintln!("SLOW {:?}: {}", t0.elapsed(), if t[0] == "send" { unhex(t[2]) } else { line.clone() }); }
                if !answered {
                    // the answer the protocol owes did not come within 20 s: the server no longer serves; the case ends here
                    // (every further step would wait as long, and a core task that hangs never lets the server shut down)
                    out.push(format!("{sn}:noanswer"));
                    lines.push(out.join(" "));
                    break;
                }
                lines.push(out.join(" "));
            }
            let _ = conns.values().map(|c| c.cid.len()).sum::<usize>();
            done_tx.send(lines).ok();
            s.request_global_shutdown();
            Ok::<(), miette::Error>(())
        })
        ;
    tokio::pin!(run);
    // the case is over when its lines are there; a server whose core task hangs never finishes its shutdown: it gets 5 s
    let lines = tokio::select! {
        _ = &mut run => done_rx.try_recv().ok(),
        l = &mut done_rx => { let _ = tokio::time::timeout(Duration::from_secs(5), &mut run).await; l.ok() }
    };
    lines.unwrap_or_else(|| vec!["HARNESS-FAILURE".to_owned()])
}

pub fn main(cases: &str, out: &str) {
    let cases = read_cases(cases);
    let root = PathBuf::from(out).with_extension("socks");
    std::fs::create_dir_all(&root).expect("mkdir");
    let root2 = root.clone();
    run_parallel(cases, out, move |name, ops| {
        let rt = tokio::runtime::Builder::new_multi_thread().worker_threads(2).enable_all().build().expect("rt");
        let sock = root2.join(format!("{name}.sock"));
        let lines = rt.block_on(run_case(sock.clone(), ops.to_vec()));
        rt.shutdown_timeout(Duration::from_millis(200));
        let _ = std::fs::remove_file(&sock);
        lines
    });
    let _ = std::fs::remove_dir_all(&root);
}
